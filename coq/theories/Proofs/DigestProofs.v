(* C07 -- proofs about the digestion Model (Model/Digest.v) against Spec/DigestSpec.v *)
From Coq Require Import List ZArith Bool Lia.
Import ListNotations.
From Verif Require Import Val DigestSpec Digest.
Local Open Scope Z_scope.

Arguments next : simpl never.
Arguments push : simpl never.
Arguments logd : simpl never.
Arguments logds : simpl never.
Arguments evd : simpl never.
Arguments ev_if : simpl never.
Arguments do_paragraphs : simpl never.
Arguments drop_border_rows : simpl never.
Arguments Z.ltb : simpl never.
Arguments Z.leb : simpl never.
Arguments Z.eqb : simpl never.

(* ================================================================================================ *)
(* M5: termination -- the fuel used by parse_doc always suffices                                      *)
(* ================================================================================================ *)

Definition size (s : st) : nat := (length (s_buf s) + length (s_rest s))%nat.

Lemma next_size s t s1 : next s = Some (t, s1) -> size s = S (size s1).
Proof.
  unfold next, size. destruct s as [b r m l ev]; simpl.
  destruct b; [destruct r|]; intro H; inversion H; subst; simpl; lia.
Qed.

Lemma next_none_size s : next s = None -> size s = O.
Proof.
  unfold next, size. destruct s as [b r m l ev]; simpl.
  destruct b; [destruct r|]; intro H; try discriminate; reflexivity.
Qed.

Lemma push_size t s : size (push t s) = S (size s).
Proof. reflexivity. Qed.
Lemma logd_size k t s : size (logd k t s) = size s.
Proof. reflexivity. Qed.
Lemma ev_if_size b k t s : size (ev_if b k t s) = size s.
Proof. destruct b; reflexivity. Qed.
Lemma logds_size k ts s : size (logds k ts s) = size s.
Proof.
  unfold logds. revert s. induction ts as [|t ts IH]; intro s; simpl; [reflexivity|].
  rewrite IH. apply logd_size.
Qed.
Lemma do_paragraphs_size subs pn force h ch s : size (snd (do_paragraphs subs pn force h ch s)) = size s.
Proof.
  unfold do_paragraphs. destruct (paragraphs subs pn (s_mm s) force h ch) as [ch' dr]. simpl. apply logds_size.
Qed.

(* an outcome is fine when it is not OutOfFuel and, if it is a result, its stream is no longer than [bound] *)
Definition fine {A} (st_of : A -> st) (bound : nat) (o : outcome A) : Prop :=
  match o with Done a => (size (st_of a) <= bound)%nat | OutOfFuel => False | Crashed _ => True end.

Lemma fine_le {A} (g : A -> st) b b' o : fine g b o -> (b <= b')%nat -> fine g b' o.
Proof. destruct o; simpl; auto. intros; lia. Qed.

Lemma skip_loop_fine : forall f setc s, (size s + 1 <= f)%nat -> fine (fun x => x) (size s) (skip_loop f setc s).
Proof.
  induction f as [|f IH]; intros setc s Hf; [lia|]. simpl.
  destruct (next s) as [[t s1]|] eqn:Hn; [|simpl; lia].
  pose proof (next_size _ _ _ Hn) as Hs.
  destruct (is_ws t).
  - eapply fine_le; [apply IH; rewrite logd_size; lia|rewrite logd_size; lia].
  - destruct (setc && _).
    + eapply fine_le; [apply IH; rewrite logd_size; lia|rewrite logd_size; lia].
    + simpl. rewrite push_size. lia.
Qed.

Lemma verb_loop_fine : forall f e ch s, (size s + 1 <= f)%nat -> fine snd (size s) (verb_loop f e ch s).
Proof.
  induction f as [|f IH]; intros e ch s Hf; [lia|]. simpl.
  destruct (next s) as [[t s1]|] eqn:Hn; [|simpl; lia].
  pose proof (next_size _ _ _ Hn) as Hs.
  destruct (tok_eq t e).
  - simpl. rewrite logd_size. lia.
  - eapply fine_le; [apply IH; lia|lia].
Qed.

Section Fuel.
  Context (subs : list (list Z * list Z)) (pn : Z).

  Definition fuel_stmt (f : nat) : Prop :=
    (forall n s, (3 * size s + 3 <= f)%nat -> fine snd (size s) (digest subs pn f n s)) /\
    (forall h ch s, (3 * size s + 2 <= f)%nat -> fine snd (size s) (digest_env subs pn f h ch s)) /\
    (forall h ch dp s, (3 * size s + 1 <= f)%nat -> fine snd (size s) (env_loop subs pn f h ch dp s)) /\
    (forall h ch s, (3 * size s + 1 <= f)%nat -> fine snd (size s) (sec_loop subs pn f h ch s)) /\
    (forall h ch s, (3 * size s + 1 <= f)%nat -> fine snd (size s) (bg_loop subs pn f h ch s)) /\
    (forall sel h ch s, (3 * size s + 1 <= f)%nat -> fine snd (size s) (until_loop subs pn f sel h ch s)).

  (* one nested digest call inside a loop *)
  Ltac nested IHD t s1 :=
    let H := fresh "Hd" in
    let t' := fresh "t'" in let s2 := fresh "s2" in let k := fresh "k" in
    assert (H : fine snd (size s1) (digest subs pn _ t s1)) by (apply IHD; lia);
    destruct (digest subs pn _ t s1) as [[t' s2]| |k]; simpl in H; [|contradiction|exact I].

  Lemma fuel_all : forall f, fuel_stmt f.
  Proof.
    induction f as [|f IH].
    { repeat split; intros; lia. }
    destruct IH as (IHD & IHE & IHL & IHS & IHB & IHU).
    unfold fuel_stmt. repeat split.
    - (* digest *)
      intros n s Hf. simpl. destruct n as [h0 s0|h ch]; [simpl; lia|].
      destruct (h_kind h).
      + simpl; lia.
      + simpl; lia.
      + apply IHE; lia.
      + (* KSec *)
        assert (H : fine snd (size s) (sec_loop subs pn f h ch s)) by (apply IHS; lia).
        destruct (sec_loop subs pn f h ch s) as [[ch' s1]| |k]; simpl in H; [|contradiction|exact I].
        simpl. rewrite do_paragraphs_size. exact H.
      + (* KBgroup *)
        assert (H : fine snd (size s) (bg_loop subs pn f h ch s)) by (apply IHB; lia).
        destruct (bg_loop subs pn f h ch s) as [[ch' s1]| |k]; simpl in H; [|contradiction|exact I].
        simpl. rewrite do_paragraphs_size. exact H.
      + (* KList *)
        destruct (h_mode h =? 2); [apply IHE; lia|].
        assert (H : fine (fun x => x) (size s) (skip_loop f true s)) by (apply skip_loop_fine; lia).
        destruct (skip_loop f true s) as [s1| |k]; simpl in H; [|contradiction|exact I].
        eapply fine_le; [apply IHE; lia|lia].
      + (* KItem *)
        assert (H : fine (fun x => x) (size s) (skip_loop f false s)) by (apply skip_loop_fine; lia).
        destruct (skip_loop f false s) as [s1| |k]; simpl in H; [|contradiction|exact I].
        assert (H2 : fine snd (size s1) (until_loop subs pn f UItem h ch s1)) by (apply IHU; lia).
        destruct (until_loop subs pn f UItem h ch s1) as [[[ch' e] s2]| |k]; simpl in H2; [|contradiction|exact I].
        destruct (h_force h); simpl; [rewrite do_paragraphs_size|]; lia.
      + (* KRow *)
        assert (H2 : fine snd (size s) (until_loop subs pn f URow h ch s)) by (apply IHU; lia).
        destruct (until_loop subs pn f URow h ch s) as [[[ch' e] s1]| |k]; simpl in H2; [|contradiction|exact I].
        destruct e as [e|]; [|simpl; lia].
        destruct (next s1) as [[x s2]|] eqn:Hn; [|exact I].
        pose proof (next_size _ _ _ Hn) as Hs.
        nested IHD x s2. simpl. rewrite logd_size. lia.
      + (* KCell *)
        assert (H2 : fine snd (size s) (until_loop subs pn f UCell h ch s)) by (apply IHU; lia).
        destruct (until_loop subs pn f UCell h ch s) as [[[ch' e] s1]| |k]; simpl in H2; [|contradiction|exact I].
        destruct e as [[he se|he che]|]; try (simpl; rewrite do_paragraphs_size; lia).
        destruct (h_cd he); [|simpl; rewrite do_paragraphs_size; lia].
        destruct (next s1) as [[x s2]|] eqn:Hn; [|exact I].
        pose proof (next_size _ _ _ Hn) as Hs.
        nested IHD x s2. simpl. rewrite do_paragraphs_size, logd_size. lia.
      + (* KVerb *)
        destruct (next s) as [[e s1]|] eqn:Hn; [|exact I].
        pose proof (next_size _ _ _ Hn) as Hs.
        assert (H : fine snd (size (logd R_VERBOPEN e s1)) (verb_loop f e ch (logd R_VERBOPEN e s1)))
          by (apply verb_loop_fine; rewrite logd_size; lia).
        destruct (verb_loop f e ch (logd R_VERBOPEN e s1)) as [[ch' s2]| |k]; simpl in H; [|contradiction|exact I].
        simpl. rewrite logd_size in H. lia.
      + (* KArray *)
        assert (H : fine snd (size s) (digest_env subs pn f h ch s)) by (apply IHE; lia).
        destruct (digest_env subs pn f h ch s) as [[t1 s1]| |k]; simpl in H; [|contradiction|exact I].
        destruct t1 as [h1 x1|h1 ch1]; [simpl; exact H|].
        destruct (drop_border_rows ch1) as [[kk dd]|]; [|exact I].
        simpl. rewrite logds_size. exact H.
      + exact I.
    - (* digest_env *)
      intros h ch s Hf. simpl. destruct (h_mode h =? 2); [simpl; lia|].
      assert (H : fine snd (size s) (env_loop subs pn f h ch (h_force h) s)) by (apply IHL; lia).
      destruct (env_loop subs pn f h ch (h_force h) s) as [[[ch' dp] s1]| |k]; simpl in H; [|contradiction|exact I].
      destruct dp; simpl; [rewrite do_paragraphs_size|]; exact H.
    - (* env_loop *)
      intros h ch dp s Hf. simpl.
      destruct (next s) as [[t s1]|] eqn:Hn; [|simpl; lia].
      pose proof (next_size _ _ _ Hn) as Hs.
      destruct (level t =? PAR_LEVEL); [eapply fine_le; [apply IHL; lia|lia]|].
      destruct (level t <? h_level h); [simpl; rewrite push_size; lia|].
      destruct (is_elem t && (h_mode (hd_of t) =? 2) && (h_typ (hd_of t) =? h_typ h)); [simpl; rewrite logd_size; lia|].
      destruct (is_elem t).
      + nested IHD t s1.
        destruct ((DOC_LEVEL <? h_level h) && (depth t' <? h_depth h)); [simpl; rewrite push_size, ev_if_size; lia|].
        eapply fine_le; [apply IHL; lia|lia].
      + destruct ((DOC_LEVEL <? h_level h) && (depth t <? h_depth h)); [simpl; rewrite push_size, ev_if_size; lia|].
        eapply fine_le; [apply IHL; lia|lia].
    - (* sec_loop *)
      intros h ch s Hf. simpl.
      destruct (next s) as [[t s1]|] eqn:Hn; [|simpl; lia].
      pose proof (next_size _ _ _ Hn) as Hs.
      destruct (level t <=? h_level h); [simpl; rewrite push_size; lia|].
      destruct (is_elem t).
      + nested IHD t s1. eapply fine_le; [apply IHS; lia|lia].
      + eapply fine_le; [apply IHS; lia|lia].
    - (* bg_loop *)
      intros h ch s Hf. simpl.
      destruct (next s) as [[t s1]|] eqn:Hn; [|simpl; lia].
      pose proof (next_size _ _ _ Hn) as Hs.
      destruct t as [ht st0|ht cht]; [eapply fine_le; [apply IHB; lia|lia]|].
      destruct (h_level ht <? ENDSECTIONS_LEVEL); [simpl; rewrite push_size; lia|].
      destruct (h_eg ht); [simpl; rewrite logd_size; lia|].
      destruct (h_depth ht <? h_depth h); [simpl; rewrite push_size; lia|].
      nested IHD (Node ht cht) s1. eapply fine_le; [apply IHB; lia|lia].
    - (* until_loop *)
      intros sel h ch s Hf. simpl.
      destruct (next s) as [[t s1]|] eqn:Hn; [|simpl; lia].
      pose proof (next_size _ _ _ Hn) as Hs.
      destruct (endp sel t); [simpl; rewrite push_size; lia|].
      destruct (is_elem t).
      + pose proof (ev_if_size (low (level t)) E_NESTEDSEC t s1) as Hev.
        nested IHD t (ev_if (low (level t)) E_NESTEDSEC t s1).
        destruct (depth t' <? h_depth h); [simpl; rewrite push_size; lia|].
        eapply fine_le; [apply IHU; lia|lia].
      + destruct (depth t <? h_depth h); [simpl; rewrite push_size; lia|].
        eapply fine_le; [apply IHU; lia|lia].
  Qed.

  Lemma parse_top_fine : forall f out s, (3 * size s + 1 <= f)%nat -> fine snd (size s) (parse_top subs pn f out s).
  Proof.
    induction f as [|f IH]; intros out s Hf; [lia|]. simpl.
    destruct (next s) as [[t s1]|] eqn:Hn; [|simpl; lia].
    pose proof (next_size _ _ _ Hn) as Hs.
    destruct (fuel_all f) as (IHD & _).
    destruct (is_elem t).
    - nested IHD t s1. eapply fine_le; [apply IH; lia|lia].
    - eapply fine_le; [apply IH; lia|lia].
  Qed.

  (* M5 *)
  Theorem digest_terminates : forall ts, parse_doc subs pn ts <> OutOfFuel.
  Proof.
    intros ts H. unfold parse_doc in H.
    assert (Hf : fine snd (size (init_st ts)) (parse_top subs pn (fuel_for ts) [] (init_st ts))).
    { apply parse_top_fine. unfold fuel_for, init_st, size; simpl. lia. }
    rewrite H in Hf. exact Hf.
  Qed.
End Fuel.

(* ================================================================================================ *)
(* M1: no loss, duplication or reordering of running text                                            *)
(* ================================================================================================ *)

Lemma tree_ind2 (P : tree -> Prop) :
  (forall h s, P (Text h s)) -> (forall h ch, Forall P ch -> P (Node h ch)) -> forall t, P t.
Proof.
  intros HT HN. fix IH 1. intros [h s|h ch]; [apply HT|apply HN].
  induction ch as [|c ch IHch]; constructor; [apply IH|exact IHch].
Qed.

(* the inner loop of normalize, named *)
Definition norm_go (subs' : list (list Z * list Z)) (norm : tree -> tree) : list tree -> option (list Z) -> list tree :=
  fix go (l : list tree) (pend : option (list Z)) : list tree :=
    match l with
    | [] => flush subs' pend
    | Text _ s :: l' => go l' (pend_app pend s)
    | (Node _ _ as c) :: l' => flush subs' pend ++ norm c :: go l' None
    end.

Lemma norm_go_nil s n p : norm_go s n [] p = flush s p.
Proof. reflexivity. Qed.
Lemma norm_go_text s n h x l p : norm_go s n (Text h x :: l) p = norm_go s n l (pend_app p x).
Proof. reflexivity. Qed.
Lemma norm_go_node s n h c l p : norm_go s n (Node h c :: l) p = flush s p ++ n (Node h c) :: norm_go s n l None.
Proof. reflexivity. Qed.

Lemma normalize_node subs h ch :
  normalize subs (Node h ch) =
  Node h (norm_go (if h_nosub h then [] else subs) (normalize (if h_nosub h then [] else subs)) ch None).
Proof. reflexivity. Qed.

Section Words.
  Context (keep : Z -> bool).
  Lemma words_app a b : words keep (a ++ b) = words keep a ++ words keep b.
  Proof. unfold words. apply flat_map_app. Qed.

  Lemma words_args (args : list (list Z)) : words keep (map LArg args) = map AWord args.
  Proof. induction args as [|a args IH]; simpl; [reflexivity|]. f_equal. exact IH. Qed.

  (* the reading that shows no node is the words of the flattened tree *)
  Lemma reading_words : forall t, reading (fun _ => false) keep t = words keep (flatten t).
  Proof.
    induction t as [h s|h ch IH] using tree_ind2; simpl; [rewrite app_nil_r; reflexivity|].
    rewrite words_app, words_args. f_equal.
    induction IH as [|c ch Hc _ IHch]; simpl; [reflexivity|]. rewrite words_app, Hc, IHch. reflexivity.
  Qed.

  Lemma reading_forest_words l : reading_forest (fun _ => false) keep l = words keep (flatten_forest l).
  Proof.
    unfold reading_forest, flatten_forest. induction l as [|t l IH]; simpl; [reflexivity|].
    rewrite words_app, reading_words, IH. reflexivity.
  Qed.
End Words.

Section Payload.
  (* [vis]: which nodes are shown in the reading; the paragraph nodes that Macro.paragraphs creates are never shown (they are
     not items of the stream) *)
  Context (vis : head -> bool) (keep : Z -> bool) (Hvis : forall pn b, vis (par_head pn b) = false).

  Definition pay (t : tree) : list atom := reading vis keep t.
  Arguments pay : simpl never.
  Definition pays (l : list tree) : list atom := flat_map pay l.
  Definition hpay (h : head) : list atom := (if vis h then [ANode h] else []) ++ map AWord (h_args h).

  Lemma pay_node h ch : pay (Node h ch) = hpay h ++ pays ch.
  Proof. unfold pay, hpay, pays. simpl. rewrite <- app_assoc. reflexivity. Qed.

  Lemma pay_text h s : pay (Text h s) = map AChar (filter keep s).
  Proof. reflexivity. Qed.

  Lemma pays_app a b : pays (a ++ b) = pays a ++ pays b.
  Proof. unfold pays. apply flat_map_app. Qed.

  Lemma pays_snoc a t : pays (a ++ [t]) = pays a ++ pay t.
  Proof. rewrite pays_app. simpl. rewrite app_nil_r. reflexivity. Qed.

  (* ---- substitution tables that do not touch kept characters ------------------------------------ *)

  Definition unkept (s : list Z) : Prop := filter keep s = [].
  Definition neutral (subs : list (list Z * list Z)) : Prop := Forall (fun p => unkept (fst p) /\ unkept (snd p)) subs.

  Lemma filter_unkept_app a b : unkept a -> filter keep (a ++ b) = filter keep b.
  Proof. intro H. rewrite filter_app, H. reflexivity. Qed.

  Lemma strip_prefix_some : forall p s r, strip_prefix p s = Some r -> s = p ++ r.
  Proof.
    induction p as [|a p IH]; intros s r H; simpl in H.
    - inversion H. reflexivity.
    - destruct s as [|b s]; [discriminate|]. destruct (a =? b) eqn:E; [|discriminate].
      apply Z.eqb_eq in E. subst b. simpl. f_equal. apply IH. exact H.
  Qed.

  Lemma replace_aux_keep src dst : unkept src -> unkept dst ->
    forall n s, filter keep (replace_aux n src dst s) = filter keep s.
  Proof.
    intros Hs Hd. induction n as [|n IH]; intro s; simpl; [reflexivity|].
    destruct (strip_prefix src s) as [r|] eqn:E.
    - apply strip_prefix_some in E. subst s. rewrite !filter_unkept_app by assumption. apply IH.
    - destruct s as [|c s]; [reflexivity|]. simpl. rewrite IH. reflexivity.
  Qed.

  Lemma replace_keep src dst s : unkept src -> unkept dst -> filter keep (replace src dst s) = filter keep s.
  Proof.
    intros Hs Hd. unfold replace. destruct (isnil src).
    - rewrite filter_unkept_app by assumption.
      induction s as [|c s IH]; simpl; [reflexivity|].
      destruct (keep c); [f_equal|]; rewrite filter_unkept_app by assumption; exact IH.
    - apply replace_aux_keep; assumption.
  Qed.

  Lemma subst_all_keep subs : neutral subs -> forall v, filter keep (subst_all subs v) = filter keep v.
  Proof.
    unfold subst_all. induction 1 as [|p subs [Hp1 Hp2] _ IH]; intro v; simpl; [reflexivity|].
    rewrite IH. apply replace_keep; assumption.
  Qed.

  Lemma neutral_nil : neutral [].
  Proof. constructor. Qed.

  (* ---- normalize keeps the running text --------------------------------------------------------- *)

  Definition pend_pay (pend : option (list Z)) : list atom :=
    match pend with None => [] | Some v => map AChar (filter keep v) end.

  Lemma flush_pay subs pend : neutral subs -> pays (flush subs pend) = pend_pay pend.
  Proof.
    intro Hn. destruct pend as [v|]; simpl; [|reflexivity].
    unfold mk_text. rewrite pay_text, app_nil_r, subst_all_keep by assumption. reflexivity.
  Qed.

  Lemma pend_app_pay pend s : pend_pay (pend_app pend s) = pend_pay pend ++ map AChar (filter keep s).
  Proof. destruct pend as [v|]; simpl; [|reflexivity]. rewrite filter_app, map_app. reflexivity. Qed.

  Lemma norm_go_pay subs norm l :
    neutral subs -> Forall (fun c => pay (norm c) = pay c) l ->
    forall pend, pays (norm_go subs norm l pend) = pend_pay pend ++ pays l.
  Proof.
    intros Hn HF. induction HF as [|c l Hc _ IH]; intro pend.
    - rewrite norm_go_nil, flush_pay by assumption. simpl. rewrite app_nil_r. reflexivity.
    - destruct c as [h s|h ch].
      + rewrite norm_go_text, IH, pend_app_pay. simpl. rewrite pay_text, <- app_assoc. reflexivity.
      + rewrite norm_go_node, pays_app, flush_pay by assumption. simpl. rewrite Hc, IH. reflexivity.
  Qed.

  Lemma normalize_pay : forall t subs, neutral subs -> pay (normalize subs t) = pay t.
  Proof.
    induction t as [h s|h ch IH] using tree_ind2; intros subs Hn; [reflexivity|].
    rewrite normalize_node, !pay_node. f_equal.
    assert (Hn' : neutral (if h_nosub h then [] else subs)) by (destruct (h_nosub h); [apply neutral_nil|exact Hn]).
    rewrite norm_go_pay; [reflexivity|exact Hn'|].
    eapply Forall_impl; [|exact IH]. intros c Hc. apply Hc. exact Hn'.
  Qed.

  (* ---- Macro.paragraphs keeps the running text --------------------------------------------------- *)

  Definition is_node (t : tree) : Prop := match t with Node _ _ => True | Text _ _ => False end.

  Lemma par_level_node t : (level t =? PAR_LEVEL) = true -> is_node t.
  Proof. destruct t; simpl; [intro H; discriminate H|trivial]. Qed.

  Lemma pay_par pn b ch : pay (Node (par_head pn b) ch) = pays ch.
  Proof. rewrite pay_node. unfold hpay. rewrite Hvis. reflexivity. Qed.

  Lemma add_child_pay p c : is_node p -> pay (add_child p c) = pay p ++ pay c.
  Proof.
    destruct p as [h s|h ch]; simpl; [contradiction|]. intros _.
    rewrite !pay_node, pays_snoc, app_assoc. reflexivity.
  Qed.

  Lemma add_child_node p c : is_node p -> is_node (add_child p c).
  Proof. destruct p; simpl; auto. Qed.

  Lemma group_pays pn : forall ch acc nn rem,
    acc <> [] -> Forall is_node acc -> group pn ch acc = (nn, rem) ->
    pays nn ++ pays rem = pays (rev acc) ++ pays ch.
  Proof.
    induction ch as [|item ch IH]; intros acc nn rem Hne Hnd H; simpl in H.
    - inversion H; subst. reflexivity.
    - change (pays (item :: ch)) with (pay item ++ pays ch).
      destruct (level item =? PAR_LEVEL) eqn:E1.
      { apply IH in H; [|discriminate|constructor; [apply par_level_node; exact E1|exact Hnd]].
        rewrite H. cbn [rev]. rewrite pays_snoc, <- app_assoc. reflexivity. }
      destruct (level item <? PAR_LEVEL).
      { inversion H; subst. cbn [rev]. rewrite pays_snoc, <- app_assoc. reflexivity. }
      destruct (is_block item).
      { apply IH in H; [|discriminate|repeat constructor; exact Hnd].
        rewrite H. cbn [rev]. rewrite !pays_snoc, (pay_par pn true [item]), (pay_par pn false []).
        cbn [pays flat_map]. rewrite !app_nil_r, <- app_assoc. reflexivity. }
      destruct acc as [|last acc']; [contradiction Hne; reflexivity|].
      inversion Hnd as [|? ? Hl Hacc']; subst.
      apply IH in H; [|discriminate|constructor; [apply add_child_node; exact Hl|exact Hacc']].
      rewrite H. cbn [rev]. rewrite !pays_snoc, add_child_pay by exact Hl. rewrite <- !app_assoc. reflexivity.
  Qed.

  Lemma pays_map_norm subs l : neutral subs ->
    pays (map (fun t => if level t =? PAR_LEVEL then normalize subs t else t) l) = pays l.
  Proof.
    intro Hn. induction l as [|t l IH]; simpl; [reflexivity|]. rewrite IH. f_equal.
    destruct (level t =? PAR_LEVEL); [apply normalize_pay; exact Hn|reflexivity].
  Qed.

  Lemma pays_filter (p : tree -> bool) l :
    Forall (fun t => pay t = []) (filter p l) -> pays (filter (fun t => negb (p t)) l) = pays l.
  Proof.
    induction l as [|t l IH]; simpl; intro H; [reflexivity|].
    destruct (p t) eqn:E; simpl.
    - inversion H as [|? ? Ht Hl]; subst. rewrite Ht. simpl. apply IH. exact Hl.
    - f_equal. apply IH. exact H.
  Qed.

  Lemma paragraphs_pay subs pn mm force h ch kept dr :
    neutral subs -> paragraphs subs pn mm force h ch = (kept, dr) ->
    Forall (fun t => pay t = []) dr -> pays kept = pays ch.
  Proof.
    intros Hn H Hdr. unfold paragraphs in H.
    assert (Hcs : neutral (if mm then [] else subs)) by (destruct mm; [apply neutral_nil|exact Hn]).
    set (cs := if mm then [] else subs) in *.
    assert (Hgen : forall pname,
      (let '(newnodes, remaining) := group pname ch [Node (par_head pname false) []] in
       let newnodes' := map (fun t => if level t =? PAR_LEVEL then normalize cs t else t) newnodes in
       let all := newnodes' ++ remaining in
       (filter (fun t => negb (drop_par t)) all, filter drop_par all)) = (kept, dr) -> pays kept = pays ch).
    { intros pname Hg. destruct (group pname ch [Node (par_head pname false) []]) as [nn rem] eqn:Eg.
      inversion Hg; subst. rewrite pays_filter by exact Hdr.
      rewrite pays_app, pays_map_norm by exact Hcs.
      apply group_pays in Eg; [|discriminate|repeat constructor].
      rewrite Eg. cbn [rev app pays flat_map]. rewrite (pay_par pname false []). reflexivity. }
    destruct (find_parname ch) as [n|]; [apply (Hgen n); exact H|].
    destruct force; [apply (Hgen pn); exact H|].
    pose proof (normalize_pay (Node h ch) cs Hcs) as Hp.
    rewrite normalize_node in H, Hp. cbn [children] in H. inversion H; subst.
    rewrite !pay_node in Hp. apply app_inv_head in Hp. exact Hp.
  Qed.

  Lemma drop_border_rows_pay : forall rows k d,
    drop_border_rows rows = Some (k, d) -> Forall (fun t => pay t = []) d -> pays k = pays rows.
  Proof.
    unfold drop_border_rows.
    induction rows as [|r rows IH]; intros k d H Hd; simpl in H.
    - inversion H; subst. reflexivity.
    - fold drop_border_rows in *. destruct (is_row r).
      + destruct (border_cells (children r)) as [[|]|]; try discriminate;
          destruct (drop_border_rows rows) as [[k' d']|] eqn:E; try discriminate; inversion H; subst.
        * inversion Hd as [|? ? Hr Hd']; subst. simpl. rewrite Hr. simpl. eapply IH; [reflexivity|exact Hd'].
        * simpl. f_equal. eapply IH; [reflexivity|exact Hd].
      + destruct (drop_border_rows rows) as [[k' d']|] eqn:E; try discriminate; inversion H; subst.
        simpl. f_equal. eapply IH; [reflexivity|exact Hd].
  Qed.

  (* ---- the stream ------------------------------------------------------------------------------ *)

  Definition spay (s : st) : list atom := pays (s_buf s) ++ pays (s_rest s).
  Definition nolost (s : st) : Prop := Forall (fun e => pay (snd e) = []) (s_log s).
  Definition ext (s s' : st) : Prop := exists l, s_log s' = l ++ s_log s.

  Lemma ext_refl s : ext s s.
  Proof. exists []. reflexivity. Qed.
  Lemma ext_trans a b c : ext a b -> ext b c -> ext a c.
  Proof. intros [l1 H1] [l2 H2]. exists (l2 ++ l1). rewrite H2, H1, app_assoc. reflexivity. Qed.
  Lemma nolost_ext s s' : ext s s' -> nolost s' -> nolost s.
  Proof. intros [l H] Hn. unfold nolost in *. rewrite H in Hn. apply Forall_app in Hn. apply Hn. Qed.

  Lemma next_spay s t s1 : next s = Some (t, s1) -> spay s = pay t ++ spay s1 /\ s_log s1 = s_log s.
  Proof.
    unfold next, spay. destruct s as [b r m l ev]; simpl.
    destruct b; [destruct r|]; intro H; inversion H; subst; simpl; split; try reflexivity.
    rewrite <- app_assoc. reflexivity.
  Qed.

  Lemma next_none_spay s : next s = None -> spay s = [].
  Proof.
    unfold next, spay. destruct s as [b r m l ev]; simpl.
    destruct b; [destruct r|]; intro H; try discriminate; reflexivity.
  Qed.

  Lemma push_spay t s : spay (push t s) = pay t ++ spay s.
  Proof. unfold push, spay. simpl. rewrite <- app_assoc. reflexivity. Qed.

  Lemma logds_log k ts s : s_log (logds k ts s) = rev (map (fun t => (k, t)) ts) ++ s_log s.
  Proof.
    unfold logds. revert s. induction ts as [|t ts IH]; intro s; simpl; [reflexivity|].
    rewrite IH, <- app_assoc. reflexivity.
  Qed.

  Lemma logds_spay k ts s : spay (logds k ts s) = spay s.
  Proof.
    unfold logds. revert s. induction ts as [|t ts IH]; intro s; simpl; [reflexivity|]. rewrite IH. reflexivity.
  Qed.

  Lemma nolost_logds k ts s : nolost (logds k ts s) -> Forall (fun t => pay t = []) ts /\ nolost s.
  Proof.
    unfold nolost. rewrite logds_log. intro H. apply Forall_app in H. destruct H as [H1 H2]. split; [|exact H2].
    apply Forall_rev in H1. rewrite rev_involutive in H1.
    rewrite Forall_map in H1. exact H1.
  Qed.

  (* [post s s' lhs rhs]: the log only grew, and if nothing with running text was dropped then
     lhs followed by the remaining stream reads like rhs followed by the original stream *)
  Definition post (s s' : st) (lhs rhs : list atom) : Prop :=
    ext s s' /\ (nolost s' -> lhs ++ spay s' = rhs ++ spay s).

  Lemma ev_if_spay b k t s : spay (ev_if b k t s) = spay s.
  Proof. destruct b; reflexivity. Qed.
  Lemma ev_if_log b k t s : s_log (ev_if b k t s) = s_log s.
  Proof. destruct b; reflexivity. Qed.

  Lemma post_eq_r s s' s'' a b : spay s' = spay s'' -> s_log s' = s_log s'' -> post s s' a b -> post s s'' a b.
  Proof.
    intros Hp Hl [[l E] H]. split; [exists l; rewrite <- Hl; exact E|].
    unfold nolost. rewrite <- Hl, <- Hp. exact H.
  Qed.
  Lemma post_eq_l s0 s s' a b : spay s0 = spay s -> s_log s0 = s_log s -> post s0 s' a b -> post s s' a b.
  Proof.
    intros Hp Hl [[l E] H]. split; [exists l; rewrite <- Hl; exact E|].
    rewrite <- Hp. exact H.
  Qed.

  Lemma post_refl s a : post s s a a.
  Proof. split; [apply ext_refl|reflexivity]. Qed.

  Lemma post_push s s1 t a : spay s = pay t ++ spay s1 -> s_log s1 = s_log s -> post s (push t s1) a a.
  Proof.
    intros H Hl. split; [exists []; simpl; exact Hl|]. intros _. rewrite push_spay, H. reflexivity.
  Qed.

  Lemma post_drop s s1 t k a : spay s = pay t ++ spay s1 -> s_log s1 = s_log s -> post s (logd k t s1) a a.
  Proof.
    intros H Hl. split; [exists [(k, t)]; simpl; rewrite Hl; reflexivity|].
    intro Hn. inversion Hn as [|? ? Ht _]; subst. simpl in Ht. rewrite H, Ht. reflexivity.
  Qed.

  Lemma post_trans s s1 s2 a b c : post s s1 b a -> post s1 s2 c b -> post s s2 c a.
  Proof.
    intros [E1 H1] [E2 H2]. split; [eapply ext_trans; eassumption|].
    intro Hn. rewrite H2 by exact Hn. apply H1. eapply nolost_ext; eassumption.
  Qed.

  (* reading one item, digesting it, appending it, continuing *)
  Lemma post_step s s1 s2 s3 t t' ch ch' :
    spay s = pay t ++ spay s1 -> s_log s1 = s_log s ->
    post s1 s2 (pay t') (pay t) -> post s2 s3 (pays ch') (pays (ch ++ [t'])) -> post s s3 (pays ch') (pays ch).
  Proof.
    intros H Hl [E1 H1] [E2 H2].
    assert (E0 : ext s s1) by (exists []; simpl; exact Hl).
    split; [eapply ext_trans; [exact E0|eapply ext_trans; eassumption]|].
    intro Hn. rewrite H2 by exact Hn. rewrite pays_snoc, <- app_assoc, H1 by (eapply nolost_ext; eassumption).
    rewrite H. reflexivity.
  Qed.

  (* ... ending with a push-back of the digested item *)
  Lemma post_step_push s s1 s2 t t' a :
    spay s = pay t ++ spay s1 -> s_log s1 = s_log s ->
    post s1 s2 (pay t') (pay t) -> post s (push t' s2) a a.
  Proof.
    intros H Hl [E1 H1].
    assert (E0 : ext s s1) by (exists []; simpl; exact Hl).
    split; [eapply ext_trans; [exact E0|]; destruct E1 as [l E1]; exists l; exact E1|].
    intro Hn. rewrite push_spay, H1 by exact Hn. rewrite H. reflexivity.
  Qed.

  (* an item that is consumed, digested, and kept outside the tree (endToken) *)
  Lemma post_step_drop s s1 s2 t t' k a :
    spay s = pay t ++ spay s1 -> s_log s1 = s_log s ->
    post s1 s2 (pay t') (pay t) -> post s (logd k t' s2) a a.
  Proof.
    intros H Hl [E1 H1].
    assert (E0 : ext s s1) by (exists []; simpl; exact Hl).
    split.
    - eapply ext_trans; [exact E0|]. destruct E1 as [l E1]. exists ((k, t') :: l). simpl. rewrite E1. reflexivity.
    - intro Hn. inversion Hn as [|? ? Ht Hn']; subst. simpl in Ht.
      assert (H1' := H1 Hn'). rewrite Ht in H1'. simpl in H1'.
      change (spay (logd k t' s2)) with (spay s2). rewrite H1', H. reflexivity.
  Qed.

  Definition good {A} (proj : A -> list atom * st) (s : st) (rhs : list atom) (o : outcome A) : Prop :=
    match o with Done a => post s (snd (proj a)) (fst (proj a)) rhs | _ => True end.

  Definition proj_d (a : tree * st) := (pay (fst a), snd a).
  Definition proj_l (a : list tree * bool * st) := (pays (fst (fst a)), snd a).
  Definition proj_c (a : list tree * st) := (pays (fst a), snd a).
  Definition proj_u (a : list tree * option tree * st) := (pays (fst (fst a)), snd a).
  Definition proj_s (a : st) := (@nil atom, a).

  Lemma skip_loop_good : forall f setc s, good proj_s s [] (skip_loop f setc s).
  Proof.
    induction f as [|f IH]; intros setc s; simpl; [exact I|].
    destruct (next s) as [[t s1]|] eqn:Hn; [|apply post_refl].
    destruct (next_spay _ _ _ Hn) as [Hs Hl].
    destruct (is_ws t).
    - specialize (IH setc (logd R_WS t s1)). destruct (skip_loop f setc (logd R_WS t s1)); simpl in *; auto.
      eapply post_trans; [eapply post_drop; eassumption|exact IH].
    - destruct (setc && _).
      + specialize (IH setc (logd R_SETCOUNTER t s1)). destruct (skip_loop f setc (logd R_SETCOUNTER t s1)); simpl in *; auto.
        eapply post_trans; [eapply post_drop; eassumption|exact IH].
      + simpl. apply post_push; assumption.
  Qed.

  Lemma verb_loop_good : forall f e ch s, good proj_c s (pays ch) (verb_loop f e ch s).
  Proof.
    induction f as [|f IH]; intros e ch s; simpl; [exact I|].
    destruct (next s) as [[t s1]|] eqn:Hn; [|apply post_refl].
    destruct (next_spay _ _ _ Hn) as [Hs Hl].
    destruct (tok_eq t e).
    - simpl. apply post_drop; assumption.
    - specialize (IH e (ch ++ [t]) s1). destruct (verb_loop f e (ch ++ [t]) s1) as [[ch' s2]| |]; simpl in *; auto.
      eapply post_step; [exact Hs|exact Hl|apply post_refl|exact IH].
  Qed.

  Section Mutual.
    Context (subs : list (list Z * list Z)) (pn : Z) (Hneutral : neutral subs).

    Lemma do_paragraphs_good force h ch s :
      post s (snd (do_paragraphs subs pn force h ch s)) (pay (fst (do_paragraphs subs pn force h ch s))) (pay (Node h ch)).
    Proof.
      unfold do_paragraphs. destruct (paragraphs subs pn (s_mm s) force h ch) as [ch' dr] eqn:E. simpl.
      split.
      - eexists. apply logds_log.
      - intro Hn. apply nolost_logds in Hn. destruct Hn as [Hdr _].
        rewrite logds_spay, !pay_node. erewrite paragraphs_pay; [reflexivity|exact Hneutral|exact E|exact Hdr].
    Qed.

    Lemma good_paragraphs {s s1} force h ch ch' :
      post s s1 (pays ch') (pays ch) ->
      post s (snd (do_paragraphs subs pn force h ch' s1)) (pay (fst (do_paragraphs subs pn force h ch' s1))) (pay (Node h ch)).
    Proof.
      intro H. eapply post_trans; [|apply do_paragraphs_good].
      destruct H as [E H]. split; [exact E|]. intro Hn. rewrite !pay_node, <- !app_assoc. f_equal. apply H. exact Hn.
    Qed.

    Lemma post_node {s s1} h ch ch' : post s s1 (pays ch') (pays ch) -> post s s1 (pay (Node h ch')) (pay (Node h ch)).
    Proof.
      intros [E H]. split; [exact E|]. intro Hn. rewrite !pay_node, <- !app_assoc. f_equal. apply H. exact Hn.
    Qed.

    Definition good_stmt (f : nat) : Prop :=
      (forall n s, good proj_d s (pay n) (digest subs pn f n s)) /\
      (forall h ch s, good proj_d s (pay (Node h ch)) (digest_env subs pn f h ch s)) /\
      (forall h ch dp s, good proj_l s (pays ch) (env_loop subs pn f h ch dp s)) /\
      (forall h ch s, good proj_c s (pays ch) (sec_loop subs pn f h ch s)) /\
      (forall h ch s, good proj_c s (pays ch) (bg_loop subs pn f h ch s)) /\
      (forall sel h ch s, good proj_u s (pays ch) (until_loop subs pn f sel h ch s)).

    Ltac nested IHD t s1 :=
      let H := fresh "Hd" in
      let t' := fresh "t'" in let s2 := fresh "s2" in let k := fresh "k" in
      pose proof (IHD t s1) as H;
      destruct (digest subs pn _ t s1) as [[t' s2]| |k]; [|exact I|exact I]; unfold good, proj_d in H; simpl in H.

    Lemma good_all : forall f, good_stmt f.
    Proof.
      induction f as [|f IH].
      { repeat split; intros; exact I. }
      destruct IH as (IHD & IHE & IHL & IHS & IHB & IHU).
      unfold good_stmt. repeat split.
      - (* digest *)
        intros n s. simpl. destruct n as [h0 s0|h ch]; [apply post_refl|].
        destruct (h_kind h).
        + apply post_refl.
        + apply post_refl.
        + apply IHE.
        + (* KSec *)
          pose proof (IHS h ch s) as H.
          destruct (sec_loop subs pn f h ch s) as [[ch' s1]| |k]; [|exact I|exact I].
          unfold good, proj_c in H; simpl in H. unfold good, proj_d; simpl. apply good_paragraphs. exact H.
        + (* KBgroup *)
          pose proof (IHB h ch s) as H.
          destruct (bg_loop subs pn f h ch s) as [[ch' s1]| |k]; [|exact I|exact I].
          unfold good, proj_c in H; simpl in H. unfold good, proj_d; simpl. apply good_paragraphs. exact H.
        + (* KList *)
          destruct (h_mode h =? 2); [apply IHE|].
          pose proof (skip_loop_good f true s) as H.
          destruct (skip_loop f true s) as [s1| |k]; [|exact I|exact I].
          unfold good, proj_s in H; simpl in H.
          pose proof (IHE h ch s1) as H2.
          destruct (digest_env subs pn f h ch s1) as [[t2 s2]| |k]; [|exact I|exact I].
          unfold good, proj_d in *; simpl in *.
          destruct H as [E1 H1], H2 as [E2 H2]. split; [eapply ext_trans; eassumption|].
          intro Hn. rewrite H2 by exact Hn. f_equal. apply (H1 (nolost_ext _ _ E2 Hn)).
        + (* KItem *)
          pose proof (skip_loop_good f false s) as H.
          destruct (skip_loop f false s) as [s1| |k]; [|exact I|exact I].
          unfold good, proj_s in H; simpl in H.
          pose proof (IHU UItem h ch s1) as H2.
          destruct (until_loop subs pn f UItem h ch s1) as [[[ch' e] s2]| |k]; [|exact I|exact I].
          unfold good, proj_u in H2; simpl in H2.
          assert (H3 : post s s2 (pays ch') (pays ch)).
          { destruct H as [E1 H1], H2 as [E2 H2]. split; [eapply ext_trans; eassumption|].
            intro Hn. rewrite H2 by exact Hn. f_equal. apply (H1 (nolost_ext _ _ E2 Hn)). }
          destruct (h_force h); unfold good, proj_d; simpl; [apply good_paragraphs; exact H3|apply post_node; exact H3].
        + (* KRow *)
          pose proof (IHU URow h ch s) as H2.
          destruct (until_loop subs pn f URow h ch s) as [[[ch' e] s1]| |k]; [|exact I|exact I].
          unfold good, proj_u in H2; simpl in H2.
          destruct e as [e|]; [|unfold good, proj_d; simpl; apply post_node; exact H2].
          destruct (next s1) as [[x s2]|] eqn:Hn; [|exact I].
          destruct (next_spay _ _ _ Hn) as [Hs Hl].
          nested IHD x s2. unfold good, proj_d; simpl.
          eapply post_trans; [apply (post_node h); exact H2|].
          eapply post_step_drop; eassumption.
        + (* KCell *)
          pose proof (IHU UCell h ch s) as H2.
          destruct (until_loop subs pn f UCell h ch s) as [[[ch' e] s1]| |k]; [|exact I|exact I].
          unfold good, proj_u in H2; simpl in H2.
          destruct e as [[he se|he che]|]; try (unfold good, proj_d; simpl; apply good_paragraphs; exact H2).
          destruct (h_cd he); [|unfold good, proj_d; simpl; apply good_paragraphs; exact H2].
          destruct (next s1) as [[x s2]|] eqn:Hn; [|exact I].
          destruct (next_spay _ _ _ Hn) as [Hs Hl].
          nested IHD x s2. unfold good, proj_d; simpl.
          apply good_paragraphs.
          eapply post_trans; [exact H2|]. eapply post_step_drop; eassumption.
        + (* KVerb *)
          destruct (next s) as [[e s1]|] eqn:Hn; [|exact I].
          destruct (next_spay _ _ _ Hn) as [Hs Hl].
          pose proof (verb_loop_good f e ch (logd R_VERBOPEN e s1)) as H.
          destruct (verb_loop f e ch (logd R_VERBOPEN e s1)) as [[ch' s2]| |k]; [|exact I|exact I].
          unfold good, proj_c in H; simpl in H. unfold good, proj_d; simpl.
          apply post_node. eapply post_trans; [eapply post_drop; eassumption|exact H].
        + (* KArray *)
          pose proof (IHE h ch s) as H.
          destruct (digest_env subs pn f h ch s) as [[t1 s1]| |k]; [|exact I|exact I].
          unfold good, proj_d in H; simpl in H.
          destruct t1 as [h1 x1|h1 ch1]; [exact H|].
          destruct (drop_border_rows ch1) as [[kk dd]|] eqn:Eb; [|exact I].
          unfold good, proj_d; simpl.
          eapply post_trans; [exact H|].
          split; [eexists; apply logds_log|].
          intro Hn. apply nolost_logds in Hn. destruct Hn as [Hdd _].
          rewrite logds_spay, !pay_node. erewrite drop_border_rows_pay; [reflexivity|exact Eb|exact Hdd].
        + exact I.
      - (* digest_env *)
        intros h ch s. simpl. destruct (h_mode h =? 2); [apply post_refl|].
        pose proof (IHL h ch (h_force h) s) as H.
        destruct (env_loop subs pn f h ch (h_force h) s) as [[[ch' dp] s1]| |k]; [|exact I|exact I].
        unfold good, proj_l in H; simpl in H.
        destruct dp; unfold good, proj_d; simpl; [apply good_paragraphs|apply post_node]; exact H.
      - (* env_loop *)
        intros h ch dp s. simpl.
        destruct (next s) as [[t s1]|] eqn:Hn; [|apply post_refl].
        destruct (next_spay _ _ _ Hn) as [Hs Hl].
        destruct (level t =? PAR_LEVEL).
        { pose proof (IHL h (ch ++ [t]) true s1) as H.
          destruct (env_loop subs pn f h (ch ++ [t]) true s1) as [[[ch' dp'] s2]| |k]; [|exact I|exact I].
          unfold good, proj_l in *; simpl in *. eapply post_step; [exact Hs|exact Hl|apply post_refl|exact H]. }
        destruct (level t <? h_level h); [unfold good, proj_l; simpl; apply post_push; assumption|].
        destruct (is_elem t && (h_mode (hd_of t) =? 2) && (h_typ (hd_of t) =? h_typ h));
          [unfold good, proj_l; simpl; apply post_drop; assumption|].
        destruct (is_elem t).
        + nested IHD t s1.
          destruct ((DOC_LEVEL <? h_level h) && (depth t' <? h_depth h)).
          { unfold good, proj_l; simpl.
            eapply (post_eq_r _ (push t' s2)); [rewrite !push_spay, ev_if_spay; reflexivity|symmetry; apply (ev_if_log _ _ _ s2)|].
            eapply post_step_push; eassumption. }
          pose proof (IHL h (ch ++ [t']) dp s2) as H.
          destruct (env_loop subs pn f h (ch ++ [t']) dp s2) as [[[ch' dp'] s3]| |k]; [|exact I|exact I].
          unfold good, proj_l in *; simpl in *. eapply post_step; eassumption.
        + destruct ((DOC_LEVEL <? h_level h) && (depth t <? h_depth h)).
          { unfold good, proj_l; simpl.
            eapply (post_eq_r _ (push t s1)); [rewrite !push_spay, ev_if_spay; reflexivity|symmetry; apply (ev_if_log _ _ _ s1)|].
            apply post_push; assumption. }
          pose proof (IHL h (ch ++ [t]) dp s1) as H.
          destruct (env_loop subs pn f h (ch ++ [t]) dp s1) as [[[ch' dp'] s3]| |k]; [|exact I|exact I].
          unfold good, proj_l in *; simpl in *. eapply post_step; [exact Hs|exact Hl|apply post_refl|exact H].
      - (* sec_loop *)
        intros h ch s. simpl.
        destruct (next s) as [[t s1]|] eqn:Hn; [|apply post_refl].
        destruct (next_spay _ _ _ Hn) as [Hs Hl].
        destruct (level t <=? h_level h); [unfold good, proj_c; simpl; apply post_push; assumption|].
        destruct (is_elem t).
        + nested IHD t s1.
          pose proof (IHS h (ch ++ [t']) s2) as H.
          destruct (sec_loop subs pn f h (ch ++ [t']) s2) as [[ch' s3]| |k]; [|exact I|exact I].
          unfold good, proj_c in *; simpl in *. eapply post_step; eassumption.
        + pose proof (IHS h (ch ++ [t]) s1) as H.
          destruct (sec_loop subs pn f h (ch ++ [t]) s1) as [[ch' s3]| |k]; [|exact I|exact I].
          unfold good, proj_c in *; simpl in *. eapply post_step; [exact Hs|exact Hl|apply post_refl|exact H].
      - (* bg_loop *)
        intros h ch s. simpl.
        destruct (next s) as [[t s1]|] eqn:Hn; [|apply post_refl].
        destruct (next_spay _ _ _ Hn) as [Hs Hl].
        destruct t as [ht st0|ht cht].
        { pose proof (IHB h (ch ++ [Text ht st0]) s1) as H.
          destruct (bg_loop subs pn f h (ch ++ [Text ht st0]) s1) as [[ch' s3]| |k]; [|exact I|exact I].
          unfold good, proj_c in *; simpl in *. eapply post_step; [exact Hs|exact Hl|apply post_refl|exact H]. }
        destruct (h_level ht <? ENDSECTIONS_LEVEL); [unfold good, proj_c; simpl; apply post_push; assumption|].
        destruct (h_eg ht); [unfold good, proj_c; simpl; apply post_drop; assumption|].
        destruct (h_depth ht <? h_depth h); [unfold good, proj_c; simpl; apply post_push; assumption|].
        nested IHD (Node ht cht) s1.
        pose proof (IHB h (ch ++ [t']) s2) as H.
        destruct (bg_loop subs pn f h (ch ++ [t']) s2) as [[ch' s3]| |k]; [|exact I|exact I].
        unfold good, proj_c in *; simpl in *. eapply post_step; eassumption.
      - (* until_loop *)
        intros sel h ch s. simpl.
        destruct (next s) as [[t s1]|] eqn:Hn; [|apply post_refl].
        destruct (next_spay _ _ _ Hn) as [Hs Hl].
        destruct (endp sel t); [unfold good, proj_u; simpl; apply post_push; assumption|].
        destruct (is_elem t).
        + nested IHD t (ev_if (low (level t)) E_NESTEDSEC t s1).
          apply (post_eq_l _ s1) in Hd; [|apply ev_if_spay|apply ev_if_log].
          destruct (depth t' <? h_depth h); [unfold good, proj_u; simpl; eapply post_step_push; eassumption|].
          pose proof (IHU sel h (ch ++ [t']) s2) as H.
          destruct (until_loop subs pn f sel h (ch ++ [t']) s2) as [[[ch' e'] s3]| |k]; [|exact I|exact I].
          unfold good, proj_u in *; simpl in *. eapply post_step; eassumption.
        + destruct (depth t <? h_depth h); [unfold good, proj_u; simpl; apply post_push; assumption|].
          pose proof (IHU sel h (ch ++ [t]) s1) as H.
          destruct (until_loop subs pn f sel h (ch ++ [t]) s1) as [[[ch' e'] s3]| |k]; [|exact I|exact I].
          unfold good, proj_u in *; simpl in *. eapply post_step; [exact Hs|exact Hl|apply post_refl|exact H].
    Qed.

    Lemma parse_top_good : forall f out s out' s',
      parse_top subs pn f out s = Done (out', s') ->
      post s s' (pays out') (pays out) /\ spay s' = [].
    Proof.
      induction f as [|f IH]; intros out s out' s' H; simpl in H; [discriminate|].
      destruct (next s) as [[t s1]|] eqn:Hn.
      2:{ inversion H; subst. split; [apply post_refl|apply next_none_spay; exact Hn]. }
      destruct (next_spay _ _ _ Hn) as [Hs Hl].
      destruct (good_all f) as (IHD & _).
      destruct (is_elem t).
      - pose proof (IHD t s1) as Hd.
        destruct (digest subs pn f t s1) as [[t' s2]| |k]; try discriminate.
        unfold good, proj_d in Hd; simpl in Hd.
        apply IH in H. destruct H as [H He]. split; [|exact He]. eapply post_step; eassumption.
      - apply IH in H. destruct H as [H He]. split; [|exact He].
        eapply post_step; [exact Hs|exact Hl|apply post_refl|exact H].
    Qed.

    (* M1, general form: the reading with any choice of visible nodes *)
    Theorem digest_reading : forall ts forest s',
      parse_doc subs pn ts = Done (forest, s') ->
      Forall (fun e => reading vis keep (snd e) = []) (s_log s') ->
      reading_forest vis keep forest = reading_forest vis keep ts.
    Proof.
      intros ts forest s' H Hlog. unfold parse_doc in H. apply parse_top_good in H.
      destruct H as [[_ H] He]. specialize (H Hlog). rewrite He in H. simpl in H.
      rewrite app_nil_r in H. exact H.
    Qed.
  End Mutual.
End Payload.

(* M1: the words *)
Theorem digest_flatten keep subs pn (Hn : neutral keep subs) : forall ts forest s',
  parse_doc subs pn ts = Done (forest, s') ->
  Forall (fun e => words keep (flatten (snd e)) = []) (s_log s') ->
  words keep (flatten_forest forest) = words keep (flatten_forest ts).
Proof.
  intros ts forest s' H Hlog. rewrite <- !reading_forest_words.
  apply (digest_reading (fun _ => false) keep (fun _ _ => eq_refl) subs pn Hn ts forest s' H).
  eapply Forall_impl; [|exact Hlog]. intros e He. rewrite reading_words. exact He.
Qed.

(* ================================================================================================ *)
(* M2: sectioning nodes contain paragraphs and strictly deeper sectioning nodes; no paragraph in a paragraph *)
(* ================================================================================================ *)

Definition wf (t : tree) : Prop := wf_sections_b t = true.

Lemma forallb_Forall {A} (f : A -> bool) l : forallb f l = true <-> Forall (fun x => f x = true) l.
Proof. rewrite forallb_forall, Forall_forall. reflexivity. Qed.

Lemma wf_node h ch :
  wf (Node h ch) <->
  ((is_section_level (h_level h) = true -> forallb (section_child_ok (h_level h)) ch = true) /\
   (h_level h = PAR_LEVEL -> forallb (fun c => negb (is_par c)) ch = true) /\
   Forall wf ch).
Proof.
  unfold wf. cbn [wf_sections_b]. rewrite !andb_true_iff, forallb_Forall.
  destruct (is_section_level (h_level h)); destruct (h_level h =? PAR_LEVEL) eqn:E;
    [apply Z.eqb_eq in E|apply Z.eqb_neq in E|apply Z.eqb_eq in E|apply Z.eqb_neq in E]; split; intros H.
  all: repeat match goal with H : _ /\ _ |- _ => destruct H end.
  all: repeat split; auto; try (intros; congruence).
Qed.

Lemma wf_text h s : wf (Text h s).
Proof. reflexivity. Qed.

(* ---- normalize does not change levels, hence not well-formedness --------------------------------- *)

Lemma normalize_level subs t : level (normalize subs t) = level t.
Proof. destruct t; reflexivity. Qed.

Lemma flush_forallb (P : tree -> bool) (pt : bool) subs pend :
  (forall h s, P (Text h s) = pt) ->
  forallb P (flush subs pend) = match pend with Some _ => pt | None => true end.
Proof.
  intro HT. destruct pend as [v|]; [|reflexivity]. unfold flush, mk_text. cbn [forallb]. rewrite HT. apply andb_true_r.
Qed.

Lemma norm_go_forallb (P : tree -> bool) (pt : bool) subs norm l :
  (forall h s, P (Text h s) = pt) ->
  Forall (fun c => P (norm c) = P c) l ->
  forall pend, forallb P (norm_go subs norm l pend) =
               (match pend with Some _ => pt | None => true end) && forallb P l.
Proof.
  intros HT HF. induction HF as [|c l Hc _ IH]; intro pend.
  - rewrite norm_go_nil, (flush_forallb P pt) by exact HT. cbn [forallb]. rewrite andb_true_r. reflexivity.
  - destruct c as [h s|h ch].
    + rewrite norm_go_text, IH. cbn [forallb]. rewrite (HT h s). destruct pend; cbn [pend_app]; [|reflexivity].
      destruct pt; reflexivity.
    + rewrite norm_go_node, forallb_app, (flush_forallb P pt) by exact HT. cbn [forallb]. rewrite Hc, IH. cbn.
      reflexivity.
Qed.

Lemma normalize_wf : forall t subs, wf_sections_b (normalize subs t) = wf_sections_b t.
Proof.
  induction t as [h s|h ch IH] using tree_ind2; intro subs; [reflexivity|].
  rewrite normalize_node. cbn [wf_sections_b].
  set (subs' := if h_nosub h then [] else subs).
  assert (Hlev : forall l, Forall (fun c => section_child_ok l (normalize subs' c) = section_child_ok l c) ch).
  { intro l. apply Forall_forall. intros c _. unfold section_child_ok, is_par. rewrite normalize_level. reflexivity. }
  assert (Hpar : Forall (fun c => negb (is_par (normalize subs' c)) = negb (is_par c)) ch).
  { apply Forall_forall. intros c _. unfold is_par. rewrite normalize_level. reflexivity. }
  assert (Hwf : Forall (fun c => wf_sections_b (normalize subs' c) = wf_sections_b c) ch).
  { eapply Forall_impl; [|exact IH]. intros c Hc. apply Hc. }
  rewrite (norm_go_forallb (section_child_ok (h_level h)) false) by (auto; reflexivity).
  rewrite (norm_go_forallb (fun c => negb (is_par c)) true) by (auto; reflexivity).
  rewrite (norm_go_forallb wf_sections_b true) by (auto; reflexivity).
  reflexivity.
Qed.

(* ---- Macro.paragraphs ---------------------------------------------------------------------------- *)

Definition parnode (t : tree) : Prop := is_node t /\ level t = PAR_LEVEL /\ wf t.

Lemma wf_par_head pn b ch :
  Forall wf ch -> Forall (fun c => PAR_LEVEL < level c) ch -> wf (Node (par_head pn b) ch).
Proof.
  intros Hw Hl. apply wf_node. repeat split; [intro H; discriminate H| |exact Hw].
  intros _. apply forallb_Forall. eapply Forall_impl; [|exact Hl].
  intros c Hc. cbv beta in Hc. unfold is_par. destruct (level c =? PAR_LEVEL) eqn:E; [apply Z.eqb_eq in E; lia|reflexivity].
Qed.

Lemma parnode_add p c : parnode p -> wf c -> PAR_LEVEL < level c -> parnode (add_child p c).
Proof.
  intros (Hn & Hl & Hw) Hc Hlc. destruct p as [h s|h ch]; [contradiction|]. simpl in *.
  repeat split; [exact Hl|].
  apply wf_node in Hw. destruct Hw as (Ha & Hb & Hch). apply wf_node. repeat split.
  - intro Hs. exfalso. unfold is_section_level in Hs. rewrite Hl in Hs. vm_compute in Hs. discriminate Hs.
  - intros _. rewrite forallb_app, (Hb Hl). simpl. unfold is_par.
    destruct (level c =? PAR_LEVEL) eqn:E; [apply Z.eqb_eq in E; lia|reflexivity].
  - apply Forall_app. split; [exact Hch|constructor; [exact Hc|constructor]].
Qed.

(* the children from the first one of level < PAR_LEVEL on *)
Fixpoint sfl (ch : list tree) : list tree :=
  match ch with
  | [] => []
  | c :: r => if level c <? PAR_LEVEL then c :: r else sfl r
  end.

Definition par_or_old (ch : list tree) (t : tree) : Prop := level t = PAR_LEVEL \/ In t (sfl ch).

Lemma group_wf pn : forall ch acc nn rem,
  acc <> [] -> Forall parnode acc -> Forall wf ch -> group pn ch acc = (nn, rem) ->
  Forall wf nn /\ Forall wf rem /\ Forall (par_or_old ch) (nn ++ rem).
Proof.
  induction ch as [|item ch IH]; intros acc nn rem Hne Hacc Hch H; simpl in H.
  - inversion H; subst. rewrite app_nil_r.
    assert (Hr : Forall parnode (rev acc)) by (apply Forall_rev; exact Hacc).
    split; [|split; [constructor|]]; (eapply Forall_impl; [|exact Hr]); intros t Ht; [apply Ht|left; apply Ht].
  - inversion Hch as [|? ? Hi Hch']; subst.
    destruct (level item =? PAR_LEVEL) eqn:E1.
    { apply Z.eqb_eq in E1.
      assert (E2 : (level item <? PAR_LEVEL) = false) by (apply Z.ltb_ge; lia).
      apply IH in H; [|discriminate|constructor; [|exact Hacc]|exact Hch'].
      - unfold par_or_old in *. cbn [sfl]. rewrite E2. exact H.
      - split; [|split; [exact E1|exact Hi]]. destruct item; [simpl in E1; discriminate E1|exact I]. }
    destruct (level item <? PAR_LEVEL) eqn:E2.
    { inversion H; subst.
      assert (Hr : Forall parnode (rev acc)) by (apply Forall_rev; exact Hacc).
      split; [|split; [exact Hch'|]].
      - cbn [rev]. apply Forall_app. split; [|constructor; [exact Hi|constructor]].
        eapply Forall_impl; [|exact Hr]. intros t Ht. apply Ht.
      - unfold par_or_old. cbn [sfl rev]. rewrite E2. rewrite <- app_assoc. apply Forall_app. split.
        + eapply Forall_impl; [|exact Hr]. intros t Ht. left. apply Ht.
        + apply Forall_forall. intros t Ht. right. exact Ht. }
    apply Z.eqb_neq in E1. pose proof E2 as E2'. apply Z.ltb_ge in E2.
    assert (Hgt : PAR_LEVEL < level item) by lia.
    assert (Hsfl : forall t, par_or_old ch t -> par_or_old (item :: ch) t).
    { intros t Ht. unfold par_or_old in *. cbn [sfl]. rewrite E2'. exact Ht. }
    assert (Hfin : forall acc', acc' <> [] -> Forall parnode acc' -> group pn ch acc' = (nn, rem) ->
                   Forall wf nn /\ Forall wf rem /\ Forall (par_or_old (item :: ch)) (nn ++ rem)).
    { intros acc' Hne' Hacc' H'. apply IH in H'; [|exact Hne'|exact Hacc'|exact Hch'].
      destruct H' as (H1 & H2 & H3). split; [exact H1|split; [exact H2|]].
      eapply Forall_impl; [|exact H3]. exact Hsfl. }
    destruct (is_block item).
    { apply Hfin in H; [exact H|discriminate|].
      constructor; [|constructor; [|exact Hacc]].
      - split; [exact I|split; [reflexivity|apply wf_par_head; constructor]].
      - split; [exact I|split; [reflexivity|apply wf_par_head; repeat constructor; assumption]]. }
    destruct acc as [|last acc']; [contradiction Hne; reflexivity|].
    inversion Hacc as [|? ? Hl Hacc'']; subst.
    apply Hfin in H; [exact H|discriminate|].
    constructor; [apply parnode_add; assumption|exact Hacc''].
Qed.

Lemma filter_Forall {A} (P : A -> Prop) f l : Forall P l -> Forall P (filter f l).
Proof. induction 1; simpl; [constructor|]. destruct (f x); [constructor|]; assumption. Qed.

Lemma map_norm_wf cs l : Forall wf l -> Forall wf (map (fun t => if level t =? PAR_LEVEL then normalize cs t else t) l).
Proof.
  induction 1 as [|t l Ht _ IH]; simpl; constructor; [|exact IH].
  destruct (level t =? PAR_LEVEL); [|exact Ht]. unfold wf. rewrite normalize_wf. exact Ht.
Qed.

Lemma map_norm_old cs ch l :
  Forall (par_or_old ch) l -> Forall (par_or_old ch) (map (fun t => if level t =? PAR_LEVEL then normalize cs t else t) l).
Proof.
  induction 1 as [|t l Ht _ IH]; simpl; constructor; [|exact IH].
  destruct (level t =? PAR_LEVEL) eqn:E; [|exact Ht]. left. rewrite normalize_level. apply Z.eqb_eq. exact E.
Qed.

Lemma norm_go_wf subs l : Forall wf l -> forall pend, Forall wf (norm_go subs (normalize subs) l pend).
Proof.
  induction 1 as [|c l Hc _ IH]; intro pend.
  - rewrite norm_go_nil. destruct pend; simpl; repeat constructor.
  - destruct c as [h s|h ch].
    + rewrite norm_go_text. apply IH.
    + rewrite norm_go_node. apply Forall_app. split; [destruct pend; simpl; repeat constructor|].
      constructor; [unfold wf; rewrite normalize_wf; exact Hc|apply IH].
Qed.

Lemma paragraphs_wf subs pn mm force h ch kept dr :
  Forall wf ch -> paragraphs subs pn mm force h ch = (kept, dr) ->
  Forall wf kept /\ (force = true -> Forall (par_or_old ch) kept).
Proof.
  intros Hch H. unfold paragraphs in H.
  set (cs := if mm then [] else subs) in *.
  assert (Hgen : forall pname,
    (let '(newnodes, remaining) := group pname ch [Node (par_head pname false) []] in
     let newnodes' := map (fun t => if level t =? PAR_LEVEL then normalize cs t else t) newnodes in
     let all := newnodes' ++ remaining in
     (filter (fun t => negb (drop_par t)) all, filter drop_par all)) = (kept, dr) ->
    Forall wf kept /\ Forall (par_or_old ch) kept).
  { intros pname Hg. destruct (group pname ch [Node (par_head pname false) []]) as [nn rem] eqn:Eg.
    inversion Hg; subst. clear Hg.
    apply group_wf in Eg; [|discriminate| |exact Hch].
    2:{ constructor; [|constructor]. split; [exact I|split; [reflexivity|apply wf_par_head; constructor]]. }
    destruct Eg as (Hnn & Hrem & Hold). apply Forall_app in Hold. destruct Hold as [Ho1 Ho2].
    split; apply filter_Forall; apply Forall_app; split;
      [apply map_norm_wf; exact Hnn|exact Hrem|apply map_norm_old; exact Ho1|exact Ho2]. }
  destruct (find_parname ch) as [n|]; [destruct (Hgen n H) as [H1 H2]; split; [exact H1|intros _; exact H2]|].
  destruct force; [destruct (Hgen pn H) as [H1 H2]; split; [exact H1|intros _; exact H2]|].
  rewrite normalize_node in H. cbn [children] in H. inversion H; subst.
  split; [apply norm_go_wf; exact Hch|intro Hf; discriminate Hf].
Qed.

(* ---- the stream invariant ------------------------------------------------------------------------- *)

Definition leafkind (k : kind) : Prop := k = KLeaf \/ k = KText.

(* what every item on the stream satisfies (items as the expander yields them: see [item_ok_b]; digested nodes that
   were pushed back: established below) *)
Definition sok (t : tree) : Prop :=
  wf t /\
  match t with
  | Text _ _ => True
  | Node h ch =>
      (h_level h = PAR_LEVEL -> leafkind (h_kind h) /\ ch = []) /\
      (low (h_level h) = true -> h_kind h = KSec /\ h_level h < ENDSECTIONS_LEVEL /\ ch = [])
  end.

Definition stream (s : st) : list tree := s_buf s ++ s_rest s.
Definition Sok (s : st) : Prop := Forall sok (stream s).
Definition noev (s : st) : Prop := s_ev s = [].
Definition evext (s s' : st) : Prop := exists l, s_ev s' = l ++ s_ev s.
Definition peek_le (s : st) (l : Z) : Prop := match stream s with [] => True | t :: _ => level t <= l end.
Definition peek_lt (s : st) : Prop := match stream s with [] => True | t :: _ => level t < PAR_LEVEL end.

Lemma evext_refl s : evext s s.
Proof. exists []. reflexivity. Qed.
Lemma evext_trans a b c : evext a b -> evext b c -> evext a c.
Proof. intros [l1 H1] [l2 H2]. exists (l2 ++ l1). rewrite H2, H1, app_assoc. reflexivity. Qed.
Lemma noev_ext s s' : evext s s' -> noev s' -> noev s.
Proof. intros [l H] Hn. unfold noev in *. rewrite H in Hn. apply app_eq_nil in Hn. apply Hn. Qed.

Lemma next_stream s t s1 : next s = Some (t, s1) -> stream s = t :: stream s1 /\ s_ev s1 = s_ev s.
Proof.
  unfold next, stream. destruct s as [b r m l ev]; simpl.
  destruct b; [destruct r|]; intro H; inversion H; subst; simpl; split; reflexivity.
Qed.
Lemma next_none_stream s : next s = None -> stream s = [].
Proof.
  unfold next, stream. destruct s as [b r m l ev]; simpl.
  destruct b; [destruct r|]; intro H; try discriminate; reflexivity.
Qed.
Lemma push_stream t s : stream (push t s) = t :: stream s.
Proof. reflexivity. Qed.
Lemma logd_stream k t s : stream (logd k t s) = stream s.
Proof. reflexivity. Qed.
Lemma logds_stream k ts s : stream (logds k ts s) = stream s.
Proof. unfold logds. revert s. induction ts as [|t ts IH]; intro s; simpl; [reflexivity|]. rewrite IH. reflexivity. Qed.
Lemma logds_ev k ts s : s_ev (logds k ts s) = s_ev s.
Proof. unfold logds. revert s. induction ts as [|t ts IH]; intro s; simpl; [reflexivity|]. rewrite IH. reflexivity. Qed.
Lemma ev_if_stream b k t s : stream (ev_if b k t s) = stream s.
Proof. destruct b; reflexivity. Qed.
Lemma ev_if_evext b k t s : evext s (ev_if b k t s).
Proof. destruct b; [exists [(k, t)]; reflexivity|apply evext_refl]. Qed.
Lemma noev_ev_if b k t s : noev (ev_if b k t s) -> b = false.
Proof. destruct b; [intro H; discriminate H|reflexivity]. Qed.

Lemma do_paragraphs_stream subs pn force h ch s : stream (snd (do_paragraphs subs pn force h ch s)) = stream s.
Proof. unfold do_paragraphs. destruct (paragraphs subs pn (s_mm s) force h ch). simpl. apply logds_stream. Qed.
Lemma do_paragraphs_ev subs pn force h ch s : s_ev (snd (do_paragraphs subs pn force h ch s)) = s_ev s.
Proof. unfold do_paragraphs. destruct (paragraphs subs pn (s_mm s) force h ch). simpl. apply logds_ev. Qed.

Definition same_head (n t' : tree) : Prop :=
  match n with
  | Text _ _ => t' = n
  | Node h _ => (exists ch', t' = Node h ch') /\ (leafkind (h_kind h) -> t' = n)
  end.

Lemma same_head_refl n : same_head n n.
Proof. destruct n as [h s|h ch]; simpl; [reflexivity|]. split; [exists ch; reflexivity|auto]. Qed.

Lemma same_head_level n t' : same_head n t' -> level t' = level n /\ depth t' = depth n.
Proof.
  destruct n as [h s|h ch]; simpl; [intros ->; auto|]. intros [[ch' ->] _]. auto.
Qed.

Lemma sok_wf t : sok t -> wf t.
Proof. intros [H _]. exact H. Qed.

Lemma sok_after n t' : sok n -> wf t' -> same_head n t' -> low (level t') = false -> sok t'.
Proof.
  intros [Hw Hn] Hw' Hs Hl. destruct n as [h s|h ch]; simpl in Hs; [subst; split; [exact Hw|exact I]|].
  destruct Hs as [[ch' ->] Hleaf]. split; [exact Hw'|]. simpl in Hl. destruct Hn as [Hp Hlow]. split.
  - intro E. destruct (Hp E) as [Hk Hc]. specialize (Hleaf Hk). inversion Hleaf; subst. auto.
  - intro E. rewrite E in Hl. discriminate Hl.
Qed.

Lemma wf_children h ch : wf (Node h ch) -> Forall wf ch.
Proof. intro H. apply wf_node in H. apply H. Qed.

(* a digested node of a kind other than section / leaf is well-formed as soon as its children are *)
Lemma wf_nonsec h ch0 ch : sok (Node h ch0) -> h_kind h <> KSec -> ~ leafkind (h_kind h) -> Forall wf ch -> wf (Node h ch).
Proof.
  intros [_ [Hp Hl]] Hk Hnl Hch. apply wf_node. repeat split; [| |exact Hch].
  - intro Hs. exfalso. apply Hk. apply Hl. unfold is_section_level in Hs. unfold low.
    apply andb_true_iff in Hs. destruct Hs as [H1 H2]. rewrite H1. simpl.
    apply Z.ltb_lt in H2. apply Z.ltb_lt. unfold ENDSECTIONS_LEVEL, PAR_LEVEL in *. lia.
  - intro E. exfalso. apply Hnl. apply Hp. exact E.
Qed.

Lemma In_sfl c ch : In c (sfl ch) -> In c ch.
Proof.
  induction ch as [|x ch IH]; simpl; [auto|]. destruct (level x <? PAR_LEVEL); [auto|]. intro H. right. apply IH. exact H.
Qed.

Lemma sfl_snoc ch t :
  sfl (ch ++ [t]) = match sfl ch with [] => if level t <? PAR_LEVEL then [t] else [] | _ => sfl ch ++ [t] end.
Proof.
  induction ch as [|x ch IH]; simpl; [reflexivity|].
  destruct (level x <? PAR_LEVEL); [reflexivity|exact IH].
Qed.

(* the invariant of SectionUtils.digest's loop, for a sectioning level l *)
Definition SecI (l : Z) (ch : list tree) (s : st) : Prop :=
  low l = true ->
  Forall (fun c => l < level c) ch /\
  Forall (fun c => level c < ENDSECTIONS_LEVEL) (sfl ch) /\
  (sfl ch <> [] -> peek_lt s).

Lemma drop_border_rows_wf : forall rows k d, drop_border_rows rows = Some (k, d) -> Forall wf rows -> Forall wf k.
Proof.
  unfold drop_border_rows.
  induction rows as [|r rows IH]; intros k d H Hw; simpl in H.
  - inversion H; subst. constructor.
  - fold drop_border_rows in *. inversion Hw as [|? ? Hr Hw']; subst. destruct (is_row r).
    + destruct (border_cells (children r)) as [[|]|]; try discriminate;
        destruct (drop_border_rows rows) as [[k' d']|] eqn:E; try discriminate; inversion H; subst.
      * eapply IH; [reflexivity|exact Hw'].
      * constructor; [exact Hr|]. eapply IH; [reflexivity|exact Hw'].
    + destruct (drop_border_rows rows) as [[k' d']|] eqn:E; try discriminate; inversion H; subst.
      constructor; [exact Hr|]. eapply IH; [reflexivity|exact Hw'].
Qed.

Definition P2 {A} (pre : Prop) (s : st) (o : outcome A) (st_of : A -> st) (Q : A -> Prop) : Prop :=
  match o with Done a => evext s (st_of a) /\ (noev (st_of a) -> pre -> Sok (st_of a) /\ Q a) | _ => True end.

Lemma skip_loop_wf : forall f setc s,
  match skip_loop f setc s with Done s' => s_ev s' = s_ev s /\ (Sok s -> Sok s') | _ => True end.
Proof.
  induction f as [|f IH]; intros setc s; simpl; [exact I|].
  destruct (next s) as [[t s1]|] eqn:Hn; [|split; [reflexivity|auto]].
  destruct (next_stream _ _ _ Hn) as [Hst Hev].
  assert (Hcut : Sok s -> sok t /\ Sok s1).
  { intro HS. unfold Sok in HS. rewrite Hst in HS. inversion HS; subst. auto. }
  destruct (is_ws t).
  - specialize (IH setc (logd R_WS t s1)). destruct (skip_loop f setc (logd R_WS t s1)); auto.
    destruct IH as [E1 E2]. split; [rewrite E1; exact Hev|]. intro HS. apply E2. apply Hcut. exact HS.
  - destruct (setc && _).
    + specialize (IH setc (logd R_SETCOUNTER t s1)). destruct (skip_loop f setc (logd R_SETCOUNTER t s1)); auto.
      destruct IH as [E1 E2]. split; [rewrite E1; exact Hev|]. intro HS. apply E2. apply Hcut. exact HS.
    + split; [exact Hev|]. intro HS. destruct (Hcut HS). unfold Sok. rewrite push_stream. constructor; assumption.
Qed.

Lemma verb_loop_wf : forall f e ch s,
  match verb_loop f e ch s with
  | Done (ch', s') => s_ev s' = s_ev s /\ (Sok s -> Forall wf ch -> Sok s' /\ Forall wf ch')
  | _ => True end.
Proof.
  induction f as [|f IH]; intros e ch s; simpl; [exact I|].
  destruct (next s) as [[t s1]|] eqn:Hn; [|auto].
  destruct (next_stream _ _ _ Hn) as [Hst Hev].
  assert (Hcut : Sok s -> sok t /\ Sok s1).
  { intro HS. unfold Sok in HS. rewrite Hst in HS. inversion HS; subst. auto. }
  destruct (tok_eq t e).
  - split; [exact Hev|]. intros HS Hch. split; [apply Hcut; exact HS|exact Hch].
  - specialize (IH e (ch ++ [t]) s1). destruct (verb_loop f e (ch ++ [t]) s1) as [[ch' s2]| |]; auto.
    destruct IH as (E1 & E2). split; [rewrite E1; exact Hev|]. intros HS Hch. destruct (Hcut HS) as [Ht HS1].
    apply E2; [exact HS1|]. apply Forall_app. split; [exact Hch|constructor; [apply sok_wf; exact Ht|constructor]].
Qed.

Lemma Sok_eq s s' : stream s' = stream s -> Sok s -> Sok s'.
Proof. unfold Sok. intros ->. auto. Qed.

Lemma do_paragraphs_fst subs pn force h ch s : exists ch', fst (do_paragraphs subs pn force h ch s) = Node h ch'.
Proof. unfold do_paragraphs. destruct (paragraphs subs pn (s_mm s) force h ch) as [k d]. exists k. reflexivity. Qed.

Lemma Sok_next s t s1 : next s = Some (t, s1) -> Sok s -> sok t /\ Sok s1.
Proof.
  intros Hn HS. destruct (next_stream _ _ _ Hn) as [Hst _]. unfold Sok in HS. rewrite Hst in HS. inversion HS; subst. auto.
Qed.

Lemma evext_next s t s1 : next s = Some (t, s1) -> evext s s1.
Proof. intro Hn. destruct (next_stream _ _ _ Hn) as [_ Hev]. exists []. exact Hev. Qed.

Lemma Sok_push t s : sok t -> Sok s -> Sok (push t s).
Proof. intros Ht HS. unfold Sok. rewrite push_stream. constructor; assumption. Qed.

Lemma evext_logd k t s : evext s (logd k t s).
Proof. exists []. reflexivity. Qed.
Lemma evext_push t s : evext s (push t s).
Proof. exists []. reflexivity. Qed.

Section Sections.
  Context (subs : list (list Z * list Z)) (pn : Z).

  (* after paragraphs(), a digested node is well-formed *)
  Lemma paragraphs_node_wf force h ch0 ch s :
    sok (Node h ch0) -> ~ leafkind (h_kind h) -> Forall wf ch ->
    (h_kind h = KSec -> force = true /\ SecI (h_level h) ch s) ->
    wf (fst (do_paragraphs subs pn force h ch s)).
  Proof.
    intros Hsok Hnl Hch Hsec. unfold do_paragraphs.
    destruct (paragraphs subs pn (s_mm s) force h ch) as [kept dr] eqn:E. simpl.
    destruct (paragraphs_wf _ _ _ _ _ _ _ _ Hch E) as [Hk Hold].
    destruct Hsok as [_ [Hp Hl]].
    apply wf_node. repeat split; [| |exact Hk].
    - intro Hs.
      assert (Hlow : low (h_level h) = true).
      { unfold is_section_level in Hs. unfold low. apply andb_true_iff in Hs. destruct Hs as [H1 H2]. rewrite H1. simpl.
        apply Z.ltb_lt in H2. apply Z.ltb_lt. unfold ENDSECTIONS_LEVEL, PAR_LEVEL in *. lia. }
      destruct (Hl Hlow) as (Hkind & _ & _). destruct (Hsec Hkind) as [Hf HI]. destruct (HI Hlow) as (Hlev & Hend & _).
      specialize (Hold Hf). apply forallb_Forall. eapply Forall_impl; [|exact Hold].
      intros c [Hc|Hc]; unfold section_child_ok, is_par.
      + rewrite Hc. reflexivity.
      + apply orb_true_iff. right.
        assert (H1 : level c < ENDSECTIONS_LEVEL) by (rewrite Forall_forall in Hend; apply Hend; exact Hc).
        assert (H2 : h_level h < level c) by (rewrite Forall_forall in Hlev; apply Hlev; apply In_sfl; exact Hc).
        unfold low in Hlow. apply andb_true_iff in Hlow. destruct Hlow as [H3 _]. apply Z.ltb_lt in H3.
        unfold is_section_level. apply andb_true_iff. split; [apply andb_true_iff; split|]; apply Z.ltb_lt; lia.
    - intro Epar. exfalso. apply Hnl. apply Hp. exact Epar.
  Qed.

  Definition Qd (n : tree) (a : tree * st) : Prop :=
    wf (fst a) /\ same_head n (fst a) /\
    match n with Node h _ => h_kind h = KSec -> peek_le (snd a) (h_level h) | Text _ _ => True end.

  Definition wf_stmt (f : nat) : Prop :=
    (forall n s, P2 (Sok s /\ sok n) s (digest subs pn f n s) snd (Qd n)) /\
    (forall h ch0 ch s, P2 (Sok s /\ sok (Node h ch0) /\ Forall wf ch /\ h_kind h <> KSec /\ ~ leafkind (h_kind h)) s
                           (digest_env subs pn f h ch s) snd
                           (fun a => wf (fst a) /\ (exists ch', fst a = Node h ch'))) /\
    (forall h ch dp s, P2 (Sok s /\ Forall wf ch) s (env_loop subs pn f h ch dp s) snd (fun a => Forall wf (fst (fst a)))) /\
    (forall h ch s, P2 (Sok s /\ Forall wf ch /\ SecI (h_level h) ch s) s (sec_loop subs pn f h ch s) snd
                       (fun a => Forall wf (fst a) /\ SecI (h_level h) (fst a) (snd a) /\ peek_le (snd a) (h_level h))) /\
    (forall h ch s, P2 (Sok s /\ Forall wf ch) s (bg_loop subs pn f h ch s) snd (fun a => Forall wf (fst a))) /\
    (forall sel h ch s, P2 (Sok s /\ Forall wf ch) s (until_loop subs pn f sel h ch s) snd (fun a => Forall wf (fst (fst a)))).

  Ltac nested IHD t s1 :=
    let H := fresh "Hd" in
    let t' := fresh "t'" in let s2 := fresh "s2" in let k := fresh "k" in
    pose proof (IHD t s1) as H;
    destruct (digest subs pn _ t s1) as [[t' s2]| |k]; [|exact I|exact I]; unfold P2 in H; simpl in H.

  Ltac nestedn IHD t s1 t' s2 :=
    pose proof (IHD t s1) as Hd;
    destruct (digest subs pn _ t s1) as [[t' s2]| |]; [|exact I|exact I]; unfold P2 in Hd; simpl in Hd.

  Lemma env_pre s h ch : Sok s -> sok (Node h ch) -> h_kind h <> KSec -> ~ leafkind (h_kind h) ->
    Sok s /\ sok (Node h ch) /\ Forall wf ch /\ h_kind h <> KSec /\ ~ leafkind (h_kind h).
  Proof.
    intros HS Hn H1 H2. split; [exact HS|split; [exact Hn|split; [|split; assumption]]].
    apply wf_children with h. apply sok_wf. exact Hn.
  Qed.

  Lemma wf_all : forall f, wf_stmt f.
  Proof.
    induction f as [|f IH].
    { repeat split; intros; exact I. }
    destruct IH as (IHD & IHE & IHL & IHS & IHB & IHU).
    unfold wf_stmt. repeat split.
    - (* digest *)
      intros n s. simpl. destruct n as [h0 s0|h ch].
      { split; [apply evext_refl|]. intros _ [HS Hn]. split; [exact HS|]. repeat split. }
      destruct (h_kind h) eqn:Ek.
      + (* KText *) split; [apply evext_refl|]. intros _ [HS Hn]. split; [exact HS|].
        split; [apply sok_wf; exact Hn|split; [apply same_head_refl|intro X; congruence]].
      + (* KLeaf *) split; [apply evext_refl|]. intros _ [HS Hn]. split; [exact HS|].
        split; [apply sok_wf; exact Hn|split; [apply same_head_refl|intro X; congruence]].
      + (* KEnv *)
        pose proof (IHE h ch ch s) as H. destruct (digest_env subs pn f h ch s) as [[t1 s1]| |k]; [|exact I|exact I].
        destruct H as [E H]. split; [exact E|]. intros Hne [HS Hn].
        destruct H as [HS1 [Hw [ch' Hc]]]; [exact Hne| |].
        { apply env_pre; [exact HS|exact Hn|rewrite Ek; discriminate|rewrite Ek; intros [X|X]; discriminate X]. }
        simpl in *. subst t1. split; [exact HS1|]. split; [exact Hw|]. split; [|intro X; congruence].
        split; [exists ch'; reflexivity|rewrite Ek; intros [X|X]; discriminate X].
      + (* KSec *)
        pose proof (IHS h ch s) as H. destruct (sec_loop subs pn f h ch s) as [[ch' s1]| |k]; [|exact I|exact I].
        destruct H as [E H]. simpl in E, H. unfold P2. simpl.
        split; [destruct E as [l E]; exists l; rewrite do_paragraphs_ev; exact E|].
        intros Hne [HS Hn]. unfold noev in Hne. rewrite do_paragraphs_ev in Hne.
        destruct H as [HS1 (Hch' & HI & Hpk)]; [exact Hne| |].
        { split; [exact HS|]. split; [apply (wf_children h); apply sok_wf; exact Hn|].
          intro Hlow. destruct Hn as [_ [_ Hl]]. destruct (Hl Hlow) as (_ & _ & ->).
          split; [constructor|split; [constructor|intro X; contradiction X; reflexivity]]. }
        split; [eapply Sok_eq; [apply do_paragraphs_stream|exact HS1]|].
        split; [|split].
        * eapply paragraphs_node_wf; [exact Hn|rewrite Ek; intros [X|X]; discriminate X|exact Hch'|].
          intros _. split; [reflexivity|exact HI].
        * destruct (do_paragraphs_fst subs pn true h ch' s1) as [ch'' Hc]. rewrite Hc.
          split; [exists ch''; reflexivity|rewrite Ek; intros [X|X]; discriminate X].
        * intros _. unfold peek_le in *. rewrite do_paragraphs_stream. exact Hpk.
      + (* KBgroup *)
        pose proof (IHB h ch s) as H. destruct (bg_loop subs pn f h ch s) as [[ch' s1]| |k]; [|exact I|exact I].
        destruct H as [E H]. simpl in E, H. unfold P2. simpl.
        split; [destruct E as [l E]; exists l; rewrite do_paragraphs_ev; exact E|].
        intros Hne [HS Hn]. unfold noev in Hne. rewrite do_paragraphs_ev in Hne.
        destruct H as [HS1 Hch']; [exact Hne| |].
        { split; [exact HS|apply (wf_children h); apply sok_wf; exact Hn]. }
        split; [eapply Sok_eq; [apply do_paragraphs_stream|exact HS1]|].
        split; [|split].
        * eapply paragraphs_node_wf; [exact Hn|rewrite Ek; intros [X|X]; discriminate X|exact Hch'|].
          rewrite Ek. intro X; congruence.
        * destruct (do_paragraphs_fst subs pn false h ch' s1) as [ch'' Hc]. rewrite Hc.
          split; [exists ch''; reflexivity|rewrite Ek; intros [X|X]; discriminate X].
        * intro X; congruence.
      + (* KList *)
        assert (Hfin : forall s0, evext s s0 -> (Sok s -> Sok s0) ->
                 P2 (Sok s /\ sok (Node h ch)) s (digest_env subs pn f h ch s0) snd (Qd (Node h ch))).
        { intros s0 E0 HS0. pose proof (IHE h ch ch s0) as H.
          destruct (digest_env subs pn f h ch s0) as [[t1 s1]| |k]; [|exact I|exact I].
          destruct H as [E H]. split; [eapply evext_trans; eassumption|]. intros Hne [HS Hn].
          destruct H as [HS1 [Hw [ch' Hc]]]; [exact Hne| |].
          { apply env_pre; [apply HS0; exact HS|exact Hn|rewrite Ek; discriminate|rewrite Ek; intros [X|X]; discriminate X]. }
          simpl in *. subst t1. split; [exact HS1|]. split; [exact Hw|]. split; [|intro X; congruence].
          split; [exists ch'; reflexivity|rewrite Ek; intros [X|X]; discriminate X]. }
        destruct (h_mode h =? 2); [apply Hfin; [apply evext_refl|auto]|].
        pose proof (skip_loop_wf f true s) as Hk. destruct (skip_loop f true s) as [s0| |k]; [|exact I|exact I].
        destruct Hk as [Ev Hk]. apply Hfin; [exists []; exact Ev|exact Hk].
      + (* KItem *)
        pose proof (skip_loop_wf f false s) as Hk. destruct (skip_loop f false s) as [s0| |k]; [|exact I|exact I].
        destruct Hk as [Ev Hk].
        pose proof (IHU UItem h ch s0) as H.
        destruct (until_loop subs pn f UItem h ch s0) as [[[ch' e] s1]| |k]; [|exact I|exact I].
        destruct H as [E H]. simpl in E, H.
        assert (E0 : evext s s1) by (eapply evext_trans; [exists []; exact Ev|exact E]).
        destruct (h_force h); unfold P2; simpl.
        * split; [destruct E0 as [l E0]; exists l; rewrite do_paragraphs_ev; exact E0|].
          intros Hne [HS Hn]. unfold noev in Hne. rewrite do_paragraphs_ev in Hne.
          destruct H as [HS1 Hch']; [exact Hne| |].
          { split; [apply Hk; exact HS|apply (wf_children h); apply sok_wf; exact Hn]. }
          split; [eapply Sok_eq; [apply do_paragraphs_stream|exact HS1]|].
          split; [|split].
          -- eapply paragraphs_node_wf; [exact Hn|rewrite Ek; intros [X|X]; discriminate X|exact Hch'|].
             rewrite Ek. intro X; congruence.
          -- destruct (do_paragraphs_fst subs pn true h ch' s1) as [ch'' Hc]. rewrite Hc.
             split; [exists ch''; reflexivity|rewrite Ek; intros [X|X]; discriminate X].
          -- intro X; congruence.
        * split; [exact E0|]. intros Hne [HS Hn].
          destruct H as [HS1 Hch']; [exact Hne| |].
          { split; [apply Hk; exact HS|apply (wf_children h); apply sok_wf; exact Hn]. }
          split; [exact HS1|]. split; [|split].
          -- eapply wf_nonsec; [exact Hn|rewrite Ek; discriminate|rewrite Ek; intros [X|X]; discriminate X|exact Hch'].
          -- split; [exists ch'; reflexivity|rewrite Ek; intros [X|X]; discriminate X].
          -- intro X; congruence.
      + (* KRow *)
        pose proof (IHU URow h ch s) as H.
        destruct (until_loop subs pn f URow h ch s) as [[[ch' e] s1]| |k]; [|exact I|exact I].
        destruct H as [E H]. simpl in E, H.
        assert (Hnode : forall s9, stream s9 = stream s9 -> forall (HS9 : noev s1 -> Sok s /\ sok (Node h ch) -> Sok s1 /\ Forall wf ch'),
                  True) by auto.
        clear Hnode.
        destruct e as [e|].
        * destruct (next s1) as [[x s2]|] eqn:Hn2; [|exact I].
          nestedn IHD x s2 x' s3. destruct Hd as [E2 Hd]. unfold P2; simpl.
          assert (E02 : evext s s3).
          { eapply evext_trans; [exact E|]. eapply evext_trans; [eapply evext_next; exact Hn2|exact E2]. }
          split; [destruct E02 as [l E02]; exists l; exact E02|].
          intros Hne [HS Hn]. change (noev s3) in Hne.
          assert (Hne2 : noev s2) by (eapply noev_ext; eassumption).
          assert (Hne1 : noev s1) by (eapply noev_ext; [eapply evext_next; exact Hn2|exact Hne2]).
          destruct H as [HS1 Hch']; [exact Hne1| |].
          { split; [exact HS|apply (wf_children h); apply sok_wf; exact Hn]. }
          destruct (Sok_next _ _ _ Hn2 HS1) as [Hx HS2].
          destruct Hd as [HS3 _]; [exact Hne|split; assumption|].
          split; [exact HS3|]. split; [|split].
          -- eapply wf_nonsec; [exact Hn|rewrite Ek; discriminate|rewrite Ek; intros [X|X]; discriminate X|exact Hch'].
          -- split; [exists ch'; reflexivity|rewrite Ek; intros [X|X]; discriminate X].
          -- intro X; congruence.
        * unfold P2; simpl. split; [exact E|]. intros Hne [HS Hn].
          destruct H as [HS1 Hch']; [exact Hne| |].
          { split; [exact HS|apply (wf_children h); apply sok_wf; exact Hn]. }
          split; [exact HS1|]. split; [|split].
          -- eapply wf_nonsec; [exact Hn|rewrite Ek; discriminate|rewrite Ek; intros [X|X]; discriminate X|exact Hch'].
          -- split; [exists ch'; reflexivity|rewrite Ek; intros [X|X]; discriminate X].
          -- intro X; congruence.
      + (* KCell *)
        pose proof (IHU UCell h ch s) as H.
        destruct (until_loop subs pn f UCell h ch s) as [[[ch' e] s1]| |k]; [|exact I|exact I].
        destruct H as [E H]. simpl in E, H.
        assert (Hfin : forall s4, evext s1 s4 -> (noev s4 -> Sok s1 -> Sok s4) ->
                  P2 (Sok s /\ sok (Node h ch)) s (Done (do_paragraphs subs pn true h ch' s4)) snd (Qd (Node h ch))).
        { intros s4 E4 HS4. unfold P2; simpl.
          assert (E04 : evext s s4) by (eapply evext_trans; eassumption).
          split; [destruct E04 as [l E04]; exists l; rewrite do_paragraphs_ev; exact E04|].
          intros Hne [HS Hn]. unfold noev in Hne. rewrite do_paragraphs_ev in Hne.
          destruct H as [HS1 Hch']; [eapply noev_ext; eassumption| |].
          { split; [exact HS|apply (wf_children h); apply sok_wf; exact Hn]. }
          split; [eapply Sok_eq; [apply do_paragraphs_stream|apply HS4; assumption]|].
          split; [|split].
          -- eapply paragraphs_node_wf; [exact Hn|rewrite Ek; intros [X|X]; discriminate X|exact Hch'|].
             rewrite Ek. intro X; congruence.
          -- destruct (do_paragraphs_fst subs pn true h ch' s4) as [ch'' Hc]. rewrite Hc.
             split; [exists ch''; reflexivity|rewrite Ek; intros [X|X]; discriminate X].
          -- intro X; congruence. }
        destruct e as [[he se|he che]|]; try (apply Hfin; [apply evext_refl|auto]).
        destruct (h_cd he); [|apply Hfin; [apply evext_refl|auto]].
        destruct (next s1) as [[x s2]|] eqn:Hn2; [|exact I].
        nestedn IHD x s2 x' s3. destruct Hd as [E2 Hd].
        apply (Hfin (logd R_CELLDELIM x' s3)).
        * eapply evext_trans; [eapply evext_next; exact Hn2|]. eapply evext_trans; [exact E2|apply evext_logd].
        * intros Hne HS1. change (noev s3) in Hne.
          destruct (Sok_next _ _ _ Hn2 HS1) as [Hx HS2].
          destruct Hd as [HS3 _]; [exact Hne|split; assumption|]. exact HS3.
      + (* KVerb *)
        destruct (next s) as [[e s1]|] eqn:Hn1; [|exact I].
        pose proof (verb_loop_wf f e ch (logd R_VERBOPEN e s1)) as H.
        destruct (verb_loop f e ch (logd R_VERBOPEN e s1)) as [[ch' s2]| |k]; [|exact I|exact I].
        destruct H as [Ev H]. unfold P2; simpl.
        split; [eapply evext_trans; [eapply evext_next; exact Hn1|exists []; exact Ev]|].
        intros Hne [HS Hn]. destruct (Sok_next _ _ _ Hn1 HS) as [He HS1].
        destruct H as [HS2 Hch']; [exact HS1|apply (wf_children h); apply sok_wf; exact Hn|].
        split; [exact HS2|]. split; [|split].
        * eapply wf_nonsec; [exact Hn|rewrite Ek; discriminate|rewrite Ek; intros [X|X]; discriminate X|exact Hch'].
        * split; [exists ch'; reflexivity|rewrite Ek; intros [X|X]; discriminate X].
        * intro X; congruence.
      + (* KArray *)
        pose proof (IHE h ch ch s) as H. destruct (digest_env subs pn f h ch s) as [[t1 s1]| |k]; [|exact I|exact I].
        destruct H as [E H]. simpl in E, H.
        assert (Hpre : Sok s /\ sok (Node h ch) ->
                       Sok s /\ sok (Node h ch) /\ Forall wf ch /\ h_kind h <> KSec /\ ~ leafkind (h_kind h)).
        { intros [HS Hn]. apply env_pre; [exact HS|exact Hn|rewrite Ek; discriminate|rewrite Ek; intros [X|X]; discriminate X]. }
        destruct t1 as [h1 x1|h1 ch1].
        { unfold P2; simpl. split; [exact E|]. intros Hne Hp. destruct (H Hne (Hpre Hp)) as [_ [_ [ch' X]]]. discriminate X. }
        destruct (drop_border_rows ch1) as [[kk dd]|] eqn:Eb; [|exact I].
        unfold P2; simpl. split; [destruct E as [l E]; exists l; rewrite logds_ev; exact E|].
        intros Hne Hp. unfold noev in Hne. rewrite logds_ev in Hne.
        destruct (H Hne (Hpre Hp)) as [HS1 [Hw [ch' X]]]. inversion X; subst h1 ch'.
        split; [eapply Sok_eq; [apply logds_stream|exact HS1]|]. destruct Hp as [HS Hn]. split; [|split].
        * eapply wf_nonsec; [exact Hn|rewrite Ek; discriminate|rewrite Ek; intros [Y|Y]; discriminate Y|].
          eapply drop_border_rows_wf; [exact Eb|apply (wf_children h); exact Hw].
        * split; [exists kk; reflexivity|rewrite Ek; intros [Y|Y]; discriminate Y].
        * intro Y; congruence.
      + exact I.
    - (* digest_env *)
      intros h ch0 ch s. simpl. destruct (h_mode h =? 2).
      { unfold P2; simpl. split; [apply evext_refl|]. intros _ (HS & Hn & Hch & Hk & Hnl). split; [exact HS|].
        split; [eapply wf_nonsec; eassumption|exists ch; reflexivity]. }
      pose proof (IHL h ch (h_force h) s) as H.
      destruct (env_loop subs pn f h ch (h_force h) s) as [[[ch' dp] s1]| |k]; [|exact I|exact I].
      destruct H as [E H]. simpl in E, H. destruct dp; unfold P2; simpl.
      + split; [destruct E as [l E]; exists l; rewrite do_paragraphs_ev; exact E|].
        intros Hne (HS & Hn & Hch & Hk & Hnl). unfold noev in Hne. rewrite do_paragraphs_ev in Hne.
        destruct H as [HS1 Hch']; [exact Hne|split; assumption|].
        split; [eapply Sok_eq; [apply do_paragraphs_stream|exact HS1]|].
        split; [|apply do_paragraphs_fst].
        eapply paragraphs_node_wf; [exact Hn|exact Hnl|exact Hch'|]. intro X. contradiction (Hk X).
      + split; [exact E|]. intros Hne (HS & Hn & Hch & Hk & Hnl).
        destruct H as [HS1 Hch']; [exact Hne|split; assumption|].
        split; [exact HS1|]. split; [eapply wf_nonsec; eassumption|exists ch'; reflexivity].
    - (* env_loop *)
      intros h ch dp s. simpl.
      destruct (next s) as [[t s1]|] eqn:Hn; [|unfold P2; simpl; split; [apply evext_refl|intros _ [HS Hch]; auto]].
      pose proof (evext_next _ _ _ Hn) as E01.
      assert (Hsnoc : forall t', Forall wf ch -> wf t' -> Forall wf (ch ++ [t'])).
      { intros t' H1 H2. apply Forall_app. split; [exact H1|constructor; [exact H2|constructor]]. }
      destruct (level t =? PAR_LEVEL).
      { pose proof (IHL h (ch ++ [t]) true s1) as H.
        destruct (env_loop subs pn f h (ch ++ [t]) true s1) as [[[ch' dp'] s2]| |k]; [|exact I|exact I].
        destruct H as [E H]. simpl in E, H. unfold P2; simpl. split; [eapply evext_trans; eassumption|].
        intros Hne [HS Hch]. destruct (Sok_next _ _ _ Hn HS) as [Ht HS1].
        apply H; [exact Hne|]. split; [exact HS1|apply Hsnoc; [exact Hch|apply sok_wf; exact Ht]]. }
      destruct (level t <? h_level h).
      { unfold P2; simpl. split; [eapply evext_trans; [exact E01|apply evext_push]|].
        intros _ [HS Hch]. destruct (Sok_next _ _ _ Hn HS) as [Ht HS1]. split; [apply Sok_push; assumption|exact Hch]. }
      destruct (is_elem t && (h_mode (hd_of t) =? 2) && (h_typ (hd_of t) =? h_typ h)).
      { unfold P2; simpl. split; [eapply evext_trans; [exact E01|apply evext_logd]|].
        intros _ [HS Hch]. destruct (Sok_next _ _ _ Hn HS) as [Ht HS1]. split; [exact HS1|exact Hch]. }
      destruct (is_elem t).
      + nested IHD t s1. destruct Hd as [E12 Hd].
        destruct ((DOC_LEVEL <? h_level h) && (depth t' <? h_depth h)).
        { unfold P2; simpl.
          split; [eapply evext_trans; [exact E01|]; eapply evext_trans; [exact E12|];
                  eapply evext_trans; [apply ev_if_evext|apply evext_push]|].
          intros Hne [HS Hch]. destruct (Sok_next _ _ _ Hn HS) as [Ht HS1].
          change (noev (ev_if (low (level t')) E_REPUSH t' s2)) in Hne.
          pose proof (noev_ev_if _ _ _ _ Hne) as Hlow. rewrite Hlow in *. unfold ev_if in *.
          destruct Hd as [HS2 (Hw & Hsh & _)]; [exact Hne|split; assumption|].
          split; [|exact Hch]. apply Sok_push; [|exact HS2]. eapply sok_after; eassumption. }
        pose proof (IHL h (ch ++ [t']) dp s2) as H.
        destruct (env_loop subs pn f h (ch ++ [t']) dp s2) as [[[ch' dp'] s3]| |k]; [|exact I|exact I].
        destruct H as [E H]. simpl in E, H. unfold P2; simpl.
        split; [eapply evext_trans; [exact E01|]; eapply evext_trans; eassumption|].
        intros Hne [HS Hch]. destruct (Sok_next _ _ _ Hn HS) as [Ht HS1].
        destruct Hd as [HS2 (Hw & Hsh & _)]; [eapply noev_ext; eassumption|split; assumption|].
        apply H; [exact Hne|]. split; [exact HS2|apply Hsnoc; assumption].
      + destruct ((DOC_LEVEL <? h_level h) && (depth t <? h_depth h)).
        { unfold P2; simpl.
          split; [eapply evext_trans; [exact E01|]; eapply evext_trans; [apply ev_if_evext|apply evext_push]|].
          intros Hne [HS Hch]. destruct (Sok_next _ _ _ Hn HS) as [Ht HS1].
          change (noev (ev_if (low (level t)) E_REPUSH t s1)) in Hne.
          pose proof (noev_ev_if _ _ _ _ Hne) as Hlow. rewrite Hlow in *. unfold ev_if in *.
          split; [apply Sok_push; assumption|exact Hch]. }
        pose proof (IHL h (ch ++ [t]) dp s1) as H.
        destruct (env_loop subs pn f h (ch ++ [t]) dp s1) as [[[ch' dp'] s3]| |k]; [|exact I|exact I].
        destruct H as [E H]. simpl in E, H. unfold P2; simpl.
        split; [eapply evext_trans; eassumption|].
        intros Hne [HS Hch]. destruct (Sok_next _ _ _ Hn HS) as [Ht HS1].
        apply H; [exact Hne|]. split; [exact HS1|apply Hsnoc; [exact Hch|apply sok_wf; exact Ht]].
    - (* sec_loop *)
      intros h ch s. simpl.
      destruct (next s) as [[t s1]|] eqn:Hn.
      2:{ unfold P2; simpl. split; [apply evext_refl|]. intros _ (HS & Hch & HI). split; [exact HS|].
          split; [exact Hch|split; [exact HI|]]. unfold peek_le. rewrite (next_none_stream _ Hn). exact I. }
      pose proof (evext_next _ _ _ Hn) as E01.
      destruct (next_stream _ _ _ Hn) as [Hst _].
      destruct (level t <=? h_level h) eqn:Ele.
      { apply Z.leb_le in Ele. unfold P2; simpl. split; [eapply evext_trans; [exact E01|apply evext_push]|].
        intros _ (HS & Hch & HI). destruct (Sok_next _ _ _ Hn HS) as [Ht HS1].
        split; [apply Sok_push; assumption|]. split; [exact Hch|]. split.
        - intro Hlow. destruct (HI Hlow) as (HA & HB & HC). split; [exact HA|split; [exact HB|]].
          intro Hne. specialize (HC Hne). unfold peek_lt in *. rewrite push_stream. rewrite Hst in HC. exact HC.
        - unfold peek_le. rewrite push_stream. exact Ele. }
      apply Z.leb_gt in Ele.
      (* the item is absorbed *)
      assert (Hcont : forall t' s2, evext s1 s2 ->
                (noev s2 -> Sok s /\ Forall wf ch /\ SecI (h_level h) ch s ->
                 Sok s2 /\ wf t' /\ level t' = level t /\
                 (low (level t) = true -> peek_le s2 (level t))) ->
                P2 (Sok s /\ Forall wf ch /\ SecI (h_level h) ch s) s (sec_loop subs pn f h (ch ++ [t']) s2) snd
                   (fun a => Forall wf (fst a) /\ SecI (h_level h) (fst a) (snd a) /\ peek_le (snd a) (h_level h))).
      { intros t' s2 E12 Hstep. pose proof (IHS h (ch ++ [t']) s2) as H.
        destruct (sec_loop subs pn f h (ch ++ [t']) s2) as [[ch' s3]| |k]; [|exact I|exact I].
        destruct H as [E H]. simpl in E, H. unfold P2; simpl.
        split; [eapply evext_trans; [exact E01|]; eapply evext_trans; eassumption|].
        intros Hne Hpre. destruct Hpre as (HS & Hch & HI).
        destruct Hstep as (HS2 & Hw & Hlev & Hpk); [eapply noev_ext; eassumption|split; [exact HS|split; [exact Hch|exact HI]]|].
        apply H; [exact Hne|]. split; [exact HS2|]. split.
        { apply Forall_app. split; [exact Hch|constructor; [exact Hw|constructor]]. }
        intro Hlow. destruct (HI Hlow) as (HA & HB & HC).
        destruct (Sok_next _ _ _ Hn HS) as [Ht _].
        assert (HDOC : DOC_LEVEL < h_level h).
        { unfold low in Hlow. apply andb_true_iff in Hlow. destruct Hlow as [X _]. apply Z.ltb_lt in X. exact X. }
        assert (Hlowt : level t < PAR_LEVEL -> low (level t) = true /\ level t < ENDSECTIONS_LEVEL).
        { intro Hlt. assert (Hl : low (level t) = true).
          { unfold low. apply andb_true_iff. split; apply Z.ltb_lt; lia. }
          split; [exact Hl|]. destruct t as [ht st0|ht cht]; [simpl in Hlt; unfold CHAR_LEVEL, PAR_LEVEL in Hlt; lia|].
          destruct Ht as [_ [_ Hl2]]. simpl in Hl. destruct (Hl2 Hl) as (_ & X & _). exact X. }
        split; [apply Forall_app; split; [exact HA|constructor; [rewrite Hlev; exact Ele|constructor]]|].
        rewrite sfl_snoc. destruct (sfl ch) as [|c0 r0] eqn:Esfl.
        - destruct (level t' <? PAR_LEVEL) eqn:Elt.
          + apply Z.ltb_lt in Elt. rewrite Hlev in Elt. destruct (Hlowt Elt) as [Hl1 Hl2]. split.
            * constructor; [rewrite Hlev; exact Hl2|constructor].
            * intros _. specialize (Hpk Hl1). unfold peek_le, peek_lt in *. destruct (stream s2); [exact I|lia].
          + split; [constructor|intro X; contradiction X; reflexivity].
        - assert (Hc : peek_lt s) by (apply HC; discriminate).
          unfold peek_lt in Hc. rewrite Hst in Hc. destruct (Hlowt Hc) as [Hl1 Hl2]. split.
          + apply Forall_app. split; [exact HB|constructor; [rewrite Hlev; exact Hl2|constructor]].
          + intros _. specialize (Hpk Hl1). unfold peek_le, peek_lt in *. destruct (stream s2); [exact I|lia]. }
      destruct (is_elem t) eqn:Eel.
      + nested IHD t s1. destruct Hd as [E12 Hd]. apply Hcont; [exact E12|].
        intros Hne (HS & Hch & HI). destruct (Sok_next _ _ _ Hn HS) as [Ht HS1].
        destruct Hd as [HS2 (Hw & Hsh & Hpk)]; [exact Hne|split; assumption|].
        split; [exact HS2|split; [exact Hw|]]. destruct (same_head_level _ _ Hsh) as [Hlv _]. split; [exact Hlv|].
        intro Hl. destruct t as [ht st0|ht cht]; [discriminate Eel|]. simpl in *.
        destruct Ht as [_ [_ Hl2]]. destruct (Hl2 Hl) as (Hk & _ & _). apply Hpk. exact Hk.
      + apply Hcont; [apply evext_refl|].
        intros Hne (HS & Hch & HI). destruct (Sok_next _ _ _ Hn HS) as [Ht HS1].
        split; [exact HS1|split; [apply sok_wf; exact Ht|split; [reflexivity|]]].
        intro Hl. destruct t as [ht st0|ht cht]; [|discriminate Eel]. simpl in Hl. vm_compute in Hl. discriminate Hl.
    - (* bg_loop *)
      intros h ch s. simpl.
      destruct (next s) as [[t s1]|] eqn:Hn; [|unfold P2; simpl; split; [apply evext_refl|intros _ [HS Hch]; auto]].
      pose proof (evext_next _ _ _ Hn) as E01.
      assert (Hsnoc : forall t', Forall wf ch -> wf t' -> Forall wf (ch ++ [t'])).
      { intros t' H1 H2. apply Forall_app. split; [exact H1|constructor; [exact H2|constructor]]. }
      destruct t as [ht st0|ht cht].
      { pose proof (IHB h (ch ++ [Text ht st0]) s1) as H.
        destruct (bg_loop subs pn f h (ch ++ [Text ht st0]) s1) as [[ch' s3]| |k]; [|exact I|exact I].
        destruct H as [E H]. simpl in E, H. unfold P2; simpl. split; [eapply evext_trans; eassumption|].
        intros Hne [HS Hch]. destruct (Sok_next _ _ _ Hn HS) as [Ht HS1].
        apply H; [exact Hne|]. split; [exact HS1|apply Hsnoc; [exact Hch|apply wf_text]]. }
      destruct (h_level ht <? ENDSECTIONS_LEVEL).
      { unfold P2; simpl. split; [eapply evext_trans; [exact E01|apply evext_push]|].
        intros _ [HS Hch]. destruct (Sok_next _ _ _ Hn HS) as [Ht HS1]. split; [apply Sok_push; assumption|exact Hch]. }
      destruct (h_eg ht).
      { unfold P2; simpl. split; [eapply evext_trans; [exact E01|apply evext_logd]|].
        intros _ [HS Hch]. destruct (Sok_next _ _ _ Hn HS) as [Ht HS1]. split; [exact HS1|exact Hch]. }
      destruct (h_depth ht <? h_depth h).
      { unfold P2; simpl. split; [eapply evext_trans; [exact E01|apply evext_push]|].
        intros _ [HS Hch]. destruct (Sok_next _ _ _ Hn HS) as [Ht HS1]. split; [apply Sok_push; assumption|exact Hch]. }
      nested IHD (Node ht cht) s1. destruct Hd as [E12 Hd].
      pose proof (IHB h (ch ++ [t']) s2) as H.
      destruct (bg_loop subs pn f h (ch ++ [t']) s2) as [[ch' s3]| |k]; [|exact I|exact I].
      destruct H as [E H]. simpl in E, H. unfold P2; simpl.
      split; [eapply evext_trans; [exact E01|]; eapply evext_trans; eassumption|].
      intros Hne [HS Hch]. destruct (Sok_next _ _ _ Hn HS) as [Ht HS1].
      destruct Hd as [HS2 (Hw & Hsh & _)]; [eapply noev_ext; eassumption|split; assumption|].
      apply H; [exact Hne|]. split; [exact HS2|apply Hsnoc; assumption].
    - (* until_loop *)
      intros sel h ch s. simpl.
      destruct (next s) as [[t s1]|] eqn:Hn; [|unfold P2; simpl; split; [apply evext_refl|intros _ [HS Hch]; auto]].
      pose proof (evext_next _ _ _ Hn) as E01.
      assert (Hsnoc : forall t', Forall wf ch -> wf t' -> Forall wf (ch ++ [t'])).
      { intros t' H1 H2. apply Forall_app. split; [exact H1|constructor; [exact H2|constructor]]. }
      destruct (endp sel t).
      { unfold P2; simpl. split; [eapply evext_trans; [exact E01|apply evext_push]|].
        intros _ [HS Hch]. destruct (Sok_next _ _ _ Hn HS) as [Ht HS1]. split; [apply Sok_push; assumption|exact Hch]. }
      destruct (is_elem t).
      + nested IHD t (ev_if (low (level t)) E_NESTEDSEC t s1). destruct Hd as [E12 Hd].
        assert (E02 : evext s s2).
        { eapply evext_trans; [exact E01|]. eapply evext_trans; [apply ev_if_evext|exact E12]. }
        assert (Hdig : noev s2 -> Sok s -> Sok s2 /\ wf t' /\ sok t' /\ depth t' = depth t).
        { intros Hne HS. destruct (Sok_next _ _ _ Hn HS) as [Ht HS1].
          assert (Hne1 : noev (ev_if (low (level t)) E_NESTEDSEC t s1)) by (eapply noev_ext; eassumption).
          pose proof (noev_ev_if _ _ _ _ Hne1) as Hlow.
          destruct Hd as [HS2 (Hw & Hsh & _)]; [exact Hne|split; [eapply Sok_eq; [apply ev_if_stream|exact HS1]|exact Ht]|].
          destruct (same_head_level _ _ Hsh) as [Hlv Hdp]. simpl in Hlv, Hdp, Hw, Hsh, HS2.
          split; [exact HS2|split; [exact Hw|split; [|exact Hdp]]].
          eapply sok_after; [exact Ht|exact Hw|exact Hsh|rewrite Hlv; exact Hlow]. }
        destruct (depth t' <? h_depth h).
        { unfold P2; simpl. split; [eapply evext_trans; [exact E02|apply evext_push]|].
          intros Hne [HS Hch]. change (noev s2) in Hne. destruct (Hdig Hne HS) as (HS2 & Hw & Hsk & _).
          split; [apply Sok_push; assumption|exact Hch]. }
        pose proof (IHU sel h (ch ++ [t']) s2) as H.
        destruct (until_loop subs pn f sel h (ch ++ [t']) s2) as [[[ch' e'] s3]| |k]; [|exact I|exact I].
        destruct H as [E H]. simpl in E, H. unfold P2; simpl.
        split; [eapply evext_trans; eassumption|].
        intros Hne [HS Hch]. destruct (Hdig (noev_ext _ _ E Hne) HS) as (HS2 & Hw & _ & _).
        apply H; [exact Hne|]. split; [exact HS2|apply Hsnoc; assumption].
      + destruct (depth t <? h_depth h).
        { unfold P2; simpl. split; [eapply evext_trans; [exact E01|apply evext_push]|].
          intros _ [HS Hch]. destruct (Sok_next _ _ _ Hn HS) as [Ht HS1]. split; [apply Sok_push; assumption|exact Hch]. }
        pose proof (IHU sel h (ch ++ [t]) s1) as H.
        destruct (until_loop subs pn f sel h (ch ++ [t]) s1) as [[[ch' e'] s3]| |k]; [|exact I|exact I].
        destruct H as [E H]. simpl in E, H. unfold P2; simpl.
        split; [eapply evext_trans; eassumption|].
        intros Hne [HS Hch]. destruct (Sok_next _ _ _ Hn HS) as [Ht HS1].
        apply H; [exact Hne|]. split; [exact HS1|apply Hsnoc; [exact Hch|apply sok_wf; exact Ht]].
  Qed.

  Lemma parse_top_wf : forall f out s,
    P2 (Sok s /\ Forall wf out) s (parse_top subs pn f out s) snd (fun a => Forall wf (fst a)).
  Proof.
    induction f as [|f IH]; intros out s; simpl; [exact I|].
    destruct (next s) as [[t s1]|] eqn:Hn; [|unfold P2; simpl; split; [apply evext_refl|intros _ [HS Ho]; auto]].
    pose proof (evext_next _ _ _ Hn) as E01.
    destruct (wf_all f) as (IHD & _).
    destruct (is_elem t).
    - nested IHD t s1. destruct Hd as [E12 Hd].
      pose proof (IH (out ++ [t']) s2) as H.
      destruct (parse_top subs pn f (out ++ [t']) s2) as [[out' s3]| |k]; [|exact I|exact I].
      destruct H as [E H]. simpl in E, H. unfold P2; simpl.
      split; [eapply evext_trans; [exact E01|]; eapply evext_trans; eassumption|].
      intros Hne [HS Ho]. destruct (Sok_next _ _ _ Hn HS) as [Ht HS1].
      destruct Hd as [HS2 (Hw & _ & _)]; [eapply noev_ext; eassumption|split; assumption|].
      apply H; [exact Hne|]. split; [exact HS2|]. apply Forall_app. split; [exact Ho|constructor; [exact Hw|constructor]].
    - pose proof (IH (out ++ [t]) s1) as H.
      destruct (parse_top subs pn f (out ++ [t]) s1) as [[out' s3]| |k]; [|exact I|exact I].
      destruct H as [E H]. simpl in E, H. unfold P2; simpl.
      split; [eapply evext_trans; eassumption|].
      intros Hne [HS Ho]. destruct (Sok_next _ _ _ Hn HS) as [Ht HS1].
      apply H; [exact Hne|]. split; [exact HS1|]. apply Forall_app. split; [exact Ho|constructor; [apply sok_wf; exact Ht|constructor]].
  Qed.

  Lemma item_ok_sok t : item_ok_b t = true -> sok t.
  Proof.
    destruct t as [h s|h ch]; [intros _; split; [reflexivity|exact I]|].
    unfold item_ok_b. rewrite !andb_true_iff. intros [[Hc Hp] Hl].
    assert (Hpar : h_level h = PAR_LEVEL -> leafkind (h_kind h) /\ ch = []).
    { intro E. apply Z.eqb_eq in E. rewrite E in Hp. unfold leafkind.
      destruct (h_kind h); try discriminate Hp; (destruct ch; [auto|discriminate Hp]). }
    assert (Hlow : low (h_level h) = true -> h_kind h = KSec /\ h_level h < ENDSECTIONS_LEVEL /\ ch = []).
    { intro E. rewrite E in Hl. destruct (h_kind h); try discriminate Hl.
      apply andb_true_iff in Hl. destruct Hl as [H1 H2]. apply Z.ltb_lt in H1. destruct ch; [auto|discriminate H2]. }
    split; [|split; assumption].
    apply wf_node. split; [|split].
    - intro Hs. assert (E : low (h_level h) = true).
      { unfold is_section_level in Hs. unfold low. apply andb_true_iff in Hs. destruct Hs as [H1 H2]. rewrite H1. simpl.
        apply Z.ltb_lt in H2. apply Z.ltb_lt. unfold ENDSECTIONS_LEVEL, PAR_LEVEL in *. lia. }
      destruct (Hlow E) as (_ & _ & ->). reflexivity.
    - intro E. destruct (Hpar E) as [_ ->]. reflexivity.
    - apply forallb_Forall. exact Hc.
  Qed.

  (* M2 *)
  Theorem digest_sections_wf : forall ts forest s',
    forallb item_ok_b ts = true ->
    parse_doc subs pn ts = Done (forest, s') ->
    s_ev s' = [] ->
    forallb wf_sections_b forest = true.
  Proof.
    intros ts forest s' Hok H Hev. unfold parse_doc in H.
    pose proof (parse_top_wf (fuel_for ts) [] (init_st ts)) as P. rewrite H in P. unfold P2 in P; simpl in P.
    destruct P as [_ P]. apply forallb_Forall.
    apply P; [exact Hev|]. split; [|constructor].
    unfold Sok, stream, init_st; simpl. apply forallb_Forall in Hok.
    eapply Forall_impl; [|exact Hok]. intros t Ht. apply item_ok_sok. exact Ht.
  Qed.
End Sections.

Lemma wf_subtree x t : subtree x t -> wf t -> wf x.
Proof.
  induction 1 as [t|x h ch c Hin _ IH]; intro Hw; [exact Hw|].
  apply IH. apply wf_children in Hw. rewrite Forall_forall in Hw. apply Hw. exact Hin.
Qed.

(* the two clauses of wf_sections_b, read at any node of the tree *)
Lemma wf_section_children t h ch c :
  wf t -> subtree (Node h ch) t -> is_section_level (h_level h) = true -> In c ch ->
  level c = PAR_LEVEL \/ (is_section_level (level c) = true /\ h_level h < level c).
Proof.
  intros Hw Hs Hl Hin. apply (wf_subtree _ _ Hs) in Hw. apply wf_node in Hw. destruct Hw as (Ha & _ & _).
  specialize (Ha Hl). rewrite forallb_forall in Ha. specialize (Ha c Hin).
  unfold section_child_ok, is_par in Ha. apply orb_true_iff in Ha. destruct Ha as [Ha|Ha].
  - left. apply Z.eqb_eq. exact Ha.
  - right. apply andb_true_iff in Ha. destruct Ha as [H1 H2]. split; [exact H1|apply Z.ltb_lt; exact H2].
Qed.

Lemma wf_no_par_in_par t h ch c :
  wf t -> subtree (Node h ch) t -> h_level h = PAR_LEVEL -> In c ch -> level c <> PAR_LEVEL.
Proof.
  intros Hw Hs Hl Hin. apply (wf_subtree _ _ Hs) in Hw. apply wf_node in Hw. destruct Hw as (_ & Hb & _).
  specialize (Hb Hl). rewrite forallb_forall in Hb. specialize (Hb c Hin).
  unfold is_par in Hb. intro E. apply Z.eqb_eq in E. rewrite E in Hb. discriminate Hb.
Qed.

(* ================================================================================================ *)
(* M3: Macro.paragraphs keeps the order and never moves anything across a lower-level item           *)
(* ================================================================================================ *)

Lemma add_child_level p c : level (add_child p c) = level p.
Proof. destruct p; reflexivity. Qed.

Lemma map_norm_parlevel cs l :
  Forall (fun t => level t = PAR_LEVEL) l ->
  Forall (fun t => level t = PAR_LEVEL) (map (fun t => if level t =? PAR_LEVEL then normalize cs t else t) l).
Proof.
  induction 1 as [|t l Ht _ IH]; simpl; constructor; [|exact IH].
  destruct (level t =? PAR_LEVEL); [rewrite normalize_level|]; exact Ht.
Qed.

Lemma group_prefix pn x rest : level x < PAR_LEVEL ->
  forall pre acc, acc <> [] -> Forall (fun c => PAR_LEVEL <= level c) pre -> Forall (fun t => level t = PAR_LEVEL) acc ->
  exists acc', group pn (pre ++ x :: rest) acc = (rev (x :: acc'), rest) /\ Forall (fun t => level t = PAR_LEVEL) acc'.
Proof.
  intro Hx. induction pre as [|item pre IH]; intros acc Hne Hpre Hacc; simpl.
  - assert (E1 : (level x =? PAR_LEVEL) = false) by (apply Z.eqb_neq; lia).
    assert (E2 : (level x <? PAR_LEVEL) = true) by (apply Z.ltb_lt; lia).
    rewrite E1, E2. exists acc. split; [reflexivity|exact Hacc].
  - inversion Hpre as [|? ? Hi Hpre']; subst.
    destruct (level item =? PAR_LEVEL) eqn:E1.
    { apply Z.eqb_eq in E1. apply IH; [discriminate|exact Hpre'|constructor; assumption]. }
    assert (E2 : (level item <? PAR_LEVEL) = false) by (apply Z.ltb_ge; exact Hi).
    rewrite E2. destruct (is_block item).
    { apply IH; [discriminate|exact Hpre'|]. constructor; [reflexivity|constructor; [reflexivity|exact Hacc]]. }
    destruct acc as [|last acc']; [contradiction Hne; reflexivity|].
    inversion Hacc; subst.
    apply IH; [discriminate|exact Hpre'|]. constructor; [rewrite add_child_level; assumption|assumption].
Qed.

(* M3 (structure): if the children are  pre ++ x :: rest  with x the first child below PAR_LEVEL, then after paragraphs()
   they are  pars ++ x :: rest'  where pars are paragraph nodes (holding pre) and rest' is rest without empty paragraphs:
   x and everything behind it stay where they are, nothing is moved across x *)
Theorem paragraphs_not_across_lower subs pn mm h pre x rest kept dr :
  Forall (fun c => PAR_LEVEL <= level c) pre -> level x < PAR_LEVEL ->
  paragraphs subs pn mm true h (pre ++ x :: rest) = (kept, dr) ->
  exists pars, kept = pars ++ x :: filter (fun t => negb (drop_par t)) rest /\ Forall (fun p => level p = PAR_LEVEL) pars.
Proof.
  intros Hpre Hx H. unfold paragraphs in H.
  set (cs := if mm then [] else subs) in *.
  assert (Hgen : forall pname,
    (let '(newnodes, remaining) := group pname (pre ++ x :: rest) [Node (par_head pname false) []] in
     let newnodes' := map (fun t => if level t =? PAR_LEVEL then normalize cs t else t) newnodes in
     let all := newnodes' ++ remaining in
     (filter (fun t => negb (drop_par t)) all, filter drop_par all)) = (kept, dr) ->
    exists pars, kept = pars ++ x :: filter (fun t => negb (drop_par t)) rest /\ Forall (fun p => level p = PAR_LEVEL) pars).
  { intros pname Hg.
    destruct (group_prefix pname x rest Hx pre [Node (par_head pname false) []]) as [acc' [Eg Hacc']];
      [discriminate|exact Hpre|constructor; [reflexivity|constructor]|].
    rewrite Eg in Hg. inversion Hg; subst. clear Hg.
    cbn [rev]. rewrite map_app, <- app_assoc, filter_app. cbn [map app].
    assert (E1 : (level x =? PAR_LEVEL) = false) by (apply Z.eqb_neq; lia).
    rewrite E1. cbn [filter]. unfold drop_par at 2. rewrite E1. cbn [andb negb].
    eexists. split; [reflexivity|].
    apply filter_Forall. apply map_norm_parlevel. apply Forall_rev. exact Hacc'. }
  destruct (find_parname (pre ++ x :: rest)) as [n|]; [apply (Hgen n); exact H|apply (Hgen pn); exact H].
Qed.

(* M3 (order): the running text of the children is unchanged by paragraphs(), as long as the paragraphs it filters out are
   really empty of running text *)
Theorem paragraphs_preserves_order keep subs pn mm force h ch kept dr :
  neutral keep subs -> paragraphs subs pn mm force h ch = (kept, dr) ->
  Forall (fun t => words keep (flatten t) = []) dr ->
  words keep (flatten_forest kept) = words keep (flatten_forest ch).
Proof.
  intros Hn H Hdr. rewrite <- !reading_forest_words.
  eapply (paragraphs_pay (fun _ => false) keep (fun _ _ => eq_refl)); [exact Hn|exact H|].
  eapply Forall_impl; [|exact Hdr]. intros t Ht. unfold pay. rewrite reading_words. exact Ht.
Qed.

(* ================================================================================================ *)
(* M4: character substitution is applied to running text, never below a no-substitution node        *)
(* ================================================================================================ *)

Definition exp_go (subs' : list (list Z * list Z)) (exp : tree -> list Z) : list tree -> list Z -> list Z :=
  fix go (l : list tree) (run : list Z) : list Z :=
    match l with
    | [] => subst_all subs' run
    | Text _ s :: l' => go l' (run ++ s)
    | (Node _ _ as c) :: l' => subst_all subs' run ++ exp c ++ go l' []
    end.

Lemma expected_text_node subs h ch :
  expected_text subs (Node h ch) =
  exp_go (if h_nosub h then [] else subs) (expected_text (if h_nosub h then [] else subs)) ch [].
Proof. reflexivity. Qed.

Definition sources_nonempty (subs : list (list Z * list Z)) : Prop := Forall (fun p => fst p <> []) subs.

Lemma subst_all_nil subs : sources_nonempty subs -> subst_all subs [] = [].
Proof.
  unfold subst_all. induction 1 as [|p subs Hp _ IH]; simpl; [reflexivity|].
  unfold replace. destruct (fst p) as [|a src] eqn:E; [contradiction Hp; reflexivity|]. simpl. exact IH.
Qed.

Definition run_of (pend : option (list Z)) : list Z := match pend with None => [] | Some v => v end.

Lemma flush_text subs pend : sources_nonempty subs -> flat_map text_content (flush subs pend) = subst_all subs (run_of pend).
Proof.
  intro Hs. destruct pend as [v|]; simpl; [apply app_nil_r|]. symmetry. apply subst_all_nil. exact Hs.
Qed.

Lemma norm_go_text_content subs norm exp l :
  sources_nonempty subs -> Forall (fun c => text_content (norm c) = exp c) l ->
  forall pend, flat_map text_content (norm_go subs norm l pend) = exp_go subs exp l (run_of pend).
Proof.
  intros Hs HF. induction HF as [|c l Hc _ IH]; intro pend.
  - rewrite norm_go_nil. apply flush_text. exact Hs.
  - destruct c as [h s|h ch].
    + rewrite norm_go_text, IH. destruct pend; reflexivity.
    + rewrite norm_go_node, flat_map_app, flush_text by exact Hs. cbn [flat_map]. rewrite Hc, IH. reflexivity.
Qed.

(* the Model's normalize shows exactly the text the Spec demands: the table applied to every maximal run of text
   leaves, left to right and in table order, with the empty table below no-substitution nodes *)
Theorem normalize_expected_text : forall t subs,
  sources_nonempty subs -> text_content (normalize subs t) = expected_text subs t.
Proof.
  induction t as [h s|h ch IH] using tree_ind2; intros subs Hs; [reflexivity|].
  rewrite normalize_node, expected_text_node. cbn [text_content].
  assert (Hs' : sources_nonempty (if h_nosub h then [] else subs)) by (destruct (h_nosub h); [constructor|exact Hs]).
  rewrite (norm_go_text_content _ _ (expected_text (if h_nosub h then [] else subs))); [reflexivity|exact Hs'|].
  eapply Forall_impl; [|exact IH]. intros c Hc. apply Hc. exact Hs'.
Qed.

Lemma exp_go_nosubs exp l :
  Forall (fun c => exp c = text_content c) l -> forall run, exp_go [] exp l run = run ++ flat_map text_content l.
Proof.
  induction 1 as [|c l Hc _ IH]; intro run; simpl; [rewrite app_nil_r; reflexivity|].
  destruct c as [h s|h ch].
  - rewrite IH, <- app_assoc. reflexivity.
  - rewrite Hc, IH. reflexivity.
Qed.

Lemma expected_text_nosubs : forall t, expected_text [] t = text_content t.
Proof.
  induction t as [h s|h ch IH] using tree_ind2; [reflexivity|].
  rewrite expected_text_node. destruct (h_nosub h); rewrite exp_go_nosubs; try reflexivity; exact IH.
Qed.

(* M4: whatever the table, the text below a verbatim / mathematics node is left exactly as it was *)
Theorem charsub_scoped : forall subs h ch,
  h_nosub h = true -> text_content (normalize subs (Node h ch)) = text_content (Node h ch).
Proof.
  intros subs h ch Hn.
  assert (E : normalize subs (Node h ch) = normalize [] (Node h ch)) by (rewrite !normalize_node, Hn; reflexivity).
  rewrite E, normalize_expected_text by constructor. apply expected_text_nosubs.
Qed.

(* ... and at any depth below it: the Spec's expected text of a no-substitution node does not depend on the table *)
Theorem charsub_scoped_spec : forall subs h ch,
  h_nosub h = true -> expected_text subs (Node h ch) = text_content (Node h ch).
Proof.
  intros subs h ch Hn. rewrite <- (expected_text_nosubs (Node h ch)). rewrite !expected_text_node, Hn. reflexivity.
Qed.

(* ---- the boolean forms of the hypotheses on the table -------------------------------------------- *)

Lemma unkept_b_sound keep s : unkept_b keep s = true -> unkept keep s.
Proof.
  unfold unkept_b, unkept. induction s as [|c s IH]; simpl; [reflexivity|].
  rewrite andb_true_iff. intros [H1 H2]. destruct (keep c); [discriminate H1|apply IH; exact H2].
Qed.

Lemma neutral_b_sound keep subs : neutral_b keep subs = true -> neutral keep subs /\ sources_nonempty subs.
Proof.
  unfold neutral_b, neutral, sources_nonempty. induction subs as [|p subs IH]; simpl; [split; constructor|].
  rewrite !andb_true_iff. intros [[[H1 H2] H3] H4]. destruct (IH H4) as [IH1 IH2]. split; constructor; auto.
  - split; apply unkept_b_sound; assumption.
  - intro E. rewrite E in H3. discriminate H3.
Qed.

(* ================================================================================================ *)
(* M1b: what the digest methods drop are structural markers                                           *)
(* ================================================================================================ *)

Definition justified (e : Z * tree) : Prop :=
  let (k, t) := e in
  (k = R_END /\ is_elem t = true /\ h_mode (hd_of t) = 2) \/
  (k = R_WS /\ is_ws t = true) \/
  (k = R_SETCOUNTER /\ is_elem t = true /\ h_sc (hd_of t) = true) \/
  (k = R_ENDROW /\ is_elem t = true /\ h_er (hd_of t) = true) \/
  (k = R_CELLDELIM /\ is_elem t = true /\ h_cd (hd_of t) = true) \/
  (k = R_VERBOPEN) \/
  (k = R_VERBCLOSE /\ is_elem t = false) \/
  (k = R_EMPTYPAR /\ drop_par t = true) \/
  (k = R_BORDERROW /\ is_row t = true /\ border_cells (children t) = Some true) \/
  (k = R_EGROUP /\ is_elem t = true /\ h_eg (hd_of t) = true).

Definition J (s : st) : Prop := Forall justified (s_log s).

Lemma J_logd k t s : justified (k, t) -> J s -> J (logd k t s).
Proof. intros H1 H2. constructor; assumption. Qed.
Lemma J_eq s s' : s_log s' = s_log s -> J s -> J s'.
Proof. unfold J. intros ->. auto. Qed.
Lemma next_log s t s1 : next s = Some (t, s1) -> s_log s1 = s_log s.
Proof.
  unfold next. destruct s as [b r m l ev]; simpl. destruct b; [destruct r|]; intro H; inversion H; subst; reflexivity.
Qed.
Lemma next_push t s : next (push t s) = Some (t, mkSt (s_buf s) (s_rest s) (s_mm s) (s_log s) (s_ev s)).
Proof. reflexivity. Qed.

Lemma J_logds k ts s : Forall (fun t => justified (k, t)) ts -> J s -> J (logds k ts s).
Proof.
  unfold logds. revert s. induction ts as [|t ts IH]; intros s H1 H2; simpl; [exact H2|].
  inversion H1; subst. apply IH; [assumption|]. apply J_logd; assumption.
Qed.

Lemma J_do_paragraphs subs pn force h ch s : J s -> J (snd (do_paragraphs subs pn force h ch s)).
Proof.
  intro HJ. unfold do_paragraphs. destruct (paragraphs subs pn (s_mm s) force h ch) as [kept dr] eqn:E. simpl.
  apply J_logds; [|exact HJ]. unfold paragraphs in E.
  assert (Hf : forall l, Forall (fun t => justified (R_EMPTYPAR, t)) (filter drop_par l)).
  { intro l. apply Forall_forall. intros t Ht. apply filter_In in Ht. destruct Ht as [_ Ht].
    simpl. do 7 right. left. auto. }
  destruct (find_parname ch) as [n|].
  - destruct (group n ch _) as [nn rem]. inversion E; subst. apply Hf.
  - destruct force.
    + destruct (group pn ch _) as [nn rem]. inversion E; subst. apply Hf.
    + inversion E; subst. constructor.
Qed.

Lemma drop_border_rows_just : forall rows k d,
  drop_border_rows rows = Some (k, d) -> Forall (fun t => justified (R_BORDERROW, t)) d.
Proof.
  unfold drop_border_rows.
  induction rows as [|r rows IH]; intros k d H; simpl in H.
  - inversion H; subst. constructor.
  - fold drop_border_rows in *. destruct (is_row r) eqn:Er.
    + destruct (border_cells (children r)) as [[|]|] eqn:Eb; try discriminate;
        destruct (drop_border_rows rows) as [[k' d']|] eqn:E; try discriminate; inversion H; subst.
      * constructor; [|eapply IH; reflexivity]. simpl. do 8 right. left. auto.
      * eapply IH; reflexivity.
    + destruct (drop_border_rows rows) as [[k' d']|] eqn:E; try discriminate; inversion H; subst.
      eapply IH; reflexivity.
Qed.

Lemma skip_loop_J : forall f setc s, J s -> match skip_loop f setc s with Done s' => J s' | _ => True end.
Proof.
  induction f as [|f IH]; intros setc s HJ; simpl; [exact I|].
  destruct (next s) as [[t s1]|] eqn:Hn; [|exact HJ].
  pose proof (J_eq _ _ (next_log _ _ _ Hn) HJ) as HJ1.
  destruct (is_ws t) eqn:Ews.
  - apply IH. apply J_logd; [|exact HJ1]. simpl. right. left. auto.
  - destruct t as [ht st0|ht cht]; simpl.
    + rewrite andb_false_r. exact HJ1.
    + destruct (setc && h_sc ht) eqn:Esc; [|exact HJ1].
      apply IH. apply J_logd; [|exact HJ1]. simpl. right. right. left.
      apply andb_true_iff in Esc. destruct Esc. auto.
Qed.

Lemma verb_loop_J : forall f e ch s, J s -> match verb_loop f e ch s with Done (_, s') => J s' | _ => True end.
Proof.
  induction f as [|f IH]; intros e ch s HJ; simpl; [exact I|].
  destruct (next s) as [[t s1]|] eqn:Hn; [|exact HJ].
  pose proof (J_eq _ _ (next_log _ _ _ Hn) HJ) as HJ1.
  destruct (tok_eq t e) eqn:Eeq.
  - apply J_logd; [|exact HJ1]. simpl. do 6 right. left. split; [reflexivity|].
    destruct t; [reflexivity|]. simpl in Eeq. discriminate Eeq.
  - apply IH. exact HJ1.
Qed.

Section Dropped.
  Context (subs : list (list Z * list Z)) (pn : Z).

  Lemma digest_env_hd f h ch s t' s' : digest_env subs pn f h ch s = Done (t', s') -> exists ch', t' = Node h ch'.
  Proof.
    destruct f as [|f]; simpl; [discriminate|].
    destruct (h_mode h =? 2); [intro H; inversion H; subst; eauto|].
    destruct (env_loop subs pn f h ch (h_force h) s) as [[[ch' dp] s1]| |]; try discriminate.
    destruct dp; intro H; inversion H as [H1]; subst; [|eauto].
    destruct (do_paragraphs_fst subs pn true h ch' s1) as [c Hc]. rewrite H1 in Hc. simpl in Hc. eauto.
  Qed.

  (* digest returns the node it was given, with children *)
  Lemma digest_hd f n s t' s' : digest subs pn f n s = Done (t', s') -> hd_of t' = hd_of n /\ is_elem t' = is_elem n.
  Proof.
    destruct f as [|f]; simpl; [discriminate|].
    destruct n as [h0 s0|h ch]; [intro H; inversion H; subst; auto|].
    assert (Hdp : forall force ch1 s1, Done (do_paragraphs subs pn force h ch1 s1) = Done (t', s') ->
                  hd_of t' = hd_of (Node h ch) /\ is_elem t' = is_elem (Node h ch)).
    { intros force ch1 s1 H. inversion H as [H1].
      destruct (do_paragraphs_fst subs pn force h ch1 s1) as [ch'' Hc]. rewrite H1 in Hc. simpl in Hc. subst t'. auto. }
    assert (Henv : forall s0, digest_env subs pn f h ch s0 = Done (t', s') ->
                   hd_of t' = hd_of (Node h ch) /\ is_elem t' = is_elem (Node h ch)).
    { intros s0 H. apply digest_env_hd in H. destruct H as [ch' ->]. auto. }
    destruct (h_kind h).
    - intro H; inversion H; subst; auto.
    - intro H; inversion H; subst; auto.
    - apply Henv.
    - destruct (sec_loop subs pn f h ch s) as [[ch' s1]| |]; try discriminate. apply Hdp.
    - destruct (bg_loop subs pn f h ch s) as [[ch' s1]| |]; try discriminate. apply Hdp.
    - destruct (h_mode h =? 2); [apply Henv|]. destruct (skip_loop f true s); try discriminate. apply Henv.
    - destruct (skip_loop f false s) as [sk| |]; try discriminate.
      destruct (until_loop subs pn f UItem h ch sk) as [[[ch' e] s2]| |]; try discriminate.
      destruct (h_force h); [apply Hdp|intro H; inversion H; subst; auto].
    - destruct (until_loop subs pn f URow h ch s) as [[[ch' e] s1]| |]; try discriminate.
      destruct e; [|intro H; inversion H; subst; auto].
      destruct (next s1) as [[x s2]|]; try discriminate.
      destruct (digest subs pn f x s2) as [[x' s3]| |]; try discriminate. intro H; inversion H; subst; auto.
    - destruct (until_loop subs pn f UCell h ch s) as [[[ch' e] s1]| |]; try discriminate.
      destruct e as [[he se|he che]|]; try apply Hdp.
      destruct (h_cd he); [|apply Hdp].
      destruct (next s1) as [[x s2]|]; try discriminate.
      destruct (digest subs pn f x s2) as [[x' s3]| |]; try discriminate. apply Hdp.
    - destruct (next s) as [[e s1]|]; try discriminate.
      destruct (verb_loop f e ch (logd R_VERBOPEN e s1)) as [[ch' s2]| |]; try discriminate.
      intro H; inversion H; subst; auto.
    - destruct (digest_env subs pn f h ch s) as [[t1 s1]| |] eqn:E; try discriminate.
      apply digest_env_hd in E. destruct E as [ch1 ->].
      destruct (drop_border_rows ch1) as [[kk dd]|]; try discriminate. intro H; inversion H; subst; auto.
    - discriminate.
  Qed.

  Definition Jout {A} (st_of : A -> st) (o : outcome A) : Prop := match o with Done a => J (st_of a) | _ => True end.

  Definition J_stmt (f : nat) : Prop :=
    (forall n s, J s -> Jout snd (digest subs pn f n s)) /\
    (forall h ch s, J s -> Jout snd (digest_env subs pn f h ch s)) /\
    (forall h ch dp s, J s -> Jout snd (env_loop subs pn f h ch dp s)) /\
    (forall h ch s, J s -> Jout snd (sec_loop subs pn f h ch s)) /\
    (forall h ch s, J s -> Jout snd (bg_loop subs pn f h ch s)) /\
    (forall sel h ch s, J s ->
       match until_loop subs pn f sel h ch s with
       | Done (_, e, s') => J s' /\ (forall t, e = Some t -> endp sel t = true /\ exists s0, s' = push t s0)
       | _ => True end).

  Ltac nestedJ IHD t s1 HJ1 :=
    let H := fresh "Hd" in
    let t' := fresh "t'" in let s2 := fresh "s2" in let k := fresh "k" in
    pose proof (IHD t s1 HJ1) as H;
    destruct (digest subs pn _ t s1) as [[t' s2]| |k] eqn:?; [|exact I|exact I]; unfold Jout in H; simpl in H.

  Lemma J_all : forall f, J_stmt f.
  Proof.
    induction f as [|f IH].
    { repeat split; intros; exact I. }
    destruct IH as (IHD & IHE & IHL & IHS & IHB & IHU).
    unfold J_stmt. repeat split.
    - (* digest *)
      intros n s HJ. simpl. destruct n as [h0 s0|h ch]; [exact HJ|].
      destruct (h_kind h).
      + exact HJ.
      + exact HJ.
      + apply IHE. exact HJ.
      + pose proof (IHS h ch s HJ) as H. destruct (sec_loop subs pn f h ch s) as [[ch' s1]| |k]; [|exact I|exact I].
        apply J_do_paragraphs. exact H.
      + pose proof (IHB h ch s HJ) as H. destruct (bg_loop subs pn f h ch s) as [[ch' s1]| |k]; [|exact I|exact I].
        apply J_do_paragraphs. exact H.
      + destruct (h_mode h =? 2); [apply IHE; exact HJ|].
        pose proof (skip_loop_J f true s HJ) as H. destruct (skip_loop f true s) as [s1| |k]; [|exact I|exact I].
        apply IHE. exact H.
      + pose proof (skip_loop_J f false s HJ) as H. destruct (skip_loop f false s) as [s1| |k]; [|exact I|exact I].
        pose proof (IHU UItem h ch s1 H) as H2.
        destruct (until_loop subs pn f UItem h ch s1) as [[[ch' e] s2]| |k]; [|exact I|exact I].
        destruct H2 as [H2 _]. destruct (h_force h); [apply J_do_paragraphs|]; exact H2.
      + (* KRow *)
        pose proof (IHU URow h ch s HJ) as H2.
        destruct (until_loop subs pn f URow h ch s) as [[[ch' e] s1]| |k]; [|exact I|exact I].
        destruct H2 as [H2 He]. destruct e as [e|]; [|exact H2].
        destruct (He e eq_refl) as [Hend [s0 ->]]. rewrite next_push.
        assert (HJ0 : J (mkSt (s_buf s0) (s_rest s0) (s_mm s0) (s_log s0) (s_ev s0))) by exact H2.
        nestedJ IHD e (mkSt (s_buf s0) (s_rest s0) (s_mm s0) (s_log s0) (s_ev s0)) HJ0.
        apply J_logd; [|exact Hd]. simpl. do 3 right. left.
        match goal with E : digest _ _ _ _ _ = Done _ |- _ => apply digest_hd in E; destruct E as [Eh Ee] end.
        rewrite Eh, Ee. destruct e as [he se|he che]; [discriminate Hend|]. simpl in Hend. auto.
      + (* KCell *)
        pose proof (IHU UCell h ch s HJ) as H2.
        destruct (until_loop subs pn f UCell h ch s) as [[[ch' e] s1]| |k]; [|exact I|exact I].
        destruct H2 as [H2 He].
        destruct e as [[he se|he che]|]; try (apply J_do_paragraphs; exact H2).
        destruct (h_cd he) eqn:Ecd; [|apply J_do_paragraphs; exact H2].
        destruct (He _ eq_refl) as [Hend [s0 ->]]. rewrite next_push.
        assert (HJ0 : J (mkSt (s_buf s0) (s_rest s0) (s_mm s0) (s_log s0) (s_ev s0))) by exact H2.
        nestedJ IHD (Node he che) (mkSt (s_buf s0) (s_rest s0) (s_mm s0) (s_log s0) (s_ev s0)) HJ0.
        apply J_do_paragraphs. apply J_logd; [|exact Hd]. simpl. do 4 right. left.
        match goal with E : digest _ _ _ _ _ = Done _ |- _ => apply digest_hd in E; destruct E as [Eh Ee] end.
        rewrite Eh, Ee. auto.
      + (* KVerb *)
        destruct (next s) as [[e s1]|] eqn:Hn; [|exact I].
        pose proof (J_eq _ _ (next_log _ _ _ Hn) HJ) as HJ1.
        assert (HJ2 : J (logd R_VERBOPEN e s1)) by (apply J_logd; [simpl; do 5 right; left; reflexivity|exact HJ1]).
        pose proof (verb_loop_J f e ch _ HJ2) as H.
        destruct (verb_loop f e ch (logd R_VERBOPEN e s1)) as [[ch' s2]| |k]; [|exact I|exact I]. exact H.
      + (* KArray *)
        pose proof (IHE h ch s HJ) as H. destruct (digest_env subs pn f h ch s) as [[t1 s1]| |k]; [|exact I|exact I].
        destruct t1 as [h1 x1|h1 ch1]; [exact H|].
        destruct (drop_border_rows ch1) as [[kk dd]|] eqn:Eb; [|exact I].
        apply J_logds; [eapply drop_border_rows_just; exact Eb|exact H].
      + exact I.
    - (* digest_env *)
      intros h ch s HJ. simpl. destruct (h_mode h =? 2); [exact HJ|].
      pose proof (IHL h ch (h_force h) s HJ) as H.
      destruct (env_loop subs pn f h ch (h_force h) s) as [[[ch' dp] s1]| |k]; [|exact I|exact I].
      destruct dp; [apply J_do_paragraphs|]; exact H.
    - (* env_loop *)
      intros h ch dp s HJ. simpl.
      destruct (next s) as [[t s1]|] eqn:Hn; [|exact HJ].
      pose proof (J_eq _ _ (next_log _ _ _ Hn) HJ) as HJ1.
      destruct (level t =? PAR_LEVEL); [apply IHL; exact HJ1|].
      destruct (level t <? h_level h); [exact HJ1|].
      destruct (is_elem t && (h_mode (hd_of t) =? 2) && (h_typ (hd_of t) =? h_typ h)) eqn:Eend.
      { apply J_logd; [|exact HJ1]. simpl. left. apply andb_true_iff in Eend. destruct Eend as [Eend _].
        apply andb_true_iff in Eend. destruct Eend as [E1 E2]. apply Z.eqb_eq in E2. auto. }
      destruct (is_elem t).
      + nestedJ IHD t s1 HJ1.
        destruct ((DOC_LEVEL <? h_level h) && (depth t' <? h_depth h)).
        { simpl. eapply J_eq; [|exact Hd]. simpl. apply ev_if_log. }
        apply IHL. exact Hd.
      + destruct ((DOC_LEVEL <? h_level h) && (depth t <? h_depth h)).
        { simpl. eapply J_eq; [|exact HJ1]. simpl. apply ev_if_log. }
        apply IHL. exact HJ1.
    - (* sec_loop *)
      intros h ch s HJ. simpl.
      destruct (next s) as [[t s1]|] eqn:Hn; [|exact HJ].
      pose proof (J_eq _ _ (next_log _ _ _ Hn) HJ) as HJ1.
      destruct (level t <=? h_level h); [exact HJ1|].
      destruct (is_elem t).
      + nestedJ IHD t s1 HJ1. apply IHS. exact Hd.
      + apply IHS. exact HJ1.
    - (* bg_loop *)
      intros h ch s HJ. simpl.
      destruct (next s) as [[t s1]|] eqn:Hn; [|exact HJ].
      pose proof (J_eq _ _ (next_log _ _ _ Hn) HJ) as HJ1.
      destruct t as [ht st0|ht cht]; [apply IHB; exact HJ1|].
      destruct (h_level ht <? ENDSECTIONS_LEVEL); [exact HJ1|].
      destruct (h_eg ht) eqn:Eeg.
      { apply J_logd; [|exact HJ1]. simpl. do 9 right. auto. }
      destruct (h_depth ht <? h_depth h); [exact HJ1|].
      nestedJ IHD (Node ht cht) s1 HJ1. apply IHB. exact Hd.
    - (* until_loop *)
      intros sel h ch s HJ. simpl.
      destruct (next s) as [[t s1]|] eqn:Hn; [|split; [exact HJ|intros t0 X; discriminate X]].
      pose proof (J_eq _ _ (next_log _ _ _ Hn) HJ) as HJ1.
      destruct (endp sel t) eqn:Eend.
      { split; [exact HJ1|]. intros t0 X. inversion X; subst. split; [exact Eend|exists s1; reflexivity]. }
      destruct (is_elem t).
      + assert (HJ1' : J (ev_if (low (level t)) E_NESTEDSEC t s1)) by (eapply J_eq; [apply ev_if_log|exact HJ1]).
        nestedJ IHD t (ev_if (low (level t)) E_NESTEDSEC t s1) HJ1'.
        destruct (depth t' <? h_depth h); [split; [exact Hd|intros t0 X; discriminate X]|].
        apply IHU. exact Hd.
      + destruct (depth t <? h_depth h); [split; [exact HJ1|intros t0 X; discriminate X]|].
        apply IHU. exact HJ1.
  Qed.

  Lemma parse_top_J : forall f out s, J s -> Jout snd (parse_top subs pn f out s).
  Proof.
    induction f as [|f IH]; intros out s HJ; simpl; [exact I|].
    destruct (next s) as [[t s1]|] eqn:Hn; [|exact HJ].
    pose proof (J_eq _ _ (next_log _ _ _ Hn) HJ) as HJ1.
    destruct (J_all f) as (IHD & _).
    destruct (is_elem t).
    - nestedJ IHD t s1 HJ1. apply IH. exact Hd.
    - apply IH. exact HJ1.
  Qed.

  (* M1b *)
  Theorem dropped_are_markers : forall ts forest s',
    parse_doc subs pn ts = Done (forest, s') -> Forall justified (s_log s').
  Proof.
    intros ts forest s' H. unfold parse_doc in H.
    pose proof (parse_top_J (fuel_for ts) [] (init_st ts)) as P. rewrite H in P. apply P. constructor.
  Qed.
End Dropped.

(* ================================================================================================ *)
(* a concrete stream for the non-vacuity examples:
   \begin{document}a\par\section{Wa}b {c--d}\par\subsection{Wb}e\begin{itemize} \item f\end{itemize}\section{Wc}g\end{document}  *)
(* ================================================================================================ *)

Definition ex_head (k : kind) (name lvl dep mode typ : Z) (args : list (list Z)) : head :=
  mkHead k name lvl dep mode false false false false false typ false false false false false false false (-1) false args.
Definition ex_txt (c : Z) (dep : Z) : tree :=
  Text (mkHead KText (-1) CHAR_LEVEL dep 0 false false (c =? 32) false false (-1) false false false false false false false 11 false []) [c].
Definition ex_par (dep : Z) : tree :=
  Node (mkHead KLeaf 0 PAR_LEVEL dep 0 false false false true false 9 false false false false false false false (-1) false []) [].
Definition ex_egroup (dep : Z) : tree :=
  Node (mkHead KLeaf 7 CHAR_LEVEL dep 0 false false false false false 8 true false false false false false false (-1) false []) [].
Definition ex_item (dep : Z) : tree :=
  Node (mkHead KItem 6 CHAR_LEVEL dep 0 false true false false false 7 false true false false false false false (-1) false []) [].
Definition ex_list (mode dep : Z) : tree :=
  Node (mkHead KList 5 201 dep mode true false false false false 5 false false false false false false false (-1) false []) [].

Definition ex_stream : list tree :=
  [ Node (ex_head KEnv 2 DOC_LEVEL 2 1 1 []) []; ex_txt 97 2; ex_par 2;
    Node (ex_head KSec 3 1 2 0 3 [[87; 97]]) []; ex_txt 98 2; ex_txt 32 2;
    Node (ex_head KBgroup 4 CHAR_LEVEL 3 0 4 []) []; ex_txt 99 3; ex_txt 45 3; ex_txt 45 3; ex_txt 100 3; ex_egroup 2; ex_par 2;
    Node (ex_head KSec 10 2 2 0 10 [[87; 98]]) []; ex_txt 101 2;
    ex_list 1 3; ex_txt 32 3; ex_item 3; ex_txt 102 3; ex_list 2 2;
    Node (ex_head KSec 3 1 2 0 3 [[87; 99]]) []; ex_txt 103 2;
    Node (ex_head KEnv 2 DOC_LEVEL 1 2 1 []) []; ex_txt 32 1 ].

Definition ex_subs : list (list Z * list Z) :=
  [([96; 96], [8220]); ([39; 39], [8221]); ([34; 96], [8222]); ([34; 39], [8220]); ([96], [8216]); ([39], [8217]);
   ([45; 45; 45], [8212]); ([45; 45], [8211])].

(* the standard choice of visible nodes never shows a created paragraph node *)
Lemma vis_std_par pn b : vis_std (par_head pn b) = false.
Proof. destruct b; reflexivity. Qed.

(* ================================================================================================ *)
(* Well-nested input is parsed into exactly its syntax tree                                           *)
(* ================================================================================================ *)

Lemma ast_ind2 (P : ast -> Prop) :
  (forall h s, P (AText h s)) -> (forall h pre, P (ALeaf h pre)) ->
  (forall h he body, Forall P body -> P (AEnv h he body)) -> forall a, P a.
Proof.
  intros HT HL HE. fix IH 1. intros [h s|h pre|h he body]; [apply HT|apply HL|apply HE].
  induction body as [|b body IHb]; constructor; [apply IH|exact IHb].
Qed.

Definition St (rest : list tree) (mm : bool) (log ev : list (Z * tree)) : st := mkSt [] rest mm log ev.

Arguments St : simpl never.

Lemma next_St t r mm log ev : next (St (t :: r) mm log ev) = Some (t, St r (h_mm (hd_of t)) log ev).
Proof. reflexivity. Qed.

Definition allend (log : list (Z * tree)) : Prop := Forall (fun e => fst e = R_END) log.

Lemma print_head a : exists t0 r0, print a = t0 :: r0 /\ hd_of t0 = hd_of (den a) /\ is_elem t0 = is_elem (den a) /\
                                     level t0 = level (den a) /\ depth t0 = depth (den a).
Proof. destruct a as [h s|h pre|h he body]; simpl; eexists; eexists; repeat split. Qed.

Section NF.
  Context (subs : list (list Z * list Z)) (pn : Z).

  Lemma env_loop_S f h ch dp s :
    env_loop subs pn (S f) h ch dp s =
    match next s with
    | None => Done (ch, dp, s)
    | Some (t, s1) =>
        if level t =? PAR_LEVEL then env_loop subs pn f h (ch ++ [t]) true s1
        else if level t <? h_level h then Done (ch, dp, push t s1)
        else if is_elem t && (h_mode (hd_of t) =? 2) && (h_typ (hd_of t) =? h_typ h) then Done (ch, dp, logd R_END t s1)
        else
          match (if is_elem t then digest subs pn f t s1 else Done (t, s1)) with
          | Done (t', s2) =>
              if (DOC_LEVEL <? h_level h) && (depth t' <? h_depth h)
              then Done (ch, dp, push t' (ev_if (low (level t')) E_REPUSH t' s2))
              else env_loop subs pn f h (ch ++ [t']) dp s2
          | OutOfFuel => OutOfFuel
          | Crashed k => Crashed k
          end
    end.
  Proof. reflexivity. Qed.

  Lemma digest_S_env f h ch s : h_kind h = KEnv -> digest subs pn (S f) (Node h ch) s = digest_env subs pn f h ch s.
  Proof. intro H. simpl. rewrite H. reflexivity. Qed.
  Lemma digest_S_leaf f h ch s : h_kind h = KLeaf \/ h_kind h = KText -> digest subs pn (S f) (Node h ch) s = Done (Node h ch, s).
  Proof. intros [H|H]; simpl; rewrite H; reflexivity. Qed.
  Lemma digest_env_S f h ch s : (h_mode h =? 2) = false ->
    digest_env subs pn (S f) h ch s =
    match env_loop subs pn f h ch (h_force h) s with
    | Done (ch', dopars, s1) => if dopars then Done (do_paragraphs subs pn true h ch' s1) else Done (Node h ch', s1)
    | OutOfFuel => OutOfFuel
    | Crashed k => Crashed k
    end.
  Proof. intro H. simpl. rewrite H. reflexivity. Qed.
  Lemma parse_top_S f out s :
    parse_top subs pn (S f) out s =
    match next s with
    | None => Done (out, s)
    | Some (t, s1) =>
        match (if is_elem t then digest subs pn f t s1 else Done (t, s1)) with
        | Done (t', s2) => parse_top subs pn f (out ++ [t']) s2
        | OutOfFuel => OutOfFuel
        | Crashed k => Crashed k
        end
    end.
  Proof. reflexivity. Qed.

  Definition Dst (a : ast) : Prop :=
    ok a -> forall f r mm log ev, (2 * length (print a) <= f)%nat -> allend log ->
    match print a with
    | [] => True
    | t0 :: r0 =>
        exists mm' log',
          (if is_elem t0 then digest subs pn f t0 (St (r0 ++ r) mm log ev) else Done (t0, St (r0 ++ r) mm log ev))
          = Done (den a, St r mm' log' ev) /\ allend log'
    end.

  Lemma nf_loop h he : h_mode he = 2 -> h_typ he = h_typ h -> h_level he <> PAR_LEVEL -> h_level h <= h_level he ->
    forall body, Forall Dst body -> oks ok (fits h) body ->
    forall f ch0 r mm log ev, (2 * length (flat_map print body) + 1 <= f)%nat -> allend log ->
    exists mm' log',
      env_loop subs pn f h ch0 false (St (flat_map print body ++ Node he [] :: r) mm log ev)
      = Done (ch0 ++ map den body, false, St r mm' log' ev) /\ allend log'.
  Proof.
    intros Hm Ht Hlp Hle. induction body as [|b body IHb]; intros HD Hok f ch0 r mm log ev Hf Hlog.
    - destruct f as [|f]; [simpl in Hf; lia|]. cbn [flat_map app map]. rewrite env_loop_S, next_St.
      assert (E1 : (level (Node he []) =? PAR_LEVEL) = false) by (apply Z.eqb_neq; exact Hlp).
      assert (E2 : (level (Node he []) <? h_level h) = false) by (apply Z.ltb_ge; exact Hle).
      rewrite E1, E2. cbn [is_elem hd_of andb]. rewrite Hm, Ht, !Z.eqb_refl. cbn [andb].
      eexists. eexists. split; [rewrite app_nil_r; reflexivity|]. constructor; [reflexivity|exact Hlog].
    - inversion HD as [|? ? HDb HDbody]; subst. destruct Hok as (Hokb & Hfit & Hokbody).
      cbn [flat_map map]. rewrite <- app_assoc.
      destruct (print_head b) as (t0 & r0 & Ep & Ehd & Eel & Elv & Edp).
      unfold Dst in HDb. rewrite Ep in HDb. rewrite Ep. cbn [app].
      cbn [flat_map] in Hf. rewrite app_length in Hf. rewrite Ep in Hf. cbn [length] in Hf.
      destruct f as [|f]; [lia|]. rewrite env_loop_S, next_St.
      destruct Hfit as (F1 & F2 & F3 & F4).
      assert (E1 : (level t0 =? PAR_LEVEL) = false) by (apply Z.eqb_neq; rewrite Elv; exact F1).
      assert (E2 : (level t0 <? h_level h) = false) by (apply Z.ltb_ge; rewrite Elv; exact F2).
      rewrite E1, E2.
      assert (E3 : is_elem t0 && (h_mode (hd_of t0) =? 2) && (h_typ (hd_of t0) =? h_typ h) = false).
      { rewrite Eel, Ehd. destruct (is_elem (den b)) eqn:Ee; [|reflexivity]. cbn [andb].
        destruct (h_mode (hd_of (den b)) =? 2) eqn:Em; [|reflexivity]. cbn [andb].
        apply Z.eqb_eq in Em. apply Z.eqb_neq. apply F3; [reflexivity|exact Em]. }
      rewrite E3.
      destruct (HDb Hokb f (flat_map print body ++ Node he [] :: r) (h_mm (hd_of t0)) log ev) as (mm1 & log1 & Hd & Hl1);
        [cbn [length]; lia|exact Hlog|].
      rewrite Hd.
      assert (E4 : (DOC_LEVEL <? h_level h) && (depth (den b) <? h_depth h) = false).
      { destruct (DOC_LEVEL <? h_level h) eqn:Ed; [|reflexivity]. cbn [andb]. apply Z.ltb_lt in Ed. apply Z.ltb_ge. apply F4. exact Ed. }
      assert (Edd : depth (den b) = depth_of (den b)) by reflexivity.
      rewrite E4.
      destruct (IHb HDbody Hokbody f (ch0 ++ [den b]) r mm1 log1 ev) as (mm2 & log2 & Hl & Hl2); [lia|exact Hl1|].
      rewrite Hl. eexists. eexists. split; [rewrite <- app_assoc; reflexivity|exact Hl2].
  Qed.

  Lemma nf_digest : forall a, Dst a.
  Proof.
    induction a as [h s|h pre|h he body IH] using ast_ind2; unfold Dst; intros Hok f r mm log ev Hf Hlog.
    - cbn [print is_elem app den]. eexists. eexists. split; [reflexivity|exact Hlog].
    - cbn [print is_elem app den]. cbn [print length] in Hf. destruct f as [|f]; [lia|].
      simpl in Hok. rewrite digest_S_leaf by exact Hok. eexists. eexists. split; [reflexivity|exact Hlog].
    - cbn [print is_elem den]. cbn [print length] in Hf. rewrite app_length in Hf. cbn [length] in Hf.
      cbn [ok] in Hok. destruct Hok as (Hk & Hm & Hfo & Hme & Hte & Hlp & Hle & Hoks).
      destruct f as [|f]; [lia|]. rewrite digest_S_env by exact Hk.
      destruct f as [|f]; [lia|].
      assert (Em : (h_mode h =? 2) = false) by (apply Z.eqb_neq; exact Hm). rewrite digest_env_S by exact Em. rewrite Hfo.
      rewrite <- app_assoc. cbn [app].
      destruct (nf_loop h he Hme Hte Hlp Hle body IH Hoks f [] r mm log ev) as (mm1 & log1 & Hl & Hl1); [lia|exact Hlog|].
      rewrite Hl. eexists. eexists. split; [reflexivity|exact Hl1].
  Qed.

  Lemma nf_top : forall l, oks ok (fun _ => True) l ->
    forall f out mm log ev, (2 * length (flat_map print l) + 1 <= f)%nat -> allend log ->
    exists mm' log', parse_top subs pn f out (St (flat_map print l) mm log ev) = Done (out ++ map den l, St [] mm' log' ev) /\ allend log'.
  Proof.
    induction l as [|b l IH]; intros Hok f out mm log ev Hf Hlog.
    - destruct f as [|f]; [lia|]. cbn [flat_map map]. rewrite parse_top_S. change (next (St [] mm log ev)) with (@None (tree * st)).
      eexists. eexists. split; [rewrite app_nil_r; reflexivity|exact Hlog].
    - destruct Hok as (Hokb & _ & Hokl). cbn [flat_map map].
      destruct (print_head b) as (t0 & r0 & Ep & Ehd & Eel & Elv & Edp).
      pose proof (nf_digest b) as HDb. unfold Dst in HDb. rewrite Ep in HDb. rewrite Ep. cbn [app].
      cbn [flat_map] in Hf. rewrite app_length, Ep in Hf. cbn [length] in Hf.
      destruct f as [|f]; [lia|]. rewrite parse_top_S, next_St.
      destruct (HDb Hokb f (flat_map print l) (h_mm (hd_of t0)) log ev) as (mm1 & log1 & Hd & Hl1);
        [cbn [length]; lia|exact Hlog|].
      rewrite Hd.
      destruct (IH Hokl f (out ++ [den b]) mm1 log1 ev) as (mm2 & log2 & Hl & Hl2); [lia|exact Hl1|].
      rewrite Hl. eexists. eexists. split; [rewrite <- app_assoc; reflexivity|exact Hl2].
  Qed.

  (* parsing the printed form of well-nested syntax trees gives back exactly those trees; nothing is pushed back, the only items
     dropped are the \end markers, no sectioning event *)
  Theorem nf_parse : forall l, oks ok (fun _ => True) l ->
    exists s', parse_doc subs pn (flat_map print l) = Done (map den l, s') /\
               s_buf s' = [] /\ s_rest s' = [] /\ s_ev s' = [] /\ Forall (fun e => fst e = R_END) (s_log s').
  Proof.
    intros l Hok. unfold parse_doc, init_st.
    destruct (nf_top l Hok (fuel_for (flat_map print l)) [] false [] []) as (mm' & log' & H & Hl);
      [unfold fuel_for; lia|constructor|].
    change (mkSt [] (flat_map print l) false [] []) with (St (flat_map print l) false [] []).
    rewrite H. eexists. split; [reflexivity|]. repeat split. exact Hl.
  Qed.
End NF.

(* a concrete well-nested document for the non-vacuity example:
   \documentclass{article}\begin{document}a\begin{quote}b\cmd{c}\end{quote}d\end{document}  *)
Definition ex_nf : list ast :=
  [ ALeaf (ex_head KLeaf 1 CHAR_LEVEL 1 0 20 []) [];
    AEnv (ex_head KEnv 2 DOC_LEVEL 2 1 1 []) (ex_head KEnv 2 DOC_LEVEL 1 2 1 [])
      [ AText (hd_of (ex_txt 97 2)) [97];
        AEnv (ex_head KEnv 11 201 3 1 11 []) (ex_head KEnv 11 201 2 2 11 [])
          [ AText (hd_of (ex_txt 98 3)) [98]; ALeaf (ex_head KLeaf 12 CHAR_LEVEL 3 0 12 []) [ex_txt 99 4] ];
        AText (hd_of (ex_txt 100 2)) [100] ] ].

Lemma ex_nf_ok : oks ok (fun _ => True) ex_nf.
Proof.
  cbn. unfold fits, level, depth_of, ex_head, ex_txt, hd_of, is_elem, DOC_LEVEL, PAR_LEVEL, CHAR_LEVEL; cbn.
  repeat split; auto; try discriminate; try (intros; discriminate); try (intros; lia); try lia.
Qed.

(* ================================================================================================ *)
(* Well-nested input with sectioning: parsed into its syntax tree, sections grouped by Macro.paragraphs *)
(* ================================================================================================ *)

Inductive sast :=
| SText (h : head) (s : list Z)
| SLeaf (h : head) (pre : list tree)
| SEnv (h he : head) (body : list sast)
| SSec (h : head) (body : list sast).

Lemma sast_ind2 (P : sast -> Prop) :
  (forall h s, P (SText h s)) -> (forall h pre, P (SLeaf h pre)) ->
  (forall h he body, Forall P body -> P (SEnv h he body)) ->
  (forall h body, Forall P body -> P (SSec h body)) -> forall a, P a.
Proof.
  intros HT HL HE HS. fix IH 1. intros [h s|h pre|h he body|h body]; [apply HT|apply HL|apply HE|apply HS];
    induction body as [|b body IHb]; constructor; try apply IH; exact IHb.
Qed.

Fixpoint sprint (a : sast) : list tree :=
  match a with
  | SText h s => [Text h s]
  | SLeaf h pre => [Node h pre]
  | SEnv h he body => Node h [] :: flat_map sprint body ++ [Node he []]
  | SSec h body => Node h [] :: flat_map sprint body
  end.

(* the stream as the functions see it: push-back stack in front of the expander output; mathematics flag off *)
Definition Rd (s : st) (l : list tree) (log ev : list (Z * tree)) : Prop :=
  s_buf s ++ s_rest s = l /\ s_mm s = false /\ s_log s = log /\ s_ev s = ev.

Definition mm0 (t : tree) : Prop := h_mm (hd_of t) = false.

Lemma Rd_next s t l log ev : Rd s (t :: l) log ev -> mm0 t -> exists s1, next s = Some (t, s1) /\ Rd s1 l log ev.
Proof.
  intros (Hi & Hm & Hl & He) Ht. destruct s as [b r m lg e]. simpl in *. subst. unfold next; simpl.
  destruct b as [|x b]; simpl in Hi.
  - subst r. eexists. split; [reflexivity|]. repeat split. exact Ht.
  - inversion Hi; subst. eexists. split; [reflexivity|]. repeat split.
Qed.

Lemma Rd_nil s log ev : Rd s [] log ev -> next s = None.
Proof.
  intros (Hi & _). destruct s as [b r m lg e]. simpl in *. apply app_eq_nil in Hi. destruct Hi; subst. reflexivity.
Qed.

Lemma Rd_push s t l log ev : Rd s l log ev -> Rd (push t s) (t :: l) log ev.
Proof. intros (Hi & Hm & Hl & He). repeat split; simpl; try assumption. f_equal. exact Hi. Qed.

Lemma Rd_logd s k t l log ev : Rd s l log ev -> Rd (logd k t s) l ((k, t) :: log) ev.
Proof. intros (Hi & Hm & Hl & He). repeat split; simpl; try assumption. f_equal. exact Hl. Qed.

Definition logok (log : list (Z * tree)) : Prop := Forall (fun e => fst e = R_END \/ fst e = R_EMPTYPAR) log.

Lemma logok_logds ts s : logok (s_log s) -> logok (s_log (logds R_EMPTYPAR ts s)).
Proof.
  unfold logds. revert s. induction ts as [|t ts IH]; intros s H; simpl; [exact H|].
  apply IH. simpl. constructor; [right; reflexivity|exact H].
Qed.

Section NF2.
  Context (subs : list (list Z * list Z)) (pn : Z).

  Fixpoint sden (a : sast) : tree :=
    match a with
    | SText h s => Text h s
    | SLeaf h pre => Node h pre
    | SEnv h he body => Node h (map sden body)
    | SSec h body => Node h (fst (paragraphs subs pn false true h (map sden body)))
    end.

  Lemma sprint_head a : exists t0 r0, sprint a = t0 :: r0 /\ hd_of t0 = hd_of (sden a) /\ is_elem t0 = is_elem (sden a) /\
                                        level t0 = level (sden a) /\ depth t0 = depth (sden a).
  Proof. destruct a as [h s|h pre|h he body|h body]; simpl; eexists; eexists; repeat split. Qed.

  Definition follow (a : sast) (L : option Z) : Prop :=
    match a, L with SSec h _, Some l => l <= h_level h | _, _ => True end.

  Fixpoint chain (l : list sast) (B : option Z) : Prop :=
    match l with
    | [] => True
    | b :: l' => match l' with [] => follow b B | b' :: _ => follow b (Some (level (sden b'))) end /\ chain l' B
    end.

  Section Oks2.
    Context (okf : sast -> Prop) (fit : tree -> Prop).
    Fixpoint oks2 (l : list sast) : Prop :=
      match l with [] => True | b :: l' => okf b /\ fit (sden b) /\ oks2 l' end.
  End Oks2.

  Fixpoint sast_ok (a : sast) : Prop :=
    match a with
    | SText h _ => h_mm h = false
    | SLeaf h _ => (h_kind h = KLeaf \/ h_kind h = KText) /\ h_mm h = false
    | SEnv h he body =>
        h_kind h = KEnv /\ h_mode h <> 2 /\ h_force h = false /\ h_mm h = false /\ h_mm he = false /\
        h_mode he = 2 /\ h_typ he = h_typ h /\ h_level he <> PAR_LEVEL /\ h_level h <= h_level he /\
        (fix go (l : list sast) : Prop := match l with [] => True | b :: l' => sast_ok b /\ fits h (sden b) /\ go l' end) body /\
        chain body (Some (h_level he))
    | SSec h body =>
        h_kind h = KSec /\ h_mm h = false /\
        (fix go (l : list sast) : Prop := match l with [] => True | b :: l' => sast_ok b /\ h_level h < level (sden b) /\ go l' end) body /\
        chain body (Some (h_level h))
    end.

  Lemma sok_mm : forall a, sast_ok a -> Forall mm0 (sprint a).
  Proof.
    induction a as [h s|h pre|h he body IH|h body IH] using sast_ind2; simpl; intro H.
    - constructor; [exact H|constructor].
    - constructor; [apply H|constructor].
    - destruct H as (_ & _ & _ & Hm & Hme & _ & _ & _ & _ & Hb & _). constructor; [exact Hm|].
      apply Forall_app. split; [|constructor; [exact Hme|constructor]].
      induction IH as [|b body Hb1 _ IHb]; simpl; [constructor|]. destruct Hb as (H1 & _ & H3).
      apply Forall_app. split; [apply Hb1; exact H1|apply IHb; exact H3].
    - destruct H as (_ & Hm & Hb & _). constructor; [exact Hm|].
      induction IH as [|b body Hb1 _ IHb]; simpl; [constructor|]. destruct Hb as (H1 & _ & H3).
      apply Forall_app. split; [apply Hb1; exact H1|apply IHb; exact H3].
  Qed.

  (* what must stand behind [a] in the stream: behind a section, nothing or an item of a level not above its own *)
  Definition behind (a : sast) (r : list tree) : Prop :=
    match a, r with SSec h _, t :: _ => level t <= h_level h | _, _ => True end.

  Definition Dst2 (a : sast) : Prop :=
    sast_ok a -> forall f s1 r log ev, (2 * length (sprint a) <= f)%nat -> logok log -> Forall mm0 r -> behind a r ->
    match sprint a with
    | [] => True
    | t0 :: r0 =>
        Rd s1 (r0 ++ r) log ev ->
        exists s' log',
          (if is_elem t0 then digest subs pn f t0 s1 else Done (t0, s1)) = Done (sden a, s') /\ Rd s' r log' ev /\ logok log'
    end.

  Lemma sec_loop_S f h ch s :
    sec_loop subs pn (S f) h ch s =
    match next s with
    | None => Done (ch, s)
    | Some (t, s1) =>
        if level t <=? h_level h then Done (ch, push t s1)
        else match (if is_elem t then digest subs pn f t s1 else Done (t, s1)) with
             | Done (t', s2) => sec_loop subs pn f h (ch ++ [t']) s2
             | OutOfFuel => OutOfFuel
             | Crashed k => Crashed k
             end
    end.
  Proof. reflexivity. Qed.

  Lemma digest_S_sec f h ch s : h_kind h = KSec ->
    digest subs pn (S f) (Node h ch) s =
    match sec_loop subs pn f h ch s with
    | Done (ch', s1) => Done (do_paragraphs subs pn true h ch' s1)
    | OutOfFuel => OutOfFuel
    | Crashed k => Crashed k
    end.
  Proof. intro H. simpl. rewrite H. reflexivity. Qed.

  (* the level of what stands first in  (prints l ++ tail) *)
  Lemma behind_chain b body tail B :
    (match body with [] => follow b B | b' :: _ => follow b (Some (level (sden b'))) end) ->
    (match B with Some l => match tail with [] => True | t :: _ => level t <= l end | None => tail = [] end) ->
    behind b (flat_map sprint body ++ tail).
  Proof.
    intros Hf Ht. destruct b as [h s|h pre|h he bb|h bb]; simpl; try exact I.
    destruct body as [|b' body]; simpl.
    - destruct tail as [|t tail]; [exact I|]. destruct B as [l|]; [simpl in Hf; lia|discriminate Ht].
    - destruct (sprint_head b') as (t0 & r0 & Ep & _ & _ & Elv & _). rewrite Ep. simpl. rewrite Elv. exact Hf.
  Qed.

  Lemma oks2_mm fit : forall l, oks2 sast_ok fit l -> Forall mm0 (flat_map sprint l).
  Proof.
    induction l as [|b l IH]; simpl; [constructor|]. intros (H1 & _ & H3).
    apply Forall_app. split; [apply sok_mm; exact H1|apply IH; exact H3].
  Qed.

  Lemma Rd_logds ts l ev : forall s, s_buf s ++ s_rest s = l -> s_mm s = false -> s_ev s = ev ->
    Rd (logds R_EMPTYPAR ts s) l (s_log (logds R_EMPTYPAR ts s)) ev.
  Proof.
    unfold logds. induction ts as [|t ts IH]; intros s Hi Hm He; simpl; [repeat split; assumption|].
    apply IH; simpl; assumption.
  Qed.

  Lemma nf2_env_loop h he : h_mode he = 2 -> h_typ he = h_typ h -> h_level he <> PAR_LEVEL -> h_level h <= h_level he ->
    h_mm he = false ->
    forall body, Forall Dst2 body -> oks2 sast_ok (fits h) body -> chain body (Some (h_level he)) ->
    forall f ch0 s r log ev, (2 * length (flat_map sprint body) + 1 <= f)%nat -> logok log -> Forall mm0 r ->
    Rd s (flat_map sprint body ++ Node he [] :: r) log ev ->
    exists s' log', env_loop subs pn f h ch0 false s = Done (ch0 ++ map sden body, false, s') /\ Rd s' r log' ev /\ logok log'.
  Proof.
    intros Hm Ht Hlp Hle Hmm. induction body as [|b body IHb]; intros HD Hok Hch f ch0 s r log ev Hf Hlog Hr HRd.
    - destruct f as [|f]; [simpl in Hf; lia|]. cbn [flat_map app map] in *.
      destruct (Rd_next _ _ _ _ _ HRd Hmm) as (s1 & Hn & HRd1). rewrite env_loop_S, Hn.
      assert (E1 : (level (Node he []) =? PAR_LEVEL) = false) by (apply Z.eqb_neq; exact Hlp).
      assert (E2 : (level (Node he []) <? h_level h) = false) by (apply Z.ltb_ge; exact Hle).
      rewrite E1, E2. cbn [is_elem hd_of andb]. rewrite Hm, Ht, !Z.eqb_refl. cbn [andb].
      eexists. eexists. split; [rewrite app_nil_r; reflexivity|]. split; [apply Rd_logd; exact HRd1|].
      constructor; [left; reflexivity|exact Hlog].
    - inversion HD as [|? ? HDb HDbody]; subst. destruct Hok as (Hokb & Hfit & Hokbody). destruct Hch as (Hfol & Hchain).
      cbn [flat_map map] in *. rewrite <- app_assoc in HRd.
      destruct (sprint_head b) as (t0 & r0 & Ep & Ehd & Eel & Elv & Edp).
      unfold Dst2 in HDb. rewrite Ep in HDb. rewrite Ep in HRd. cbn [app] in HRd.
      rewrite app_length in Hf. rewrite Ep in Hf. cbn [length] in Hf.
      destruct f as [|f]; [lia|].
      assert (Hmb : Forall mm0 (sprint b)) by (apply sok_mm; exact Hokb). rewrite Ep in Hmb. inversion Hmb as [|? ? Hm0 Hmr0]; subst.
      destruct (Rd_next _ _ _ _ _ HRd Hm0) as (s1 & Hn & HRd1). rewrite env_loop_S, Hn.
      destruct Hfit as (F1 & F2 & F3 & F4).
      assert (E1 : (level t0 =? PAR_LEVEL) = false) by (apply Z.eqb_neq; rewrite Elv; exact F1).
      assert (E2 : (level t0 <? h_level h) = false) by (apply Z.ltb_ge; rewrite Elv; exact F2).
      rewrite E1, E2.
      assert (E3 : is_elem t0 && (h_mode (hd_of t0) =? 2) && (h_typ (hd_of t0) =? h_typ h) = false).
      { rewrite Eel, Ehd. destruct (is_elem (sden b)) eqn:Ee; [|reflexivity]. cbn [andb].
        destruct (h_mode (hd_of (sden b)) =? 2) eqn:Em; [|reflexivity]. cbn [andb].
        apply Z.eqb_eq in Em. apply Z.eqb_neq. apply F3; [reflexivity|exact Em]. }
      rewrite E3.
      assert (Hr' : Forall mm0 (flat_map sprint body ++ Node he [] :: r)).
      { apply Forall_app. split; [eapply oks2_mm; exact Hokbody|constructor; [exact Hmm|exact Hr]]. }
      destruct (HDb Hokb f s1 (flat_map sprint body ++ Node he [] :: r) log ev) as (s2 & log1 & Hd & HRd2 & Hl1);
        [cbn [length]; lia|exact Hlog|exact Hr'| |exact HRd1|].
      { eapply behind_chain; [exact Hfol|]. simpl. lia. }
      rewrite Hd.
      assert (E4 : (DOC_LEVEL <? h_level h) && (depth (sden b) <? h_depth h) = false).
      { destruct (DOC_LEVEL <? h_level h) eqn:Ed; [|reflexivity]. cbn [andb]. apply Z.ltb_lt in Ed. apply Z.ltb_ge. apply F4. exact Ed. }
      rewrite E4.
      destruct (IHb HDbody Hokbody Hchain f (ch0 ++ [sden b]) s2 r log1 ev) as (s3 & log2 & Hl & HRd3 & Hl2); [lia|exact Hl1|exact Hr|exact HRd2|].
      rewrite Hl. eexists. eexists. split; [rewrite <- app_assoc; reflexivity|]. split; eassumption.
  Qed.

  Lemma nf2_sec_loop h :
    forall body, Forall Dst2 body -> oks2 sast_ok (fun t => h_level h < level t) body -> chain body (Some (h_level h)) ->
    forall f ch0 s r log ev, (2 * length (flat_map sprint body) + 1 <= f)%nat -> logok log -> Forall mm0 r ->
    (match r with [] => True | t :: _ => level t <= h_level h end) ->
    Rd s (flat_map sprint body ++ r) log ev ->
    exists s' log', sec_loop subs pn f h ch0 s = Done (ch0 ++ map sden body, s') /\ Rd s' r log' ev /\ logok log'.
  Proof.
    induction body as [|b body IHb]; intros HD Hok Hch f ch0 s r log ev Hf Hlog Hr Hbeh HRd.
    - destruct f as [|f]; [simpl in Hf; lia|]. cbn [flat_map app map] in *. rewrite sec_loop_S.
      destruct r as [|t r].
      + rewrite (Rd_nil _ _ _ HRd). eexists. eexists. split; [rewrite app_nil_r; reflexivity|]. split; eassumption.
      + inversion Hr as [|? ? Hm0 Hr']; subst.
        destruct (Rd_next _ _ _ _ _ HRd Hm0) as (s1 & Hn & HRd1). rewrite Hn.
        assert (E : (level t <=? h_level h) = true) by (apply Z.leb_le; exact Hbeh). rewrite E.
        eexists. eexists. split; [rewrite app_nil_r; reflexivity|]. split; [apply Rd_push; exact HRd1|exact Hlog].
    - inversion HD as [|? ? HDb HDbody]; subst. destruct Hok as (Hokb & Hfit & Hokbody). destruct Hch as (Hfol & Hchain).
      cbn [flat_map map] in *. rewrite <- app_assoc in HRd.
      destruct (sprint_head b) as (t0 & r0 & Ep & Ehd & Eel & Elv & Edp).
      unfold Dst2 in HDb. rewrite Ep in HDb. rewrite Ep in HRd. cbn [app] in HRd.
      rewrite app_length in Hf. rewrite Ep in Hf. cbn [length] in Hf.
      destruct f as [|f]; [lia|].
      assert (Hmb : Forall mm0 (sprint b)) by (apply sok_mm; exact Hokb). rewrite Ep in Hmb. inversion Hmb as [|? ? Hm0 Hmr0]; subst.
      destruct (Rd_next _ _ _ _ _ HRd Hm0) as (s1 & Hn & HRd1). rewrite sec_loop_S, Hn.
      assert (E1 : (level t0 <=? h_level h) = false) by (apply Z.leb_gt; rewrite Elv; exact Hfit).
      rewrite E1.
      assert (Hr' : Forall mm0 (flat_map sprint body ++ r)).
      { apply Forall_app. split; [eapply oks2_mm; exact Hokbody|exact Hr]. }
      destruct (HDb Hokb f s1 (flat_map sprint body ++ r) log ev) as (s2 & log1 & Hd & HRd2 & Hl1);
        [cbn [length]; lia|exact Hlog|exact Hr'| |exact HRd1|].
      { eapply behind_chain; [exact Hfol|]. simpl. exact Hbeh. }
      rewrite Hd.
      destruct (IHb HDbody Hokbody Hchain f (ch0 ++ [sden b]) s2 r log1 ev) as (s3 & log2 & Hl & HRd3 & Hl2);
        [lia|exact Hl1|exact Hr|exact Hbeh|exact HRd2|].
      rewrite Hl. eexists. eexists. split; [rewrite <- app_assoc; reflexivity|]. split; eassumption.
  Qed.

  Lemma nf2_digest : forall a, Dst2 a.
  Proof.
    induction a as [h s|h pre|h he body IH|h body IH] using sast_ind2; unfold Dst2; intros Hok f s1 r log ev Hf Hlog Hr Hbeh.
    - cbn [sprint is_elem app sden]. intro HRd. eexists. eexists. split; [reflexivity|]. split; eassumption.
    - cbn [sprint is_elem app sden]. cbn [sprint length] in Hf. destruct f as [|f]; [lia|]. intro HRd.
      simpl in Hok. rewrite digest_S_leaf by apply Hok. eexists. eexists. split; [reflexivity|]. split; eassumption.
    - cbn [sprint is_elem sden]. cbn [sprint length] in Hf. rewrite app_length in Hf. cbn [length] in Hf.
      cbn [sast_ok] in Hok. destruct Hok as (Hk & Hm & Hfo & Hmm & Hmme & Hme & Hte & Hlp & Hle & Hoks & Hch).
      destruct f as [|f]; [lia|]. rewrite digest_S_env by exact Hk.
      destruct f as [|f]; [lia|].
      assert (Em : (h_mode h =? 2) = false) by (apply Z.eqb_neq; exact Hm). rewrite digest_env_S by exact Em. rewrite Hfo.
      rewrite <- app_assoc. cbn [app]. intro HRd.
      destruct (nf2_env_loop h he Hme Hte Hlp Hle Hmme body IH Hoks Hch f [] s1 r log ev) as (s2 & log1 & Hl & HRd2 & Hl1);
        [lia|exact Hlog|exact Hr|exact HRd|].
      rewrite Hl. eexists. eexists. split; [reflexivity|]. split; eassumption.
    - cbn [sprint is_elem sden]. cbn [sprint length] in Hf.
      cbn [sast_ok] in Hok. destruct Hok as (Hk & Hmm & Hoks & Hch).
      destruct f as [|f]; [lia|]. rewrite digest_S_sec by exact Hk. intro HRd.
      destruct (nf2_sec_loop h body IH Hoks Hch f [] s1 r log ev) as (s2 & log1 & Hl & HRd2 & Hl1);
        [lia|exact Hlog|exact Hr|exact Hbeh|exact HRd|].
      rewrite Hl. cbn [app]. unfold do_paragraphs.
      destruct HRd2 as (Hi2 & Hm2 & Hlg2 & He2). rewrite Hm2.
      destruct (paragraphs subs pn false true h (map sden body)) as [kept dr] eqn:Ep. cbn [fst].
      eexists. eexists. split; [reflexivity|]. split.
      + apply Rd_logds; assumption.
      + apply logok_logds. rewrite Hlg2. exact Hl1.
  Qed.

  Lemma nf2_top : forall l, oks2 sast_ok (fun _ => True) l -> chain l None ->
    forall f out s log ev, (2 * length (flat_map sprint l) + 1 <= f)%nat -> logok log -> Rd s (flat_map sprint l) log ev ->
    exists s' log', parse_top subs pn f out s = Done (out ++ map sden l, s') /\ Rd s' [] log' ev /\ logok log'.
  Proof.
    induction l as [|b l IH]; intros Hok Hch f out s log ev Hf Hlog HRd.
    - destruct f as [|f]; [lia|]. cbn [flat_map map] in *. rewrite parse_top_S, (Rd_nil _ _ _ HRd).
      eexists. eexists. split; [rewrite app_nil_r; reflexivity|]. split; eassumption.
    - destruct Hok as (Hokb & _ & Hokl). destruct Hch as (Hfol & Hchain). cbn [flat_map map] in *.
      destruct (sprint_head b) as (t0 & r0 & Ep & Ehd & Eel & Elv & Edp).
      pose proof (nf2_digest b) as HDb. unfold Dst2 in HDb. rewrite Ep in HDb. rewrite Ep in HRd. cbn [app] in HRd.
      rewrite app_length, Ep in Hf. cbn [length] in Hf.
      destruct f as [|f]; [lia|].
      assert (Hmb : Forall mm0 (sprint b)) by (apply sok_mm; exact Hokb). rewrite Ep in Hmb. inversion Hmb as [|? ? Hm0 Hmr0]; subst.
      destruct (Rd_next _ _ _ _ _ HRd Hm0) as (s1 & Hn & HRd1). rewrite parse_top_S, Hn.
      destruct (HDb Hokb f s1 (flat_map sprint l) log ev) as (s2 & log1 & Hd & HRd2 & Hl1);
        [cbn [length]; lia|exact Hlog|eapply oks2_mm; exact Hokl| |exact HRd1|].
      { pose proof (behind_chain b l [] None Hfol eq_refl) as Hb. rewrite app_nil_r in Hb. exact Hb. }
      rewrite Hd.
      destruct (IH Hokl Hchain f (out ++ [sden b]) s2 log1 ev) as (s3 & log2 & Hl & HRd3 & Hl2); [lia|exact Hl1|exact HRd2|].
      rewrite Hl. eexists. eexists. split; [rewrite <- app_assoc; reflexivity|]. split; eassumption.
  Qed.

  (* documents with sectioning: parsing the printed form gives back the syntax trees, every sectioning node holding
     Macro.paragraphs of exactly what stands between it and the next item of a level not above its own *)
  Theorem nf2_parse : forall l, oks2 sast_ok (fun _ => True) l -> chain l None ->
    exists s', parse_doc subs pn (flat_map sprint l) = Done (map sden l, s') /\
               s_buf s' = [] /\ s_rest s' = [] /\ s_ev s' = [] /\
               Forall (fun e => fst e = R_END \/ fst e = R_EMPTYPAR) (s_log s').
  Proof.
    intros l Hok Hch. unfold parse_doc.
    destruct (nf2_top l Hok Hch (fuel_for (flat_map sprint l)) [] (init_st (flat_map sprint l)) [] []) as (s' & log' & H & HRd & Hl);
      [unfold fuel_for; lia|constructor|repeat split|].
    rewrite H. exists s'. split; [reflexivity|]. destruct HRd as (Hi & Hm & Hlg & He).
    apply app_eq_nil in Hi. destruct Hi as [Hb Hr]. repeat split; try assumption. rewrite Hlg. exact Hl.
  Qed.
End NF2.

(* \documentclass{article}\begin{document}\section{Wa}b\par c\begin{quote}d\end{quote}\subsection{Wb}e\section{Wc}f\end{document} *)
Definition ex_sec (name lvl : Z) (args : list (list Z)) (body : list sast) : sast := SSec (ex_head KSec name lvl 2 0 name args) body.
Definition ex_nf2 : list sast :=
  [ SLeaf (ex_head KLeaf 1 CHAR_LEVEL 1 0 20 []) [];
    SEnv (ex_head KEnv 2 DOC_LEVEL 2 1 1 []) (ex_head KEnv 2 DOC_LEVEL 1 2 1 [])
      [ ex_sec 3 1 [[87; 97]]
          [ SText (hd_of (ex_txt 98 2)) [98]; SLeaf (hd_of (ex_par 2)) []; SText (hd_of (ex_txt 99 2)) [99];
            SEnv (ex_head KEnv 11 201 3 1 11 []) (ex_head KEnv 11 201 2 2 11 []) [ SText (hd_of (ex_txt 100 3)) [100] ];
            ex_sec 10 2 [[87; 98]] [ SText (hd_of (ex_txt 101 2)) [101] ] ];
        ex_sec 3 1 [[87; 99]] [ SText (hd_of (ex_txt 102 2)) [102] ] ] ].

Lemma ex_nf2_ok : oks2 ex_subs 0 (sast_ok ex_subs 0) (fun _ => True) ex_nf2 /\ chain ex_subs 0 ex_nf2 None.
Proof.
  cbn. unfold fits, level, depth_of, ex_head, ex_txt, ex_par, hd_of, is_elem, DOC_LEVEL, PAR_LEVEL, CHAR_LEVEL; cbn.
  repeat split; auto; try discriminate; try (intros; discriminate); try (intros; lia); try lia.
Qed.
