(* C12: what the tag clean-ups of HTML5 / XHTML.processFileContent (Model/HtmlEsc.v: r1, r2) do to a whole file.

   A file is seen as a list of items: text characters (anything but "<") and tags ("<" body ">" with neither "<" nor ">" in
   the body).  For every such file the regular-expression scans of the Model are exactly item-level rewrites:
     r1  removes groups   <p> blank* </p>             (nothing else)
     r2  turns groups     <td..> blank* </td>   into  <td..> &nbsp; </td>   (same for th; nothing else)
     r0  (XHTML) rewrites each hr/br/img/link/meta/col tag on its own to end in " />" and touches nothing else
   so every tag other than a removed <p></p> pair and every text character other than an ASCII blank inside such a group stays, in
   order. *)
From Coq Require Import List NArith Bool Arith Lia.
Import ListNotations.
From Verif Require Import Val HtmlSpec HtmlEsc HtmlEscProofs.
Local Open Scope N_scope.

Inductive item := T (c : N) | G (m : str).
Definition flat_item (i : item) : str := match i with T c => [c] | G m => m end.
Definition flat (l : list item) : str := flat_map flat_item l.

Definition tag_simple (m : str) : Prop := exists body, m = 60 :: body ++ [62] /\ ~ In 60 body /\ ~ In 62 body.
Definition item_ok (i : item) : Prop := match i with T c => c <> 60 | G m => tag_simple m end.
Definition structured (l : list item) : Prop := Forall item_ok l.
Definition blankT (i : item) : Prop := match i with T c => is_ws_ascii c = true | G _ => False end.

Lemma flat_app (a b : list item) : flat (a ++ b) = flat a ++ flat b.
Proof. apply flat_map_app'. Qed.

Lemma flat_cons (i : item) (l : list item) : flat (i :: l) = flat_item i ++ flat l.
Proof. reflexivity. Qed.

(* ---- the generic scan --------------------------------------------------------------------------------------------------- *)
Section Scan.
  Context (m : str -> option (str * nat)) (Hm : forall c r, c <> 60 -> m (c :: r) = None).

  Lemma scan_copy (u v : str) : ~ In 60 u -> sub_scan m 0 (u ++ v) = u ++ sub_scan m 0 v.
  Proof.
    induction u as [|c u IH]; intros Hu; [reflexivity|].
    cbn [app sub_scan]. rewrite Hm by (intros ->; apply Hu; left; reflexivity).
    rewrite IH by (intros H; apply Hu; right; assumption). reflexivity.
  Qed.

  Lemma scan_skip (u v : str) : sub_scan m (length u) (u ++ v) = sub_scan m 0 v.
  Proof. induction u as [|c u IH]; [reflexivity | exact IH]. Qed.

  Lemma scan_match (u v rep : str) (L : nat) :
    m (u ++ v) = Some (rep, L) -> length u = L -> u <> [] -> sub_scan m 0 (u ++ v) = rep ++ sub_scan m 0 v.
  Proof.
    intros Hmatch HL Hne. destruct u as [|c u]; [congruence|].
    cbn [app sub_scan]. change (c :: u ++ v) with ((c :: u) ++ v). rewrite Hmatch.
    f_equal. simpl in HL. subst L. replace (S (length u) - 1)%nat with (length u) by lia. apply scan_skip.
  Qed.

  Lemma scan_nomatch_tag (body v : str) :
    ~ In 60 body -> m (60 :: body ++ 62 :: v) = None ->
    sub_scan m 0 (60 :: body ++ 62 :: v) = 60 :: body ++ 62 :: sub_scan m 0 v.
  Proof.
    intros Hb Hn. cbn [sub_scan]. rewrite Hn. f_equal.
    replace (body ++ 62 :: v) with ((body ++ [62]) ++ v) by (rewrite <- app_assoc; reflexivity).
    rewrite scan_copy.
    - rewrite <- app_assoc. reflexivity.
    - intros H. apply in_app_or in H. destruct H as [H | [H | []]]; [contradiction | discriminate].
  Qed.
End Scan.

(* ---- character facts ------------------------------------------------------------------------------------------------------ *)
Lemma lower_small (d k : N) : lower d = k -> k < 97 -> d = k.
Proof.
  unfold lower. destruct ((65 <=? d) && (d <=? 90)) eqn:E; [|congruence].
  apply andb_true_iff in E. destruct E as [A B]. apply N.leb_le in A, B. lia.
Qed.

Lemma ws_not_lt (c : N) : is_ws_ascii c = true -> c <> 60.
Proof. intros H ->. discriminate. Qed.

Lemma split_blanks (l : list item) :
  exists ws rest, l = ws ++ rest /\ Forall blankT ws /\
                  match rest with T c :: _ => is_ws_ascii c = false | _ => True end.
Proof.
  induction l as [|i l IH]; [exists [], []; split; [reflexivity | split; [constructor | exact Logic.I]]|].
  destruct i as [c|m].
  - destruct (is_ws_ascii c) eqn:E.
    + destruct IH as [ws [rest [-> [Hws Hr]]]]. exists (T c :: ws), rest. split; [reflexivity | split; [constructor; assumption | assumption]].
    + exists [], (T c :: l). split; [reflexivity | split; [constructor | exact E]].
  - exists [], (G m :: l). split; [reflexivity | split; [constructor | exact Logic.I]].
Qed.

Lemma flat_blanks_len (ws : list item) : Forall blankT ws -> length (flat ws) = length ws.
Proof.
  induction 1 as [|i ws Hi _ IH]; [reflexivity|]. destruct i as [c|m]; [|contradiction]. simpl. f_equal. exact IH.
Qed.

Lemma span_blanks (ws rest : list item) :
  Forall blankT ws -> structured rest ->
  match rest with T c :: _ => is_ws_ascii c = false | _ => True end ->
  span is_ws_ascii (flat ws ++ flat rest) = (flat ws, flat rest).
Proof.
  intros Hws Hs Hr. induction Hws as [|i ws Hi _ IH].
  - simpl. destruct rest as [|[c|m] rest]; [reflexivity | |].
    + simpl. rewrite Hr. reflexivity.
    + inversion Hs as [|? ? Hm _]; subst. simpl in Hm. destruct Hm as [body [-> _]]. simpl. reflexivity.
  - destruct i as [c|m]; [|contradiction]. simpl in Hi. simpl. rewrite Hi.
    change (flat_map flat_item ws ++ flat rest) with (flat ws ++ flat rest). rewrite IH. reflexivity.
Qed.

Lemma ws_run_blanks (ws rest : list item) :
  Forall blankT ws -> structured rest ->
  match rest with T c :: _ => is_ws_ascii c = false | _ => True end ->
  ws_run (flat ws ++ flat rest) = length ws /\ skipn (length ws) (flat ws ++ flat rest) = flat rest.
Proof.
  intros Hws Hs Hr. unfold ws_run. rewrite (span_blanks ws rest Hws Hs Hr). cbn [fst].
  rewrite (flat_blanks_len ws Hws). split; [reflexivity|].
  rewrite <- (flat_blanks_len ws Hws). rewrite skipn_app, skipn_all, Nat.sub_diag. reflexivity.
Qed.

Lemma structured_app (a b : list item) : structured (a ++ b) -> structured a /\ structured b.
Proof. intros H. apply Forall_app in H. exact H. Qed.

(* ---- r1 --------------------------------------------------------------------------------------------------------------- *)
Definition p_open (m : str) : Prop := exists c, m = [60; c; 62] /\ lower c = 112.
Definition p_close (m : str) : Prop := exists c, m = [60; 47; c; 62] /\ lower c = 112.

Inductive r1_rel : list item -> list item -> Prop :=
| r1r_nil : r1_rel [] []
| r1r_del m ws m' rest out :
    p_open m -> Forall blankT ws -> p_close m' -> r1_rel rest out -> r1_rel (G m :: ws ++ G m' :: rest) out
| r1r_keep i rest out : r1_rel rest out -> r1_rel (i :: rest) (i :: out).

Definition r1m (x : str) : option (str * nat) := match r1_match x with Some L => Some ([], L) | None => None end.

Lemma r1m_head (c : N) (r : str) : c <> 60 -> r1m (c :: r) = None.
Proof. intros Hc. unfold r1m, r1_match. rewrite (prefix_ci_lt_head [112; 62] c r Hc). reflexivity. Qed.

Lemma prefix_p_open (m x : str) : tag_simple m -> prefix_ci [60; 112; 62] (m ++ x) = true -> p_open m.
Proof.
  intros [body [-> [_ H62]]] H.
  destruct body as [|c body].
  - simpl in H. discriminate.
  - destruct body as [|d body].
    + cbn [app prefix_ci] in H. apply andb_true_iff in H. destruct H as [_ H]. apply andb_true_iff in H. destruct H as [H _].
      apply N.eqb_eq in H. exists c. split; [reflexivity | congruence].
    + exfalso. cbn [app prefix_ci] in H.
      apply andb_true_iff in H. destruct H as [_ H]. apply andb_true_iff in H. destruct H as [_ H].
      apply andb_true_iff in H. destruct H as [H _]. apply N.eqb_eq in H. symmetry in H.
      apply lower_small in H; [|lia]. apply H62. right. left. exact H.
Qed.

Lemma prefix_p_close (rest : list item) :
  structured rest -> prefix_ci [60; 47; 112; 62] (flat rest) = true ->
  exists m' rest', rest = G m' :: rest' /\ p_close m'.
Proof.
  intros Hs H. destruct rest as [|[c|m'] rest']; [discriminate | |].
  - exfalso. inversion Hs as [|? ? Hc _]; subst. simpl in Hc.
    cbn [flat flat_map flat_item app prefix_ci] in H. apply andb_true_iff in H. destruct H as [H _].
    apply N.eqb_eq in H. symmetry in H. apply lower_small in H; [|lia]. contradiction.
  - exists m', rest'. split; [reflexivity|].
    inversion Hs as [|? ? Hm _]; subst. simpl in Hm. destruct Hm as [body [-> [_ H62]]].
    rewrite flat_cons in H. cbn [flat_item] in H.
    destruct body as [|a body]; [simpl in H; discriminate|].
    destruct body as [|b body].
    { exfalso. cbn [app prefix_ci] in H. apply andb_true_iff in H. destruct H as [_ H].
      apply andb_true_iff in H. destruct H as [_ H]. apply andb_true_iff in H. destruct H as [H _].
      apply N.eqb_eq in H. discriminate. }
    destruct body as [|d body].
    + cbn [app prefix_ci] in H. apply andb_true_iff in H. destruct H as [_ H].
      apply andb_true_iff in H. destruct H as [Ha H]. apply andb_true_iff in H. destruct H as [Hb _].
      apply N.eqb_eq in Ha, Hb. symmetry in Ha. apply lower_small in Ha; [|lia]. subst a.
      exists b. split; [reflexivity | congruence].
    + exfalso. cbn [app prefix_ci] in H. apply andb_true_iff in H. destruct H as [_ H].
      apply andb_true_iff in H. destruct H as [_ H]. apply andb_true_iff in H. destruct H as [_ H].
      apply andb_true_iff in H. destruct H as [H _]. apply N.eqb_eq in H. symmetry in H.
      apply lower_small in H; [|lia]. apply H62. right. right. left. exact H.
Qed.

Lemma r1_match_tag (m : str) (rest : list item) (L : nat) :
  tag_simple m -> structured rest -> r1_match (m ++ flat rest) = Some L ->
  exists ws m' rest', p_open m /\ Forall blankT ws /\ p_close m' /\ rest = ws ++ G m' :: rest' /\
                      L = length (m ++ flat ws ++ m').
Proof.
  intros Hm Hs H. unfold r1_match in H.
  destruct (prefix_ci [60; 112; 62] (m ++ flat rest)) eqn:E1; [|discriminate].
  pose proof (prefix_p_open m _ Hm E1) as Hpo. destruct Hpo as [c [-> Hc]].
  cbn [app skipn] in H.
  destruct (split_blanks rest) as [ws [rest1 [-> [Hws Hr]]]].
  destruct (structured_app _ _ Hs) as [_ Hs1].
  rewrite flat_app in H.
  destruct (ws_run_blanks ws rest1 Hws Hs1 Hr) as [Hw Hsk]. rewrite Hw, Hsk in H.
  destruct (prefix_ci [60; 47; 112; 62] (flat rest1)) eqn:E2; [|discriminate].
  destruct (prefix_p_close rest1 Hs1 E2) as [m' [rest' [-> Hpc]]].
  exists ws, m', rest'. repeat split; try assumption.
  - exists c. split; [reflexivity | assumption].
  - injection H as <-. destruct Hpc as [c' [-> _]]. rewrite !app_length, (flat_blanks_len ws Hws). simpl. lia.
Qed.

Theorem r1_items (l : list item) : structured l -> exists l', r1_rel l l' /\ r1 (flat l) = flat l'.
Proof.
  remember (length l) as n eqn:Hn. revert l Hn.
  induction n as [n IH] using lt_wf_ind. intros l Hn Hs.
  destruct l as [|i l]; [exists []; split; [constructor | reflexivity]|].
  assert (Hsl : structured l) by (inversion Hs; assumption).
  unfold r1 in *. fold r1m in *.
  destruct i as [c|m].
  - assert (Hc : c <> 60) by (inversion Hs; assumption).
    destruct (IH (length l) ltac:(subst; simpl; lia) l eq_refl Hsl) as [l' [Hr He]].
    exists (T c :: l'). split; [constructor; assumption|].
    rewrite !flat_cons. cbn [flat_item]. rewrite (scan_copy r1m r1m_head [c]); [rewrite He; reflexivity|].
    intros [H | []]. congruence.
  - assert (Hm : tag_simple m) by (inversion Hs; assumption).
    rewrite flat_cons. cbn [flat_item].
    destruct (r1_match (m ++ flat l)) as [L|] eqn:EM.
    + destruct (r1_match_tag m l L Hm Hsl EM) as [ws [m' [rest' [Hpo [Hws [Hpc [-> HL]]]]]]].
      assert (Hsr : structured rest').
      { destruct (structured_app _ _ Hsl) as [_ H]. inversion H; assumption. }
      destruct (IH (length rest') ltac:(subst; simpl; rewrite app_length; simpl; lia) rest' eq_refl Hsr) as [l' [Hr He]].
      exists l'. split; [constructor; assumption|].
      rewrite flat_app, flat_cons. cbn [flat_item].
      replace (m ++ flat ws ++ m' ++ flat rest') with ((m ++ flat ws ++ m') ++ flat rest') by (rewrite <- !app_assoc; reflexivity).
      rewrite (scan_match r1m (m ++ flat ws ++ m') (flat rest') [] L).
      * simpl. exact He.
      * unfold r1m. rewrite <- !app_assoc. rewrite flat_app, flat_cons in EM. cbn [flat_item] in EM. rewrite EM. reflexivity.
      * symmetry. exact HL.
      * destruct Hpo as [c [-> _]]. discriminate.
    + destruct (IH (length l) ltac:(subst; simpl; lia) l eq_refl Hsl) as [l' [Hr He]].
      exists (G m :: l'). split; [constructor; assumption|].
      destruct Hm as [body [-> [H60 H62]]].
      rewrite flat_cons. cbn [flat_item].
      change ((60 :: body ++ [62]) ++ flat l) with (60 :: (body ++ [62]) ++ flat l).
      rewrite <- app_assoc. cbn [app].
      rewrite (scan_nomatch_tag r1m r1m_head body (flat l) H60).
      * rewrite He. change ((60 :: body ++ [62]) ++ flat l') with (60 :: (body ++ [62]) ++ flat l'). rewrite <- app_assoc. reflexivity.
      * unfold r1m. change (60 :: body ++ 62 :: flat l) with (60 :: body ++ [62] ++ flat l).
        rewrite app_assoc. change (60 :: (body ++ [62]) ++ flat l) with ((60 :: body ++ [62]) ++ flat l). rewrite EM. reflexivity.
Qed.

(* what r1 keeps: every tag that is not a removed <p> / </p>, every text character that is not an ASCII blank *)
Definition vis_item (i : item) : str := match i with T c => if is_ws_ascii c then [] else [c] | G _ => [] end.
Definition vis (l : list item) : str := flat_map vis_item l.

Lemma vis_blanks (ws : list item) : Forall blankT ws -> vis ws = [].
Proof.
  induction 1 as [|i ws Hi _ IH]; [reflexivity|]. destruct i as [c|m]; [|contradiction].
  simpl in Hi. unfold vis. cbn [flat_map vis_item]. rewrite Hi. exact IH.
Qed.

Lemma r1_rel_vis (l l' : list item) : r1_rel l l' -> vis l' = vis l.
Proof.
  induction 1 as [| m ws m' rest out _ Hws _ _ IH | i rest out _ IH]; [reflexivity | |].
  - unfold vis in *. cbn [flat_map vis_item]. rewrite flat_map_app'. fold (vis ws). rewrite (vis_blanks ws Hws). exact IH.
  - unfold vis in *. cbn [flat_map]. rewrite IH. reflexivity.
Qed.

Definition is_p_tag (m : str) : bool :=
  match m with
  | [a; c; z] => (a =? 60) && (lower c =? 112) && (z =? 62)
  | [a; s; c; z] => (a =? 60) && (s =? 47) && (lower c =? 112) && (z =? 62)
  | _ => false
  end.
Definition other_tags (l : list item) : list str :=
  flat_map (fun i => match i with G m => if is_p_tag m then [] else [m] | T _ => [] end) l.

Lemma other_tags_blanks (ws : list item) : Forall blankT ws -> other_tags ws = [].
Proof.
  induction 1 as [|i ws Hi _ IH]; [reflexivity|]. destruct i as [c|m]; [exact IH | contradiction].
Qed.

Lemma r1_rel_tags (l l' : list item) : r1_rel l l' -> other_tags l' = other_tags l.
Proof.
  induction 1 as [| m ws m' rest out [c [-> Hc]] Hws [c' [-> Hc']] _ IH | i rest out _ IH]; [reflexivity | |].
  - unfold other_tags in *. cbn [flat_map]. rewrite flat_map_app'. fold (other_tags ws). rewrite (other_tags_blanks ws Hws).
    apply N.eqb_eq in Hc, Hc'.
    assert (E1 : is_p_tag [60; c; 62] = true) by (unfold is_p_tag; rewrite Hc; reflexivity).
    assert (E2 : is_p_tag [60; 47; c'; 62] = true) by (unfold is_p_tag; rewrite Hc'; reflexivity).
    cbn [flat_map app]. rewrite E1. cbn [app].
    rewrite E2. exact IH.
  - unfold other_tags in *. cbn [flat_map]. rewrite IH. reflexivity.
Qed.

Lemma r1_rel_structured (l l' : list item) : r1_rel l l' -> structured l -> structured l'.
Proof.
  induction 1 as [| m ws m' rest out _ _ _ _ IH | i rest out _ IH]; intros Hs; [constructor | |].
  - inversion Hs as [|? ? _ Hs']; subst. apply Forall_app in Hs'. destruct Hs' as [_ Hs']. inversion Hs'; subst. apply IH. assumption.
  - inversion Hs; subst. constructor; [assumption | apply IH; assumption].
Qed.

(* ---- r2 --------------------------------------------------------------------------------------------------------------- *)
Definition cell_name (a b : N) : Prop := lower a = 116 /\ (lower b = 100 \/ lower b = 104).
Definition cell_open (m : str) (a b : N) : Prop :=
  exists body2, m = 60 :: a :: b :: body2 ++ [62] /\ cell_name a b /\ at_boundary (body2 ++ [62]) = true.
Definition cell_close (m' : str) (a b : N) : Prop :=
  exists a' b', m' = [60; 47; a'; b'; 62] /\ lower a' = lower a /\ lower b' = lower b.

Inductive r2_rel : list item -> list item -> Prop :=
| r2r_nil : r2_rel [] []
| r2r_fill m a b ws m' rest out :
    cell_open m a b -> Forall blankT ws -> cell_close m' a b -> r2_rel rest out ->
    r2_rel (G m :: ws ++ G m' :: rest) (G m :: map T e_nbsp ++ G m' :: out)
| r2r_keep i rest out : r2_rel rest out -> r2_rel (i :: rest) (i :: out).

Lemma r2_head (c : N) (r : str) : c <> 60 -> r2_match (c :: r) = None.
Proof.
  intros Hc. unfold r2_match. destruct r as [|a [|b t]]; try reflexivity.
  apply N.eqb_neq in Hc. rewrite Hc. reflexivity.
Qed.

Lemma span_not62 (body v : str) : ~ In 62 body -> span (fun c => negb (c =? 62)) (body ++ 62 :: v) = (body, 62 :: v).
Proof.
  induction body as [|c body IH]; intros H; [reflexivity|].
  cbn [app span]. destruct (c =? 62) eqn:E; [apply N.eqb_eq in E; subst; exfalso; apply H; left; reflexivity|].
  cbn [negb]. rewrite IH by (intros H'; apply H; right; assumption). reflexivity.
Qed.

Lemma at_boundary_app (u v : str) : u <> [] -> at_boundary (u ++ v) = at_boundary u.
Proof. destruct u; [congruence | reflexivity]. Qed.

Lemma five_chars (rest1 : list item) (c1 c2 a' b' c5 : N) (tl : str) (a b : N) :
  structured rest1 -> flat rest1 = c1 :: c2 :: a' :: b' :: c5 :: tl ->
  c1 = 60 -> c2 = 47 -> c5 = 62 -> lower a' = lower a -> lower b' = lower b -> cell_name a b ->
  exists rest', rest1 = G [60; 47; a'; b'; 62] :: rest'.
Proof.
  intros Hs Hf -> -> -> Ha Hb [Hna Hnb].
  destruct rest1 as [|[c|m'] rest']; [discriminate | |].
  - exfalso. inversion Hs as [|? ? Hc _]; subst. simpl in Hc. rewrite flat_cons in Hf. injection Hf as ->. congruence.
  - exists rest'. f_equal. f_equal.
    inversion Hs as [|? ? Hm _]; subst. simpl in Hm. destruct Hm as [body [-> [_ H62]]].
    rewrite flat_cons in Hf. cbn [flat_item] in Hf.
    assert (L62 : lower 62 = 62) by reflexivity.
    destruct body as [|x body]; [simpl in Hf; injection Hf as E; discriminate|].
    destruct body as [|y body].
    { exfalso. simpl in Hf. injection Hf as -> Ea _. subst a'. rewrite L62 in Ha. rewrite Hna in Ha. discriminate. }
    destruct body as [|z body].
    { exfalso. simpl in Hf. injection Hf as -> -> Eb _. subst b'. rewrite L62 in Hb. destruct Hnb as [X | X]; rewrite X in Hb; discriminate. }
    destruct body as [|w body].
    { simpl in Hf. injection Hf as -> -> -> _. reflexivity. }
    exfalso. simpl in Hf. injection Hf as _ _ _ E _. apply H62. right. right. right. left. exact E.
Qed.

Lemma r2_match_tag (m : str) (rest : list item) (rep : str) (L : nat) :
  tag_simple m -> structured rest -> r2_match (m ++ flat rest) = Some (rep, L) ->
  exists a b ws m' rest', cell_open m a b /\ Forall blankT ws /\ cell_close m' a b /\ rest = ws ++ G m' :: rest' /\
                          rep = m ++ e_nbsp ++ m' /\ L = length (m ++ flat ws ++ m').
Proof.
  intros [body [-> [H60 H62]]] Hs H.
  assert (L62 : lower 62 = 62) by reflexivity.
  destruct body as [|a body].
  { exfalso. cbn [app] in H. unfold r2_match in H. destruct (flat rest) as [|b t]; [discriminate|].
    rewrite L62 in H. assert (E : (60 =? 60) && (62 =? 116) = false) by reflexivity. rewrite E in H. cbn [andb] in H. discriminate. }
  destruct body as [|b body2].
  { exfalso. cbn [app] in H. unfold r2_match in H. rewrite L62 in H.
    assert (E : (62 =? 100) || (62 =? 104) = false) by reflexivity. rewrite E, andb_false_r in H. cbn [andb] in H. discriminate. }
  unfold r2_match in H. cbn [app] in H.
  match type of H with (if ?c then _ else _) = _ => destruct c eqn:EC; [|discriminate] end.
  apply andb_true_iff in EC. destruct EC as [EC Hbd]. apply andb_true_iff in EC. destruct EC as [EC Hb].
  apply andb_true_iff in EC. destruct EC as [_ Ha]. apply N.eqb_eq in Ha.
  assert (Hb' : lower b = 100 \/ lower b = 104).
  { apply orb_true_iff in Hb. destruct Hb as [Hb | Hb]; apply N.eqb_eq in Hb; auto. }
  rewrite at_boundary_app in Hbd by (destruct body2; discriminate).
  assert (H62' : ~ In 62 body2) by (intros X; apply H62; right; right; exact X).
  rewrite <- app_assoc in H. cbn [app] in H. rewrite (span_not62 body2 (flat rest) H62') in H.
  destruct (split_blanks rest) as [ws [rest1 [-> [Hws Hr]]]].
  destruct (structured_app _ _ Hs) as [_ Hs1].
  rewrite flat_app in H.
  destruct (ws_run_blanks ws rest1 Hws Hs1 Hr) as [Hw Hsk]. rewrite Hw, Hsk in H.
  destruct (flat rest1) as [|c1 [|c2 [|a' [|b' [|c5 tl]]]]] eqn:EF; try discriminate.
  match type of H with (if ?c then _ else _) = _ => destruct c eqn:E5; [|discriminate] end.
  apply andb_true_iff in E5. destruct E5 as [E5 Eb]. apply andb_true_iff in E5. destruct E5 as [E5 Ea].
  apply andb_true_iff in E5. destruct E5 as [E5 E62]. apply andb_true_iff in E5. destruct E5 as [E60 E47].
  apply N.eqb_eq in Eb, Ea, E62, E60, E47.
  destruct (five_chars rest1 c1 c2 a' b' c5 tl a b Hs1 EF E60 E47 E62 Ea Eb (conj Ha Hb')) as [rest' ->].
  subst c1 c2 c5.
  exists a, b, ws, [60; 47; a'; b'; 62], rest'. repeat split; try assumption.
  - exists body2. repeat split; assumption.
  - exists a', b'. repeat split; assumption.
  - injection H as <- _. cbn [app]. rewrite <- !app_assoc. reflexivity.
  - injection H as _ <-. cbn [app length]. rewrite !app_length, (flat_blanks_len ws Hws). simpl. lia.
Qed.

Lemma flat_map_T (s : str) : flat (map T s) = s.
Proof. induction s as [|c s IH]; [reflexivity|]. simpl. f_equal. exact IH. Qed.

Theorem r2_items (l : list item) : structured l -> exists l', r2_rel l l' /\ r2 (flat l) = flat l'.
Proof.
  remember (length l) as n eqn:Hn. revert l Hn.
  induction n as [n IH] using lt_wf_ind. intros l Hn Hs.
  destruct l as [|i l]; [exists []; split; [constructor | reflexivity]|].
  assert (Hsl : structured l) by (inversion Hs; assumption).
  unfold r2 in *.
  destruct i as [c|m].
  - assert (Hc : c <> 60) by (inversion Hs; assumption).
    destruct (IH (length l) ltac:(subst; simpl; lia) l eq_refl Hsl) as [l' [Hr He]].
    exists (T c :: l'). split; [constructor; assumption|].
    rewrite !flat_cons. cbn [flat_item]. rewrite (scan_copy r2_match r2_head [c]); [rewrite He; reflexivity|].
    intros [H | []]. congruence.
  - assert (Hm : tag_simple m) by (inversion Hs; assumption).
    rewrite flat_cons. cbn [flat_item].
    destruct (r2_match (m ++ flat l)) as [[rep L]|] eqn:EM.
    + destruct (r2_match_tag m l rep L Hm Hsl EM) as [a [b [ws [m' [rest' [Hpo [Hws [Hpc [-> [-> HL]]]]]]]]]].
      assert (Hsr : structured rest').
      { destruct (structured_app _ _ Hsl) as [_ H]. inversion H; assumption. }
      destruct (IH (length rest') ltac:(subst; simpl; rewrite app_length; simpl; lia) rest' eq_refl Hsr) as [l' [Hr He]].
      exists (G m :: map T e_nbsp ++ G m' :: l'). split; [econstructor; eassumption|].
      rewrite flat_app, flat_cons. cbn [flat_item].
      replace (m ++ flat ws ++ m' ++ flat rest') with ((m ++ flat ws ++ m') ++ flat rest') by (rewrite <- !app_assoc; reflexivity).
      rewrite (scan_match r2_match (m ++ flat ws ++ m') (flat rest') (m ++ e_nbsp ++ m') L).
      * rewrite He. rewrite flat_cons, flat_app, flat_map_T, flat_cons. cbn [flat_item]. rewrite <- !app_assoc. reflexivity.
      * rewrite <- !app_assoc. rewrite flat_app, flat_cons in EM. cbn [flat_item] in EM. exact EM.
      * symmetry. exact HL.
      * destruct Hm as [body [-> _]]. discriminate.
    + destruct (IH (length l) ltac:(subst; simpl; lia) l eq_refl Hsl) as [l' [Hr He]].
      exists (G m :: l'). split; [constructor; assumption|].
      destruct Hm as [body [-> [H60 H62]]].
      rewrite flat_cons. cbn [flat_item].
      change ((60 :: body ++ [62]) ++ flat l) with (60 :: (body ++ [62]) ++ flat l).
      rewrite <- app_assoc. cbn [app].
      rewrite (scan_nomatch_tag r2_match r2_head body (flat l) H60).
      * rewrite He. change ((60 :: body ++ [62]) ++ flat l') with (60 :: (body ++ [62]) ++ flat l'). rewrite <- app_assoc. reflexivity.
      * change (60 :: body ++ 62 :: flat l) with (60 :: body ++ [62] ++ flat l).
        rewrite app_assoc. change (60 :: (body ++ [62]) ++ flat l) with ((60 :: body ++ [62]) ++ flat l). exact EM.
Qed.

(* r2 keeps every tag, and every text character; it only swaps the blanks of an empty cell for "&nbsp;" *)
Definition tags_of (l : list item) : list str := flat_map (fun i => match i with G m => [m] | T _ => [] end) l.

Lemma tags_of_texts (s : str) : tags_of (map T s) = [].
Proof. induction s; simpl; auto. Qed.
Lemma tags_of_blanks (ws : list item) : Forall blankT ws -> tags_of ws = [].
Proof. induction 1 as [|i ws Hi _ IH]; [reflexivity|]. destruct i; [exact IH | contradiction]. Qed.

Lemma r2_rel_tags (l l' : list item) : r2_rel l l' -> tags_of l' = tags_of l.
Proof.
  induction 1 as [| m a b ws m' rest out _ Hws _ _ IH | i rest out _ IH]; [reflexivity | |].
  - unfold tags_of in *. cbn [flat_map]. rewrite !flat_map_app'. fold (tags_of ws). fold (tags_of (map T e_nbsp)).
    rewrite tags_of_texts, (tags_of_blanks ws Hws). cbn [flat_map app]. rewrite IH. reflexivity.
  - unfold tags_of in *. cbn [flat_map]. rewrite IH. reflexivity.
Qed.

(* the visible text after r2: the original one with "&nbsp;" added for each filled cell; nothing is lost *)
Inductive adds_nbsp : str -> str -> Prop :=
| an_nil : adds_nbsp [] []
| an_keep c x y : adds_nbsp x y -> adds_nbsp (c :: x) (c :: y)
| an_add x y : adds_nbsp x y -> adds_nbsp x (e_nbsp ++ y).

Lemma adds_nbsp_app (a x y : str) : adds_nbsp x y -> adds_nbsp (a ++ x) (a ++ y).
Proof. induction a; simpl; auto using an_keep. Qed.

Lemma r2_rel_vis (l l' : list item) : r2_rel l l' -> adds_nbsp (vis l) (vis l').
Proof.
  induction 1 as [| m a b ws m' rest out _ Hws _ _ IH | i rest out _ IH]; [constructor | |].
  - unfold vis in *. cbn [flat_map vis_item]. rewrite !flat_map_app'. fold (vis ws). rewrite (vis_blanks ws Hws).
    cbn [flat_map vis_item app]. 
    replace (flat_map vis_item (map T e_nbsp)) with e_nbsp by reflexivity.
    apply an_add. exact IH.
  - unfold vis in *. cbn [flat_map]. apply adds_nbsp_app. exact IH.
Qed.

Lemma r2_rel_structured (l l' : list item) : r2_rel l l' -> structured l -> structured l'.
Proof.
  induction 1 as [| m a b ws m' rest out _ _ _ _ IH | i rest out _ IH]; intros Hs; [constructor | |].
  - inversion Hs as [|? ? Hm Hs']; subst. apply Forall_app in Hs'. destruct Hs' as [_ Hs']. inversion Hs' as [|? ? Hm' Hs'']; subst.
    constructor; [assumption|]. apply Forall_app. split.
    + unfold e_nbsp. repeat constructor; simpl; discriminate.
    + constructor; [assumption | apply IH; assumption].
  - inversion Hs; subst. constructor; [assumption | apply IH; assumption].
Qed.

(* ---- HTML5.processFileContent's clean-up as a whole --------------------------------------------------------------------- *)
Theorem post_html5_items (l : list item) : structured l ->
  exists l1 l2, r1_rel l l1 /\ r2_rel l1 l2 /\ post_html5 (flat l) = flat l2 /\
                other_tags l2 = other_tags l /\ adds_nbsp (vis l) (vis l2).
Proof.
  intros Hs. destruct (r1_items l Hs) as [l1 [H1 E1]].
  destruct (r2_items l1 (r1_rel_structured _ _ H1 Hs)) as [l2 [H2 E2]].
  exists l1, l2. repeat split; try assumption.
  - unfold post_html5. rewrite E1. exact E2.
  - rewrite <- (r1_rel_tags _ _ H1). clear -H2.
    induction H2 as [| m a b ws m' rest out _ Hws _ _ IH | i rest out _ IH]; [reflexivity | |].
    + unfold other_tags in *. cbn [flat_map]. rewrite !flat_map_app'. f_equal.
      fold (other_tags ws). fold (other_tags (map T e_nbsp)). rewrite (other_tags_blanks ws Hws).
      replace (other_tags (map T e_nbsp)) with (@nil str) by reflexivity. cbn [flat_map app]. f_equal. exact IH.
    + unfold other_tags in *. cbn [flat_map]. rewrite IH. reflexivity.
  - rewrite <- (r1_rel_vis _ _ H1). apply r2_rel_vis. exact H2.
Qed.

(* non-vacuity: a file with an empty paragraph, an empty cell and ordinary text *)
Definition ex_items : list item :=
  [G [60; 112; 62]; T 32; T 10; G [60; 47; 112; 62]; G [60; 116; 100; 32; 120; 62]; T 32; G [60; 47; 116; 100; 62];
   G [60; 112; 62]; T 97; T 160; G [60; 47; 112; 62]].

Example ex_items_ok :
  structured ex_items /\
  post_html5 (flat ex_items) = flat [G [60; 116; 100; 32; 120; 62]; T 38; T 110; T 98; T 115; T 112; T 59; G [60; 47; 116; 100; 62];
                                    G [60; 112; 62]; T 97; T 160; G [60; 47; 112; 62]].
Proof.
  split; [|vm_compute; reflexivity].
  assert (TS : forall body, (forallb (fun c => negb (c =? 60) && negb (c =? 62)) body = true) -> item_ok (G (60 :: body ++ [62]))).
  { intros body Hb. exists body. split; [reflexivity|].
    rewrite forallb_forall in Hb.
    split; intros Hin; specialize (Hb _ Hin); simpl in Hb; discriminate. }
  assert (TT : forall c, (c =? 60) = false -> item_ok (T c)) by (intros c Hc; apply N.eqb_neq; exact Hc).
  unfold structured, ex_items.
  constructor; [apply (TS [112]); reflexivity|].
  constructor; [apply TT; reflexivity|]. constructor; [apply TT; reflexivity|].
  constructor; [apply (TS [47; 112]); reflexivity|].
  constructor; [apply (TS [116; 100; 32; 120]); reflexivity|].
  constructor; [apply TT; reflexivity|].
  constructor; [apply (TS [47; 116; 100]); reflexivity|].
  constructor; [apply (TS [112]); reflexivity|].
  constructor; [apply TT; reflexivity|]. constructor; [apply TT; reflexivity|].
  constructor; [apply (TS [47; 112]); reflexivity|].
  constructor.
Qed.

(* ---- r0 (XHTML: self-closing of hr br img link meta col) ---------------------------------------------------------------- *)
(* strings that end with the ">" of their tag *)
Definition ends62 (u : str) : Prop := exists b, u = b ++ [62].

Lemma ends62_tail (c : N) (u : str) : ends62 (c :: u) -> u <> [] -> ends62 u.
Proof. intros [b Hb] Hne. destruct b as [|x b]; [injection Hb as _ ->; congruence|]. injection Hb as _ ->. exists b. reflexivity. Qed.

Lemma ends62_nonempty (u : str) : ends62 u -> u <> [].
Proof. intros [b ->]. destruct b; discriminate. Qed.

(* dropping a run of blanks *)
Lemma ws_run_app (u v : str) : ends62 u ->
  ws_run (u ++ v) = ws_run u /\ skipn (ws_run u) (u ++ v) = skipn (ws_run u) u ++ v /\ ends62 (skipn (ws_run u) u).
Proof.
  unfold ws_run. induction u as [|c u IH]; intros He; [exfalso; apply (ends62_nonempty _ He); reflexivity|].
  cbn [app span]. destruct (is_ws_ascii c) eqn:E.
  - destruct u as [|d u'].
    + destruct He as [b Hb]. destruct b as [|x [|y b]]; try discriminate. injection Hb as ->. discriminate.
    + assert (He' : ends62 (d :: u')) by (apply (ends62_tail c); [assumption | discriminate]).
      destruct (IH He') as [A [B C]].
      destruct (span is_ws_ascii ((d :: u') ++ v)) as [a1 b1] eqn:S1. destruct (span is_ws_ascii (d :: u')) as [a2 b2] eqn:S2.
      cbn [fst length] in *. rewrite A. repeat split; [exact B | exact C].
  - cbn [fst length skipn]. repeat split. exact He.
Qed.

Lemma r0_tail_app (u v : str) : ends62 u -> r0_tail (u ++ v) = r0_tail u.
Proof.
  intros He. unfold r0_tail.
  destruct (ws_run_app u v He) as [A [B C]]. rewrite A, B.
  set (u1 := skipn (ws_run u) u) in *.
  assert (Hsl : match u1 ++ v with 47 :: _ => 1%nat | _ => 0%nat end = match u1 with 47 :: _ => 1%nat | _ => 0%nat end).
  { destruct u1 as [|c u1']; [exfalso; apply (ends62_nonempty _ C); reflexivity | reflexivity]. }
  rewrite Hsl. set (sl := match u1 with 47 :: _ => 1%nat | _ => 0%nat end).
  assert (Hu2 : skipn sl (u1 ++ v) = skipn sl u1 ++ v /\ ends62 (skipn sl u1)).
  { subst sl. destruct u1 as [|c u1']; [exfalso; apply (ends62_nonempty _ C); reflexivity|].
    destruct (N.eq_dec c 47) as [-> | Hc].
    - cbn [skipn app]. split; [reflexivity|]. apply (ends62_tail 47); [assumption|].
      intros ->. destruct C as [b Hb]. destruct b as [|x [|y b]]; discriminate.
    - assert (E : match c :: u1' with 47 :: _ => 1%nat | _ => 0%nat end = 0%nat).
      { destruct c as [|p]; [reflexivity|]. do 6 (destruct p as [p|p|]; try reflexivity). congruence. }
      rewrite E. split; [reflexivity | assumption]. }
  destruct Hu2 as [D F]. rewrite D.
  destruct (ws_run_app (skipn sl u1) v F) as [A2 [B2 C2]]. rewrite A2, B2.
  destruct (skipn (ws_run (skipn sl u1)) (skipn sl u1)) as [|c w]; [exfalso; apply (ends62_nonempty _ C2); reflexivity | reflexivity].
Qed.

Lemma r0_tail_single : r0_tail [62] = Some 1%nat.
Proof. reflexivity. Qed.

Lemma r0_tail_len (u : str) (l : nat) : r0_tail u = Some l -> (l <= length u)%nat /\ nth_error u (l - 1) = Some 62 /\ (1 <= l)%nat.
Proof.
  unfold r0_tail. set (w1 := ws_run u). set (u1 := skipn w1 u).
  set (sl := match u1 with 47 :: _ => 1%nat | _ => 0%nat end). set (u2 := skipn sl u1). set (w2 := ws_run u2).
  destruct (skipn w2 u2) as [|c tl] eqn:E; [discriminate|].
  destruct (N.eq_dec c 62) as [-> | Hc].
  - intros H. injection H as <-.
    assert (X : skipn (w1 + sl + w2) u = 62 :: tl).
    { subst u2 u1. rewrite !skipn_skipn' in E. rewrite <- E. f_equal. lia. }
    assert (Y : (w1 + sl + w2 < length u)%nat).
    { destruct (Nat.lt_ge_cases (w1 + sl + w2) (length u)); [assumption|]. rewrite skipn_all2 in X by assumption. discriminate. }
    repeat split; try lia.
    replace (w1 + sl + w2 + 1 - 1)%nat with (w1 + sl + w2)%nat by lia.
    rewrite <- (firstn_skipn (w1 + sl + w2) u) at 1. rewrite nth_error_app2 by (rewrite firstn_length; lia).
    rewrite firstn_length, Nat.min_l by lia. rewrite Nat.sub_diag, X. reflexivity.
  - intros H. exfalso. destruct c as [|p]; [discriminate|]. do 6 (destruct p as [p|p|]; try discriminate). congruence.
Qed.

Lemma r0_lazy_app (b v : str) : ~ In 62 b ->
  r0_lazy ((b ++ [62]) ++ v) = r0_lazy (b ++ [62]) /\
  exists k l, r0_lazy (b ++ [62]) = Some (k, l) /\ (k + l)%nat = length (b ++ [62]) /\ (1 <= l)%nat.
Proof.
  induction b as [|c b IH]; intros Hb.
  - cbn [app]. split.
    + cbn [r0_lazy]. change (62 :: v) with ([62] ++ v). rewrite (r0_tail_app [62] v) by (exists []; reflexivity). reflexivity.
    + exists 0%nat, 1%nat. repeat split; lia.
  - assert (Hb' : ~ In 62 b) by (intros H; apply Hb; right; exact H).
    destruct (IH Hb') as [IH1 [k [l [IH2 [IH3 IH4]]]]].
    assert (He : ends62 ((c :: b) ++ [62])) by (exists (c :: b); reflexivity).
    split.
    + change (((c :: b) ++ [62]) ++ v) with (c :: (b ++ [62]) ++ v). change ((c :: b) ++ [62]) with (c :: b ++ [62]).
      cbn [r0_lazy].
      change (c :: (b ++ [62]) ++ v) with (((c :: b) ++ [62]) ++ v). rewrite (r0_tail_app _ v He).
      change ((c :: b) ++ [62]) with (c :: b ++ [62]).
      destruct (r0_tail (c :: b ++ [62])); [reflexivity|]. rewrite IH1. reflexivity.
    + change ((c :: b) ++ [62]) with (c :: b ++ [62]) in *. cbn [r0_lazy].
      destruct (r0_tail (c :: b ++ [62])) as [l0|] eqn:ET.
      * exists 0%nat, l0. split; [reflexivity|].
        destruct (r0_tail_len _ _ ET) as [A [B C]]. split; [|exact C].
        destruct (Nat.eq_dec l0 (length (c :: b ++ [62]))) as [E | E]; [lia|].
        exfalso. apply Hb.
        assert (Hlt : (l0 - 1 < length (c :: b))%nat) by (cbn [length] in A, E; rewrite app_length in A, E; simpl in *; lia).
        change (c :: b ++ [62]) with ((c :: b) ++ [62]) in B.
        rewrite nth_error_app1 in B by exact Hlt. apply nth_error_In in B. exact B.
      * rewrite IH2. exists (S k), l. split; [reflexivity|]. split; [cbn [length]; lia | exact IH4].
Qed.

Lemma name_prefix_app (n : str) : (forall x, In x n -> x <> 62) -> forall body v,
  prefix_ci n ((body ++ [62]) ++ v) && at_boundary (skipn (length n) ((body ++ [62]) ++ v))
  = prefix_ci n (body ++ [62]) && at_boundary (skipn (length n) (body ++ [62])).
Proof.
  induction n as [|x n IH]; intros Hn body v.
  - cbn [prefix_ci length skipn andb]. apply at_boundary_app. destruct body; discriminate.
  - destruct body as [|c body].
    + cbn [app prefix_ci]. assert (E : (x =? lower 62) = false).
      { apply N.eqb_neq. change (lower 62) with 62. apply Hn. left. reflexivity. }
      rewrite E. reflexivity.
    + cbn [app prefix_ci length skipn]. rewrite <- !andb_assoc. f_equal.
      apply IH. intros y Hy. apply Hn. right. exact Hy.
Qed.

Lemma prefix_ci_len (n body : str) : (forall x, In x n -> x <> 62) -> prefix_ci n (body ++ [62]) = true -> (length n <= length body)%nat.
Proof.
  revert body. induction n as [|x n IH]; intros body Hn H; [simpl; lia|].
  destruct body as [|c body].
  - exfalso. cbn [app prefix_ci] in H. apply andb_true_iff in H. destruct H as [H _]. apply N.eqb_eq in H.
    change (lower 62) with 62 in H. apply (Hn x); [left; reflexivity | exact H].
  - cbn [app prefix_ci] in H. apply andb_true_iff in H. destruct H as [_ H].
    specialize (IH body (fun y Hy => Hn y (or_intror Hy)) H). simpl. lia.
Qed.

Lemma r0_names_ok : forall n, In n r0_names -> forall x, In x n -> x <> 62.
Proof.
  intros n Hn x Hx. unfold r0_names in Hn. simpl in Hn.
  repeat (destruct Hn as [<- | Hn]; [simpl in Hx; intuition (subst; discriminate)|]). destruct Hn.
Qed.

Lemma r0_name_app (names : list str) (body v : str) :
  (forall n, In n names -> forall x, In x n -> x <> 62) ->
  r0_name names ((body ++ [62]) ++ v) = r0_name names (body ++ [62]) /\
  forall ln, r0_name names (body ++ [62]) = Some ln -> (ln <= length body)%nat.
Proof.
  induction names as [|n names IH]; intros Hn; [split; [reflexivity | discriminate]|].
  destruct (IH (fun n' H' => Hn n' (or_intror H'))) as [IH1 IH2].
  cbn [r0_name]. rewrite (name_prefix_app n (Hn n (or_introl eq_refl)) body v).
  destruct (prefix_ci n (body ++ [62]) && at_boundary (skipn (length n) (body ++ [62]))) eqn:E.
  - split; [reflexivity|]. intros ln H. injection H as <-. apply andb_true_iff in E. destruct E as [E _].
    apply (prefix_ci_len n body (Hn n (or_introl eq_refl)) E).
  - split; assumption.
Qed.

Lemma r0_head (c : N) (r : str) : c <> 60 -> r0_match (c :: r) = None.
Proof.
  intros Hc. unfold r0_match. destruct c as [|p]; [reflexivity|].
  do 6 (destruct p as [p|p|]; try reflexivity). congruence.
Qed.

Lemma firstn_In' {A} (n : nat) (l : list A) (x : A) : In x (firstn n l) -> In x l.
Proof. intros H. rewrite <- (firstn_skipn n l). apply in_or_app. left. exact H. Qed.

Lemma r0_match_tag (m v : str) : tag_simple m ->
  r0_match (m ++ v) = r0_match m /\
  forall rep L, r0_match m = Some (rep, L) -> L = length m /\ tag_simple rep.
Proof.
  intros [body [-> [H60 H62]]].
  change ((60 :: body ++ [62]) ++ v) with (60 :: (body ++ [62]) ++ v).
  unfold r0_match.
  destruct (r0_name_app r0_names body v r0_names_ok) as [N1 N2]. rewrite N1.
  destruct (r0_name r0_names (body ++ [62])) as [ln|] eqn:EN; [|split; [reflexivity | discriminate]].
  specialize (N2 ln eq_refl).
  assert (S1 : skipn ln ((body ++ [62]) ++ v) = (skipn ln body ++ [62]) ++ v).
  { rewrite <- app_assoc, skipn_app. replace (ln - length body)%nat with 0%nat by lia. cbn [skipn]. rewrite <- app_assoc. reflexivity. }
  assert (S2 : skipn ln (body ++ [62]) = skipn ln body ++ [62]).
  { rewrite skipn_app. replace (ln - length body)%nat with 0%nat by lia. reflexivity. }
  rewrite S1, S2.
  assert (Hb3 : ~ In 62 (skipn ln body)).
  { intros H. apply H62. rewrite <- (firstn_skipn ln body). apply in_or_app. right. exact H. }
  destruct (r0_lazy_app (skipn ln body) v Hb3) as [L1 [k [l [L2 [L3 L4]]]]]. rewrite L1, L2.
  rewrite app_length, skipn_length in L3. simpl in L3.
  assert (Hk : (1 + ln + k <= length (60%N :: body))%nat) by (simpl; lia).
  assert (F1 : firstn (1 + ln + k) (60 :: (body ++ [62]) ++ v) = firstn (1 + ln + k) (60 :: body)).
  { rewrite <- (app_assoc body [62] v).
    change (60 :: body ++ [62] ++ v) with ((60 :: body) ++ [62] ++ v).
    rewrite firstn_app. replace (1 + ln + k - length (60%N :: body))%nat with 0%nat by lia. cbn [firstn]. apply app_nil_r. }
  assert (F2 : firstn (1 + ln + k) (60 :: body ++ [62]) = firstn (1 + ln + k) (60 :: body)).
  { change (60 :: body ++ [62]) with ((60 :: body) ++ [62]).
    rewrite firstn_app. replace (1 + ln + k - length (60%N :: body))%nat with 0%nat by lia. cbn [firstn]. apply app_nil_r. }
  rewrite F1, F2. split; [reflexivity|].
  intros rep L H. injection H as <- <-. split.
  - cbn [length]. rewrite app_length. simpl. lia.
  - exists (firstn (ln + k) body ++ [32; 47]). split.
    + cbn [firstn plus]. cbn [app]. rewrite <- app_assoc. reflexivity.
    + split; intros H; apply in_app_or in H; destruct H as [H | H].
      * apply H60. eapply firstn_In'. exact H.
      * simpl in H. intuition discriminate.
      * apply H62. eapply firstn_In'. exact H.
      * simpl in H. intuition discriminate.
Qed.

Definition r0_item (i : item) : item :=
  match i with
  | T c => T c
  | G m => match r0_match m with Some (rep, _) => G rep | None => G m end
  end.

Theorem r0_items (l : list item) : structured l -> r0 (flat l) = flat (map r0_item l) /\ structured (map r0_item l).
Proof.
  unfold r0. induction l as [|i l IH]; intros Hs; [split; [reflexivity | constructor]|].
  inversion Hs as [|? ? Hi Hsl]; subst. destruct (IH Hsl) as [IH1 IH2].
  destruct i as [c|m].
  - simpl in Hi. split; [|constructor; assumption].
    rewrite flat_cons. cbn [flat_item map r0_item]. rewrite flat_cons. cbn [flat_item].
    rewrite (scan_copy r0_match r0_head [c]); [rewrite IH1; reflexivity|]. intros [H | []]. congruence.
  - simpl in Hi. destruct (r0_match_tag m (flat l) Hi) as [M1 M2].
    rewrite flat_cons. cbn [flat_item map r0_item]. rewrite flat_cons.
    destruct (r0_match m) as [[rep L]|] eqn:EM.
    + destruct (M2 rep L eq_refl) as [HL Hrep]. cbn [flat_item]. split; [|constructor; assumption].
      rewrite (scan_match r0_match m (flat l) rep L); [rewrite IH1; reflexivity | rewrite M1; reflexivity | symmetry; exact HL |].
      destruct Hi as [body [-> _]]. discriminate.
    + cbn [flat_item]. split; [|constructor; assumption].
      destruct Hi as [body [-> [H60 H62]]].
      change ((60 :: body ++ [62]) ++ flat l) with (60 :: (body ++ [62]) ++ flat l).
      rewrite <- app_assoc. cbn [app].
      rewrite (scan_nomatch_tag r0_match r0_head body (flat l) H60).
      * rewrite IH1. change ((60 :: body ++ [62]) ++ flat (map r0_item l)) with (60 :: (body ++ [62]) ++ flat (map r0_item l)).
        rewrite <- app_assoc. reflexivity.
      * change (60 :: body ++ 62 :: flat l) with (60 :: body ++ [62] ++ flat l).
        rewrite app_assoc. change (60 :: (body ++ [62]) ++ flat l) with ((60 :: body ++ [62]) ++ flat l). exact M1.
Qed.

Lemma vis_r0 (l : list item) : vis (map r0_item l) = vis l.
Proof.
  unfold vis. induction l as [|i l IH]; [reflexivity|]. cbn [map flat_map]. rewrite IH. f_equal.
  destruct i as [c|m]; [reflexivity|]. cbn [r0_item]. destruct (r0_match m) as [[rep L]|]; reflexivity.
Qed.

(* XHTML.processFileContent's clean-up as a whole: tags are closed XML-style one by one, then as for HTML5 *)
Theorem post_xhtml_items (l : list item) : structured l ->
  exists l1 l2, r1_rel (map r0_item l) l1 /\ r2_rel l1 l2 /\ post_xhtml (flat l) = flat l2 /\ adds_nbsp (vis l) (vis l2).
Proof.
  intros Hs. destruct (r0_items l Hs) as [E0 Hs0].
  destruct (r1_items _ Hs0) as [l1 [H1 E1]].
  destruct (r2_items l1 (r1_rel_structured _ _ H1 Hs0)) as [l2 [H2 E2]].
  exists l1, l2. repeat split; try assumption.
  - unfold post_xhtml. rewrite E0, E1. exact E2.
  - rewrite <- (vis_r0 l), <- (r1_rel_vis _ _ H1). apply r2_rel_vis. exact H2.
Qed.

Example ex_r0 :
  structured [G [60; 98; 114; 62]; T 97; G [60; 105; 109; 103; 32; 97; 61; 98; 32; 62]; G [60; 98; 62]] /\
  post_xhtml (flat [G [60; 98; 114; 62]; T 97; G [60; 105; 109; 103; 32; 97; 61; 98; 32; 62]; G [60; 98; 62]]) =
  flat [G [60; 98; 114; 32; 47; 62]; T 97; G [60; 105; 109; 103; 32; 97; 61; 98; 32; 47; 62]; G [60; 98; 62]].
Proof.
  split; [|vm_compute; reflexivity].
  assert (TS : forall body, (forallb (fun c => negb (c =? 60) && negb (c =? 62)) body = true) -> item_ok (G (60 :: body ++ [62]))).
  { intros body Hb. exists body. split; [reflexivity|]. rewrite forallb_forall in Hb.
    split; intros Hin; specialize (Hb _ Hin); simpl in Hb; discriminate. }
  constructor; [apply (TS [98; 114]); reflexivity|].
  constructor; [simpl; discriminate|].
  constructor; [apply (TS [105; 109; 103; 32; 97; 61; 98; 32]); reflexivity|].
  constructor; [apply (TS [98]); reflexivity|]. constructor.
Qed.

(* statements in the form used by Properties/C12.v *)
Lemma r1_keeps (l l' : list item) : r1_rel l l' -> vis l' = vis l /\ other_tags l' = other_tags l.
Proof. intros H. split; [apply r1_rel_vis | apply r1_rel_tags]; exact H. Qed.

Lemma r2_keeps (l l' : list item) : r2_rel l l' -> tags_of l' = tags_of l /\ adds_nbsp (vis l) (vis l').
Proof. intros H. split; [apply r2_rel_tags | apply r2_rel_vis]; exact H. Qed.
