(* C05 -- proofs about Model/Args.v: balanced groups are delimited exactly (M3), the enable level is restored by every
   argument reader and by Macro.parse (M6), untyped delimited arguments are bound in position (M5, partial). *)
From Coq Require Import List ZArith Bool QArith Lia.
From Verif Require Import Val Units Numeric Args NumericSpec NumericProofs Signatures.
Import ListNotations.
Local Open Scope Z_scope.

(* ================================================================ M3: groups *)

Definition g_open (o : Z) (t : tok) : bool := tok_is_delim t o.
Definition b_open (t : tok) : bool := cat_of t =? 1.
Definition b_close (t : tok) : bool := cat_of t =? 2.

Lemma grouping_loop_scan : forall o c l n m s,
  scan (g_open o) (g_open c) n l = Some m ->
  grouping_loop o c n (l ++ s) = (l ++ fst (grouping_loop o c m s), snd (grouping_loop o c m s)).
Proof.
  intros o c l. induction l as [|t l IH]; intros n m s H.
  - cbn in H. inversion H; subst. cbn [app]. destruct (grouping_loop o c m s); reflexivity.
  - cbn [scan] in H. cbn [app grouping_loop]. unfold g_open in H.
    destruct (tok_is_delim t o) eqn:Eo.
    + rewrite (IH _ _ s H). reflexivity.
    + destruct (tok_is_delim t c) eqn:Ec.
      * destruct n as [|n']; [discriminate|]. rewrite (IH _ _ s H). reflexivity.
      * rewrite (IH _ _ s H). reflexivity.
Qed.

Theorem read_grouping_balanced : forall o c cat1 cat2 body rest,
  o <> c -> cat1 <> 0 -> cat2 <> 0 ->
  balanced (g_open o) (g_open c) body ->
  read_grouping o c (Ch cat1 o :: body ++ Ch cat2 c :: rest) = (Some body, rest).
Proof.
  intros o c cat1 cat2 body rest Hoc H1 H2 Hb. unfold read_grouping, tok_is_delim at 1.
  replace (cat1 =? 0) with false by (symmetry; apply Z.eqb_neq, H1). rewrite Z.eqb_refl. cbn [negb andb].
  rewrite (grouping_loop_scan o c body O O _ Hb). cbn [grouping_loop tok_is_delim].
  replace (cat2 =? 0) with false by (symmetry; apply Z.eqb_neq, H2).
  replace (c =? o) with false by (symmetry; apply Z.eqb_neq; congruence). rewrite Z.eqb_refl. cbn [negb andb fst snd].
  rewrite app_nil_r. reflexivity.
Qed.

(* an absent optional argument: nothing is read, the stream is untouched *)
Theorem read_grouping_absent : forall o c s,
  match s with [] => True | t :: _ => tok_is_delim t o = false end ->
  read_grouping o c s = (None, s).
Proof. intros o c [|t r] H; [reflexivity|]. cbn [read_grouping]. rewrite H. reflexivity. Qed.

(* in particular a control sequence -- also the control symbol named like the opening delimiter: \[ \( \< -- never opens
   (nor closes) a grouping: the test has the guard t.catcode != CC_ESCAPE on both delimiters *)
Theorem read_grouping_absent_escape : forall o c k e r, read_grouping o c (Cs k e :: r) = (None, Cs k e :: r).
Proof. intros. apply read_grouping_absent. reflexivity. Qed.

Theorem grouping_escape_transparent : forall o c k e n l s,
  grouping_loop o c n (Cs k e :: l ++ s) = (Cs k e :: fst (grouping_loop o c n (l ++ s)), snd (grouping_loop o c n (l ++ s))).
Proof. intros. cbn [grouping_loop tok_is_delim]. destruct (grouping_loop o c n (l ++ s)); reflexivity. Qed.

Lemma group_loop_scan : forall l n m s,
  scan b_open b_close n l = Some m ->
  group_loop n (l ++ s) = (l ++ fst (group_loop m s), snd (group_loop m s)).
Proof.
  intros l. induction l as [|t l IH]; intros n m s H.
  - cbn in H. inversion H; subst. cbn [app]. destruct (group_loop m s); reflexivity.
  - cbn [scan] in H. cbn [app group_loop]. unfold b_open, b_close in H.
    destruct (cat_of t =? 1) eqn:E1.
    + rewrite (IH _ _ s H). reflexivity.
    + destruct (cat_of t =? 2) eqn:E2.
      * destruct n as [|n']; [discriminate|]. rewrite (IH _ _ s H). reflexivity.
      * rewrite (IH _ _ s H). reflexivity.
Qed.

Theorem read_token_balanced : forall x y body rest,
  balanced b_open b_close body ->
  read_token (Ch 1 x :: body ++ Ch 2 y :: rest) = (Some body, rest).
Proof.
  intros x y body rest Hb. cbn [read_token cat_of]. change (1 =? 1) with true. cbv iota.
  rewrite (group_loop_scan body O O _ Hb). cbn [group_loop cat_of]. change (2 =? 1) with false. change (2 =? 2) with true.
  cbn [fst snd]. rewrite app_nil_r. reflexivity.
Qed.

(* a single token that is neither a group opener nor a math shift is an argument by itself *)
Theorem read_token_single : forall t rest, cat_of t <> 1 -> cat_of t <> 3 -> read_token (t :: rest) = (Some [t], rest).
Proof.
  intros t rest H1 H3. cbn [read_token].
  replace (cat_of t =? 1) with false by (symmetry; apply Z.eqb_neq, H1).
  replace (cat_of t =? 3) with false by (symmetry; apply Z.eqb_neq, H3). reflexivity.
Qed.

(* the known finding on the faithful Model: the bracket reader does not track braces, so a closing bracket protected by
   braces ends the optional argument:  [o{]}p]  *)
Theorem read_grouping_braces_refuted :
  exists body rest, balanced b_open b_close body /\
    read_grouping 91 93 (Ch 12 91 :: body ++ Ch 12 93 :: rest) <> (Some body, rest).
Proof.
  exists [Ch 11 111; Ch 1 123; Ch 12 93; Ch 2 125; Ch 11 112], []. split; [reflexivity|]. vm_compute. discriminate.
Qed.

(* ================================================================ M6: the enable level *)

Lemma internal_level : forall A (reader : list tok -> Z -> res A) inj l s lvl v s' lvl',
  (forall x y a b c, reader x y = Ok a b c -> c = y) ->
  internal reader inj l s lvl = AOk v s' lvl' -> lvl' = lvl.
Proof.
  intros A reader inj l s lvl v s' lvl' Hr H. unfold internal in H.
  destruct (expand_for_cast lvl l); [|discriminate].
  destruct (reader _ lvl) eqn:E; try discriminate. inversion H; subst. eapply Hr; eauto.
Qed.

Lemma cast_level : forall a l s lvl v s' lvl', cast a l s lvl = AOk v s' lvl' -> lvl' = lvl.
Proof.
  intros a l s lvl v s' lvl' H. unfold cast in H.
  destruct (existsb unmodelled_char l); [discriminate|].
  destruct (classify (a_type a)); try discriminate; try (inversion H; reflexivity).
  - destruct (filter _ l); [discriminate|]. inversion H; reflexivity.
  - destruct (cast_str l); [|discriminate]. inversion H; reflexivity.
  - destruct (existsb _ l); [discriminate|]. destruct (mapM _ _); [|discriminate]. inversion H; reflexivity.
  - destruct (dict_loop _ _ _ _ _ _ _ _); [|discriminate]. inversion H; reflexivity.
  - eapply internal_level; [|exact H]. intros; eapply read_dimen_level; eauto.
  - eapply internal_level; [|exact H]. intros; eapply read_integer_level; eauto.
  - eapply internal_level; [|exact H]. intros; eapply read_decimal_level; eauto.
Qed.

Lemma read_generic_level : forall a s lvl v s' lvl', read_generic a s lvl = AOk v s' lvl' -> lvl' = lvl + 1.
Proof.
  intros a s lvl v s' lvl' H. unfold read_generic in H.
  destruct (a_spec a) as [[|x [|y [|z sp]]]|].
  - discriminate.
  - destruct (read_character x s) as [[t|] s1]; inversion H; reflexivity.
  - destruct (read_grouping x y s) as [[l|] s1].
    + destruct (cast a l s1 lvl) eqn:E; try discriminate. inversion H; subst. apply cast_level in E. lia.
    + inversion H; reflexivity.
  - discriminate.
  - destruct (read_token s) as [[l|] s1].
    + destruct (cast a l s1 lvl) eqn:E; try discriminate. inversion H; subst. apply cast_level in E. lia.
    + inversion H; reflexivity.
Qed.

Lemma of_res_level : forall A (inj : A -> aval) r lvl v s' lvl',
  (forall a b c, r = Ok a b c -> c = lvl) -> of_res inj r = AOk v s' lvl' -> lvl' = lvl + 1.
Proof. intros A inj r lvl v s' lvl' Hr H. destruct r as [a0 s0 l0|k0 l0|]; try discriminate. pose proof (Hr a0 s0 l0 eq_refl) as Hl. cbn in H. inversion H. lia. Qed.

(* every path through readArgumentAndSource that returns restores ParameterCommand._enablelevel
   (the branch for type `any` included: that is fix-1) *)
Theorem read_argument_level : forall a s lvl v s' lvl', read_argument a s lvl = AOk v s' lvl' -> lvl' = lvl.
Proof.
  intros a s lvl v s' lvl' H. unfold read_argument in H.
  destruct (classify (a_type a));
    try (apply read_generic_level in H; lia);
    try (match type of H with
         | of_res _ (read_dimen _ _ ?l) = _ =>
             apply (of_res_level _ _ _ l) in H; [lia|intros ? ? ? Hx; eapply read_dimen_level; exact Hx]
         | of_res _ (read_glue _ _ ?l) = _ =>
             apply (of_res_level _ _ _ l) in H; [lia|intros ? ? ? Hx; eapply read_glue_level; exact Hx]
         | of_res _ (read_integer _ _ ?l) = _ =>
             apply (of_res_level _ _ _ l) in H; [lia|intros ? ? ? Hx; eapply read_integer_level; exact Hx]
         end);
    try discriminate.
  - destruct (read_optional_spaces s); [apply read_generic_level in H; lia|inversion H; lia].
  - destruct (read_optional_spaces s); [apply read_generic_level in H; lia|].
    destruct (is_plain t); [inversion H; lia|discriminate].
  - destruct (until_bgroup _). inversion H; lia.
  - destruct (until_space _). destruct (existsb _ _ || existsb _ _); [discriminate|]. inversion H; lia.
Qed.

(* Macro.parse: the level after all the arguments is the level before *)
Theorem parse_args_level : forall args s lvl acc b s' lvl', parse_args args s lvl acc = POk b s' lvl' -> lvl' = lvl.
Proof.
  induction args as [|a args IH]; intros s lvl acc b s' lvl' H; cbn [parse_args] in H.
  - inversion H; reflexivity.
  - destruct (read_argument a s lvl) eqn:E; try discriminate. apply read_argument_level in E. subst. eapply IH; eauto.
Qed.

(* before fix-1 the branch for type `any` returned at level - 1: the statement fails on that (faithful) variant *)
Definition read_any_unfixed (s0 : list tok) (lvl0 : Z) : ares :=
  let s := read_optional_spaces s0 in
  let lvl := lvl0 - 1 in
  let '(l, s') := until_space s in AOk (VToks l) s' lvl.

Theorem enable_balanced_any_refuted : exists s lvl v s' lvl', read_any_unfixed s lvl = AOk v s' lvl' /\ lvl' <> lvl.
Proof. exists [Ch 11 98; Ch 10 32], 0, (VToks [Ch 11 98]), [], (-1). split; [reflexivity|lia]. Qed.

(* ================================================================ M5 (untyped delimited arguments): bound in position *)

(* signature elements whose value is the delimited token list itself *)
Inductive uarg :=
| UMand (name : list Z)                    (* name          -- a brace group (or a single token) *)
| UOpt (name : list Z) (o c : Z)           (* [ name ]  ( name )  < name >  -- optional grouping *)
| UMod (ch : Z).                           (* *  +  -  =     -- optional single character *)

Definition compile_u (u : uarg) : arg :=
  match u with
  | UMand n => mkArg n None None None None true
  | UOpt n o c => mkArg n (Some [o; c]) None None None true
  | UMod ch => mkArg (if ch =? 61 then nm_equals else nm_modifier) (Some [ch]) None None None false
  end.

Definition modelled (l : list tok) : Prop := existsb unmodelled_char l = false.
Definition not_blank_head (s : list tok) : Prop := match s with Ch cat _ :: _ => cat <> 10 | _ => True end.

(* conforming invocations: signature, token stream, bindings in declaration order, what remains after the call *)
Inductive call : list uarg -> list tok -> list (list Z * aval) -> list tok -> Prop :=
| call_nil : forall s, call [] s [] s
| call_mand : forall n k x y body us s b s',
    balanced b_open b_close body -> modelled body -> call us s b s' ->
    call (UMand n :: us) (blanks k ++ Ch 1 x :: body ++ Ch 2 y :: s) ((n, VToks body) :: b) s'
| call_mand_token : forall n k t us s b s',
    cat_of t <> 1 -> cat_of t <> 3 -> cat_of t <> 10 -> modelled [t] -> call us s b s' ->
    call (UMand n :: us) (blanks k ++ t :: s) ((n, VToks [t]) :: b) s'
| call_opt_present : forall n o c k body us s b s',
    o <> c -> balanced (g_open o) (g_open c) body -> modelled body -> call us s b s' ->
    call (UOpt n o c :: us) (blanks k ++ Ch 12 o :: body ++ Ch 12 c :: s) ((n, VToks body) :: b) s'
| call_opt_absent : forall n o c k us s b s',
    not_blank_head s -> match s with [] => True | t :: _ => tok_is_delim t o = false end -> call us s b s' ->
    call (UOpt n o c :: us) (blanks k ++ s) ((n, VNone) :: b) s'
| call_mod_present : forall ch k us s b s',
    ch <> 32 -> call us s b s' ->
    call (UMod ch :: us) (blanks k ++ Ch 12 ch :: s) ((a_name (compile_u (UMod ch)), VTok (Ch 12 ch)) :: b) s'
| call_mod_absent : forall ch k us s b s',
    not_blank_head s -> match s with [] => True | t :: _ => tok_is_char t ch = false end -> call us s b s' ->
    call (UMod ch :: us) (blanks k ++ s) ((a_name (compile_u (UMod ch)), VNone) :: b) s'.

Lemma ros_not_blank : forall s, not_blank_head s -> read_optional_spaces s = s.
Proof.
  intros [|[cat c|k e] r] H; try reflexivity. cbn in H. cbn.
  replace (cat =? 10) with false by (symmetry; apply Z.eqb_neq, H). reflexivity.
Qed.

Lemma cast_untyped : forall n sp ex body s lvl, modelled body -> cast (mkArg n sp None None None ex) body s lvl = AOk (VToks body) s lvl.
Proof. intros n sp ex body s lvl Hm. unfold cast. unfold modelled in Hm. rewrite Hm. reflexivity. Qed.

Theorem parse_binds : forall us s b s',
  call us s b s' ->
  forall lvl acc, parse_args (map compile_u us) s lvl acc = POk (rev acc ++ b) s' lvl.
Proof.
  intros us s b s' H. induction H; intros lvl acc; cbn [map parse_args].
  - rewrite app_nil_r. reflexivity.
  - (* brace group *)
    unfold read_argument. cbn [compile_u a_type classify]. unfold read_generic. cbn [a_spec].
    rewrite ros_blanks, (ros_not_blank (Ch 1 x :: _)) by (cbn; lia).
    rewrite (read_token_balanced x y body s H), (cast_untyped _ _ _ body s _ H0).
    replace (lvl - 1 + 1) with lvl by lia. rewrite IHcall. cbn [a_name rev]. rewrite <- app_assoc. reflexivity.
  - (* single token *)
    unfold read_argument. cbn [compile_u a_type classify]. unfold read_generic. cbn [a_spec].
    rewrite ros_blanks, (ros_not_blank (t :: s)) by (destruct t; cbn in *; auto).
    rewrite (read_token_single t s H H0), (cast_untyped _ _ _ [t] s _ H2).
    replace (lvl - 1 + 1) with lvl by lia. rewrite IHcall. cbn [a_name rev]. rewrite <- app_assoc. reflexivity.
  - (* optional argument present *)
    unfold read_argument. cbn [compile_u a_type classify]. unfold read_generic. cbn [a_spec].
    rewrite ros_blanks, (ros_not_blank (Ch 12 o :: _)) by (cbn; lia).
    rewrite (read_grouping_balanced o c 12 12 body s H) by (try lia; assumption).
    rewrite (cast_untyped _ _ _ body s _ H1).
    replace (lvl - 1 + 1) with lvl by lia. rewrite IHcall. cbn [a_name rev]. rewrite <- app_assoc. reflexivity.
  - (* optional argument absent *)
    unfold read_argument. cbn [compile_u a_type classify]. unfold read_generic. cbn [a_spec].
    rewrite ros_blanks, (ros_not_blank s H), (read_grouping_absent o c s H0).
    replace (lvl - 1 + 1) with lvl by lia. rewrite IHcall. cbn [a_name rev]. rewrite <- app_assoc. reflexivity.
  - (* modifier present *)
    unfold read_argument. cbn [compile_u a_type classify]. unfold read_generic. cbn [a_spec].
    rewrite ros_blanks, (ros_not_blank (Ch 12 ch :: s)) by (cbn; lia).
    cbn [read_character tok_is_char]. rewrite Z.eqb_refl.
    replace (lvl - 1 + 1) with lvl by lia. rewrite IHcall. cbn [a_name rev]. rewrite <- app_assoc. reflexivity.
  - (* modifier absent *)
    unfold read_argument. cbn [compile_u a_type classify]. unfold read_generic. cbn [a_spec].
    rewrite ros_blanks, (ros_not_blank s H).
    assert (Hrc : read_character ch s = (None, s)).
    { destruct s as [|t r]; [reflexivity|]. cbn [read_character]. rewrite H0. reflexivity. }
    rewrite Hrc. replace (lvl - 1 + 1) with lvl by lia. rewrite IHcall. cbn [a_name rev]. rewrite <- app_assoc. reflexivity.
Qed.

(* ================================================================ M4 (finite, regenerated): every args string of the code base *)

(* the declaration a compiled argument stands for *)
Definition print_arg (a : arg) : list Z :=
  if list_eqb (a_name a) nm_modifier || list_eqb (a_name a) nm_equals then
    match a_spec a with Some sp => sp | None => [] end
  else
    let body := a_name a ++
                match a_type a with
                | Some ty => 58 :: ty ++ (match a_delim a with Some d => [40; d; 41] | None => [] end)
                                   ++ (match a_subtype a with Some st => 58 :: st | None => [] end)
                | None => []
                end in
    match a_spec a with
    | Some [o; c] => o :: body ++ [c]
    | _ => body
    end.

Definition no_blanks (s : list Z) : list Z := filter (fun c => negb (is_ws c)) s.

Definition sig_roundtrip (s : list Z) : bool :=
  match compile_sig s with
  | SigOk l => list_eqb (no_blanks (concat (map print_arg l))) (no_blanks s)
  | SigErr _ => false
  end.

(* the signature compiler accepts each of them, and what it compiled is what was declared (blanks aside) *)
Lemma repo_signatures_roundtrip : forallb sig_roundtrip repo_signatures = true.
Proof. vm_compute. reflexivity. Qed.

Theorem repo_signature_compiles : forall s, In s repo_signatures ->
  exists l, compile_sig s = SigOk l /\ no_blanks (concat (map print_arg l)) = no_blanks s.
Proof.
  intros s Hin. pose proof (proj1 (forallb_forall _ _) repo_signatures_roundtrip s Hin) as H.
  unfold sig_roundtrip in H. destruct (compile_sig s) as [l|k]; [|discriminate].
  exists l. split; [reflexivity|]. apply list_eqb_eq. exact H.
Qed.
