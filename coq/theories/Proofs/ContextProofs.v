(* Proofs for C04: the Model of the context stack (Model/Context.v) meets the lexical Spec (Spec/Scope.v). *)
From Coq Require Import List NArith ZArith Bool Lia.
Import ListNotations.
From Verif Require Import Val Tokenizer Scope Context.
Local Open Scope N_scope.

(* ------------------------------------------------------------------------------------------------ *)
(* association lists, chained lookup *)

Lemma find_app {A} k (l1 l2 : list (N * A)) :
  find k (l1 ++ l2) = match find k l1 with Some v => Some v | None => find k l2 end.
Proof.
  induction l1 as [|[k' a] l1 IH]; cbn; [reflexivity|]. destruct (k' =? k); [reflexivity|apply IH].
Qed.

Lemma chain_get_concat fs b k : chain_get fs b k = find k (concat (map macros fs) ++ macros b).
Proof.
  induction fs as [|f r IH]; cbn; [reflexivity|].
  rewrite <- app_assoc, find_app. destruct (find k (macros f)); [reflexivity|apply IH].
Qed.

Lemma chain_let_concat fs b k : chain_let fs b k = find k (concat (map lets fs) ++ lets b).
Proof.
  induction fs as [|f r IH]; cbn; [reflexivity|].
  rewrite <- app_assoc, find_app. destruct (find k (lets f)); [reflexivity|apply IH].
Qed.

(* the lexical environment a state stands for *)
Definition abs (s : state) : senv :=
  {| loc_m := concat (map macros (ups s)); loc_l := concat (map lets (ups s)); cat := table_at s (cur s);
     glo_m := macros (bottom s); glo_l := lets (bottom s); s_cells := m_cells s |}.

Lemma lookup_abs s k : lookup s k = s_lookup (abs s) k.
Proof. unfold lookup, s_lookup. cbn. apply chain_get_concat. Qed.
Lemma get_let_abs s k : get_let s k = s_getlet (abs s) k.
Proof. unfold get_let, s_getlet. cbn. apply chain_let_concat. Qed.
Lemma which_abs s c : which s c = s_which (abs s) c.
Proof. reflexivity. Qed.

(* ------------------------------------------------------------------------------------------------ *)
(* M1: lookup yields the innermost live definition *)

Definition layers (s : state) : list (list (name * value)) := map macros (ups s ++ [bottom s]).

Fixpoint find_layers {A} (ls : list (list (N * A))) (k : N) : option A :=
  match ls with
  | [] => None
  | l :: r => match find k l with Some v => Some v | None => find_layers r k end
  end.

Lemma innermost_find_layers {A} (ls : list (list (N * A))) k : innermost ls k (find_layers ls k).
Proof.
  induction ls as [|l r IH]; cbn.
  - intros g [].
  - destruct (find k l) eqn:E.
    + exists [], l, r. repeat split; [intros g []|assumption].
    + destruct (find_layers r k) eqn:F; cbn in IH |- *.
      * destruct IH as (pre & l' & post & -> & Hpre & Hl). exists (l :: pre), l', post. repeat split; [|assumption].
        intros g [<-|Hg]; [assumption|apply Hpre, Hg].
      * intros g [<-|Hg]; [assumption|apply IH, Hg].
Qed.

Lemma innermost_unique {A} (ls : list (list (N * A))) k r : innermost ls k r -> r = find_layers ls k.
Proof.
  revert r. induction ls as [|l ls IH]; intros [v|]; cbn.
  - intros (pre & l' & post & H & _). destruct pre; discriminate H.
  - reflexivity.
  - intros (pre & l' & post & H & Hpre & Hl). destruct pre as [|g pre]; cbn in H; injection H as <- ->.
    + now rewrite Hl.
    + rewrite (Hpre l (or_introl eq_refl)). apply (IH (Some v)). exists pre, l', post. repeat split; [|assumption].
      intros g Hg. apply Hpre. now right.
  - intros H. rewrite (H l (or_introl eq_refl)). apply (IH None). intros g Hg. apply H. now right.
Qed.

Lemma chain_get_layers fs b k : chain_get fs b k = find_layers (map macros (fs ++ [b])) k.
Proof.
  induction fs as [|f r IH]; cbn; [now destruct (find k (macros b))|]. destruct (find k (macros f)); [reflexivity|apply IH].
Qed.

Theorem lookup_innermost s k r : lookup s k = r <-> innermost (layers s) k r.
Proof.
  unfold lookup, layers. rewrite chain_get_layers. split.
  - intros <-. apply innermost_find_layers.
  - intros H. symmetry. now apply innermost_unique.
Qed.

Lemma chain_let_layers fs b k : chain_let fs b k = find_layers (map lets (fs ++ [b])) k.
Proof.
  induction fs as [|f r IH]; cbn; [now destruct (find k (lets b))|]. destruct (find k (lets f)); [reflexivity|apply IH].
Qed.

Theorem get_let_innermost s k r : get_let s k = r <-> innermost (map lets (ups s ++ [bottom s])) k r.
Proof.
  unfold get_let. rewrite chain_let_layers. split.
  - intros <-. apply innermost_find_layers.
  - intros H. symmetry. now apply innermost_unique.
Qed.

(* ------------------------------------------------------------------------------------------------ *)
(* well-formed states; the heap only grows (copy-on-write safety) *)

Definition wf (s : state) : Prop :=
  cur s = cats (top s) /\ Forall (fun f => (cats f < length (heap s))%nat) (ups s ++ [bottom s]).

Lemma init_wf : wf init_state.
Proof. split; [reflexivity|]. repeat constructor. Qed.

Lemma update_nth_app_length {A} (l : list A) (x : A) g : update_nth (length l) g (l ++ [x]) = l ++ [g x].
Proof. induction l as [|a l IH]; cbn; [reflexivity|now rewrite IH]. Qed.

Lemma heap_upd_top g s : heap (upd_top g s) = heap s.
Proof. unfold upd_top. destruct (ups s); reflexivity. Qed.
Lemma cur_upd_top g s : cur (upd_top g s) = cur s.
Proof. unfold upd_top. destruct (ups s); reflexivity. Qed.
Lemma cells_upd_top g s : m_cells (upd_top g s) = m_cells s.
Proof. unfold upd_top. destruct (ups s); reflexivity. Qed.

Lemma heap_upd_target l g s : heap (upd_target l g s) = heap s.
Proof. destruct l; [apply heap_upd_top|reflexivity]. Qed.
Lemma cells_upd_target l g s : m_cells (upd_target l g s) = m_cells s.
Proof. destruct l; [apply cells_upd_top|reflexivity]. Qed.

Lemma getitem_heap k s : heap (fst (getitem k s)) = heap s.
Proof. unfold getitem. destruct (lookup s k); reflexivity. Qed.

Lemma heap_catcode c k s : heap (catcode c k s) = heap s ++ [set_catcode (table_at s (cur s)) c k].
Proof.
  unfold catcode, alloc, heap_update. cbn. rewrite heap_upd_top. cbn. now rewrite update_nth_app_length.
Qed.
Lemma heap_verbatim s : heap (verbatim s) = heap s ++ [verbatim_table].
Proof. unfold verbatim, alloc. cbn. now rewrite heap_upd_top. Qed.

Lemma step_heap o s : exists ext, heap (step o s) = heap s ++ ext.
Proof.
  destruct o; cbn [step].
  - exists []. rewrite app_nil_r. unfold push. destruct (is_doc o); reflexivity.
  - exists []. now rewrite app_nil_r.
  - exists []. rewrite app_nil_r. apply heap_upd_top.
  - exists []. now rewrite app_nil_r.
  - exists []. rewrite app_nil_r. unfold let_macro. destruct (getitem s0 s) as [s1 v] eqn:E.
    rewrite heap_upd_target. change s1 with (fst (s1, v)). rewrite <- E. apply getitem_heap.
  - exists []. rewrite app_nil_r. apply heap_upd_target.
  - exists []. rewrite app_nil_r. unfold let_macro. destruct (getitem s0 s) as [s1 v] eqn:E.
    rewrite heap_upd_target. change s1 with (fst (s1, v)). rewrite <- E. apply getitem_heap.
  - exists []. rewrite app_nil_r. apply heap_upd_target.
  - eexists. apply heap_catcode.
  - eexists. apply heap_verbatim.
  - exists []. rewrite app_nil_r. apply getitem_heap.
  - exists []. rewrite app_nil_r. unfold new_if. destruct (lookup s k); reflexivity.
  - exists []. rewrite app_nil_r. unfold new_counter. destruct (find c (m_cells s)); reflexivity.
  - exists []. now rewrite app_nil_r.
Qed.

(* copy-on-write safety, for every history whatsoever: no table that exists is ever modified *)
Theorem cow_safe h : forall s, exists ext, heap (run h s) = heap s ++ ext.
Proof.
  induction h as [|o h IH]; intros s; cbn.
  - exists []. now rewrite app_nil_r.
  - destruct (step_heap o s) as (e1 & H1). destruct (IH (step o s)) as (e2 & H2).
    exists (e1 ++ e2). unfold run in H2. rewrite H2, H1. now rewrite app_assoc.
Qed.

Corollary tables_unchanged h s r : (r < length (heap s))%nat -> table_at (run h s) r = table_at s r.
Proof.
  intros Hr. destruct (cow_safe h s) as (ext & H). unfold table_at. rewrite H. now apply app_nth1.
Qed.

(* ------------------------------------------------------------------------------------------------ *)
(* pops *)

Lemma pop_none_suffix fs : exists pre, fs = pre ++ pop_none fs.
Proof.
  induction fs as [|f r (pre & IH)]; cbn; [now exists []|].
  destruct (fobj f); [exists (f :: pre); cbn; now rewrite <- IH|now exists [f]].
Qed.

Lemma pop_obj_suffix p fs : exists pre, fs = pre ++ pop_obj p fs.
Proof.
  induction fs as [|f r (pre & IH)]; cbn; [now exists []|].
  destruct (fobj f) as [o|].
  - destruct (oid o =? oid p); [now exists [f]|].
    destruct (parent_is p o); [now exists []|].
    destruct ((otype p =? otype o) && (omode p =? 2)); [now exists [f]|].
    destruct (str_eqb _ _); [now exists [f]|]. exists (f :: pre). cbn. now rewrite <- IH.
  - exists (f :: pre). cbn. now rewrite <- IH.
Qed.

Lemma pop_none_through ex f rest :
  Forall (fun g => fobj g <> None) ex -> fobj f = None -> pop_none (ex ++ f :: rest) = rest.
Proof.
  intros Hex Hf. induction Hex as [|g ex Hg _ IH]; cbn; [now rewrite Hf|].
  destruct (fobj g); [assumption|contradiction].
Qed.

Lemma pop_obj_through p o ex f rest :
  Forall (fun g => fobj g = None) ex -> fobj f = Some o -> closes o p = true -> pop_obj p (ex ++ f :: rest) = rest.
Proof.
  intros Hex Hf Hc. induction Hex as [|g ex Hg _ IH]; cbn [app pop_obj].
  - rewrite Hf. unfold closes in Hc. destruct (oid o =? oid p); [reflexivity|]. cbn [orb] in Hc.
    apply andb_true_iff in Hc. destruct Hc as (Hpar & Hc). unfold parent_is.
    apply negb_true_iff in Hpar. rewrite Hpar.
    apply orb_true_iff in Hc. destruct Hc as [Hc|Hc]; rewrite Hc; [reflexivity|].
    now destruct (_ && _).
  - now rewrite Hg.
Qed.

(* ------------------------------------------------------------------------------------------------ *)
(* wf is an invariant *)

Lemma Forall_suffix {A} (P : A -> Prop) pre l : Forall P (pre ++ l) -> Forall P l.
Proof. intros H. apply Forall_app in H. tauto. Qed.

Lemma Forall_lt_ext (fs : list frame) (h ext : list table) :
  Forall (fun f => (cats f < length h)%nat) fs -> Forall (fun f => (cats f < length (h ++ ext))%nat) fs.
Proof. apply Forall_impl. intros f Hf. rewrite app_length. lia. Qed.

Lemma wf_cur_lt s : wf s -> (cur s < length (heap s))%nat.
Proof.
  intros (Hc & Hf). rewrite Hc. unfold top. rewrite Forall_forall in Hf. apply Hf.
  destruct (ups s); cbn; auto.
Qed.

Lemma wf_upd_top g s :
  (forall f, cats (g f) = cats f) -> wf s -> wf (upd_top g s).
Proof.
  intros Hg (Hc & Hf). destruct s as [u b h c m]. unfold wf, upd_top, top in *. cbn in *. destruct u as [|f r]; cbn in *.
  - rewrite Hg. split; [assumption|]. inversion Hf; subst. constructor; [now rewrite Hg|assumption].
  - rewrite Hg. split; [assumption|]. inversion Hf; subst. constructor; [now rewrite Hg|assumption].
Qed.

Lemma wf_upd_bottom g s :
  (forall f, cats (g f) = cats f) -> wf s -> wf (upd_bottom g s).
Proof.
  intros Hg (Hc & Hf). destruct s as [u b h c m]. unfold wf, upd_bottom, top in *. cbn in *. destruct u as [|f r]; cbn in *.
  - rewrite Hg. split; [assumption|]. inversion Hf; subst. constructor; [now rewrite Hg|assumption].
  - split; [assumption|]. inversion Hf as [|? ? Hh Ht]; subst. constructor; [assumption|].
    apply Forall_app in Ht. destruct Ht as (Ht & Hb). apply Forall_app. split; [assumption|].
    inversion Hb; subst. constructor; [now rewrite Hg|constructor].
Qed.

Lemma wf_set_mcells s c : wf s -> wf (set_mcells s c).
Proof. intros H. exact H. Qed.

Lemma wf_getitem k s : wf s -> wf (fst (getitem k s)).
Proof.
  intros H. unfold getitem. destruct (lookup s k); cbn; [assumption|]. now apply wf_upd_bottom.
Qed.

(* installing a fresh table r = length heap in the top frame *)
Lemma wf_install s t :
  wf s -> wf (set_cur (upd_top (fun f => set_cats f (length (heap s))) (set_heap s (heap s ++ [t]))) (length (heap s))).
Proof.
  intros (Hc & Hf). destruct s as [u b h c m]. unfold wf, upd_top, top in *. cbn in *. destruct u as [|f r]; cbn in *.
  - split; [reflexivity|]. constructor; [|constructor]. cbn. rewrite app_length. cbn. lia.
  - split; [reflexivity|]. inversion Hf; subst. constructor.
    + cbn. rewrite app_length. cbn. lia.
    + now apply Forall_lt_ext.
Qed.

Lemma wf_heap_update r g s : wf s -> wf (heap_update r g s).
Proof.
  intros (Hc & Hf). split; [exact Hc|]. cbn.
  assert (length (update_nth r g (heap s)) = length (heap s)) as ->; [|assumption].
  generalize (heap s) as l. revert r. induction r as [|r IH]; intros [|x l]; cbn; auto.
Qed.

Lemma step_wf o s : wf s -> wf (step o s).
Proof.
  intros H. destruct o; cbn [step].
  - (* push *)
    unfold push. pose proof (wf_cur_lt s H) as Hlt. destruct H as (Hc & Hf).
    destruct (is_doc o); split; cbn; try reflexivity.
    + constructor; [assumption|]. apply Forall_app in Hf. tauto.
    + constructor; assumption.
  - (* pop *)
    destruct H as (Hc & Hf). unfold pop. split; [reflexivity|]. cbn.
    destruct o as [p|].
    + destruct (pop_obj_suffix p (ups s)) as (pre & E). rewrite E, <- app_assoc in Hf. now apply Forall_suffix in Hf.
    + destruct (pop_none_suffix (ups s)) as (pre & E). rewrite E, <- app_assoc in Hf. now apply Forall_suffix in Hf.
  - now apply wf_upd_top.
  - now apply wf_upd_bottom.
  - unfold let_macro. destruct (getitem s0 s) as [s1 v] eqn:E. apply wf_upd_top; [reflexivity|].
    change s1 with (fst (s1, v)). rewrite <- E. now apply wf_getitem.
  - now apply wf_upd_top.
  - unfold let_macro. destruct (getitem s0 s) as [s1 v] eqn:E. apply wf_upd_bottom; [reflexivity|].
    change s1 with (fst (s1, v)). rewrite <- E. now apply wf_getitem.
  - now apply wf_upd_bottom.
  - unfold catcode, alloc. apply wf_heap_update. now apply wf_install.
  - unfold verbatim, alloc. now apply wf_install.
  - now apply wf_getitem.
  - unfold new_if. destruct (lookup s k); [assumption|]. apply wf_set_mcells.
    repeat (apply wf_upd_bottom; [reflexivity|]). assumption.
  - unfold new_counter. destruct (find c (m_cells s)); [assumption|]. apply wf_upd_bottom; [reflexivity|]. assumption.
  - assumption.
Qed.

Lemma run_wf h : forall s, wf s -> wf (run h s).
Proof. induction h as [|o h IH]; intros s H; cbn; [assumption|]. apply IH. now apply step_wf. Qed.

Lemma run_app h1 h2 s : run (h1 ++ h2) s = run h2 (run h1 s).
Proof. unfold run. apply fold_left_app. Qed.
Lemma run_cons o h s : run (o :: h) s = run h (step o s).
Proof. reflexivity. Qed.

(* ------------------------------------------------------------------------------------------------ *)
(* one non-grouping operation inside a group is its lexical meaning *)

Definition same_bottom (b' b : frame) : Prop := cats b' = cats b /\ fobj b' = fobj b.
Lemma same_bottom_refl b : same_bottom b b.
Proof. repeat split. Qed.
Lemma same_bottom_trans a b c : same_bottom a b -> same_bottom b c -> same_bottom a c.
Proof. unfold same_bottom. intuition congruence. Qed.

Lemma table_at_ext s ext r : (r < length (heap s))%nat -> nth r (heap s ++ ext) [] = table_at s r.
Proof. intros H. unfold table_at. now apply app_nth1. Qed.

Lemma senv_eq a b :
  loc_m a = loc_m b -> loc_l a = loc_l b -> cat a = cat b -> glo_m a = glo_m b -> glo_l a = glo_l b -> s_cells a = s_cells b ->
  a = b.
Proof. destruct a, b; cbn; intros; subst; reflexivity. Qed.

Lemma getitem_abs k s f us :
  ups s = f :: us ->
  abs (fst (getitem k s)) = fst (s_getitem (abs s) k) /\ snd (getitem k s) = snd (s_getitem (abs s) k) /\
  ups (fst (getitem k s)) = ups s /\ same_bottom (bottom (fst (getitem k s))) (bottom s) /\
  cur (fst (getitem k s)) = cur s /\ heap (fst (getitem k s)) = heap s.
Proof.
  intros E. unfold getitem, s_getitem. rewrite <- lookup_abs. destruct (lookup s k); cbn.
  - repeat split.
  - repeat split.
Qed.

Lemma simple_step o s f us :
  simple o = true -> wf s -> ups s = f :: us ->
  abs (step o s) = sstep o (abs s) /\
  (exists f', ups (step o s) = f' :: us /\ fobj f' = fobj f) /\
  same_bottom (bottom (step o s)) (bottom s).
Proof.
  intros Hs Hwf E. destruct o; cbn [simple] in Hs; try discriminate; cbn [step sstep].
  - (* AddLocal *)
    unfold add_local, upd_top. rewrite E. split; [|split; [eexists; split; reflexivity|apply same_bottom_refl]].
    apply senv_eq; cbn; try reflexivity; now rewrite E.
  - (* AddGlobal *)
    split; [|split; [exists f; split; [exact E|reflexivity]|repeat split]].
    apply senv_eq; reflexivity.
  - (* LetMacro *)
    unfold let_macro, upd_target. destruct (getitem_abs s0 s f us E) as (Ha & Hv & Hu & Hb & Hc & Hh).
    destruct (getitem s0 s) as [s1 v]. destruct (s_getitem (abs s) s0) as [e1 v']. cbn in *. subst v' e1.
    unfold upd_top. rewrite Hu, E. split; [|split; [eexists; split; reflexivity|exact Hb]].
    apply senv_eq; cbn; rewrite ?Hu, ?E; reflexivity.
  - (* LetTok *)
    unfold let_tok, upd_target, upd_top. rewrite E. split; [|split; [eexists; split; reflexivity|apply same_bottom_refl]].
    apply senv_eq; cbn; try reflexivity; now rewrite E.
  - (* GLetMacro *)
    unfold let_macro, upd_target. destruct (getitem_abs s0 s f us E) as (Ha & Hv & Hu & Hb & Hc & Hh).
    destruct (getitem s0 s) as [s1 v]. destruct (s_getitem (abs s) s0) as [e1 v']. cbn in *. subst v' e1.
    split; [|split; [exists f; split; [now rewrite Hu|reflexivity]|exact Hb]].
    apply senv_eq; reflexivity.
  - (* GLetTok *)
    split; [|split; [exists f; split; [exact E|reflexivity]|repeat split]].
    apply senv_eq; reflexivity.
  - (* Catcode *)
    split; [|split].
    + apply senv_eq; cbn -[catcode]; try (unfold catcode, alloc, heap_update, upd_top; cbn; rewrite E; reflexivity).
      unfold table_at at 1. rewrite heap_catcode.
      assert (cur (catcode c k s) = length (heap s)) as -> by reflexivity.
      now rewrite nth_middle.
    + unfold catcode, alloc, heap_update, upd_top. cbn. rewrite E. eexists; split; reflexivity.
    + unfold catcode, alloc, heap_update, upd_top. cbn. rewrite E. apply same_bottom_refl.
  - (* Verbatim *)
    split; [|split].
    + apply senv_eq; cbn -[verbatim]; try (unfold verbatim, alloc, upd_top; cbn; rewrite E; reflexivity).
      unfold table_at at 1. rewrite heap_verbatim.
      assert (cur (verbatim s) = length (heap s)) as -> by reflexivity.
      now rewrite nth_middle.
    + unfold verbatim, alloc, upd_top. cbn. rewrite E. eexists; split; reflexivity.
    + unfold verbatim, alloc, upd_top. cbn. rewrite E. apply same_bottom_refl.
  - (* Getitem *)
    destruct (getitem_abs k s f us E) as (Ha & Hv & Hu & Hb & Hc & Hh).
    split; [exact Ha|split; [exists f; split; [now rewrite Hu|reflexivity]|exact Hb]].
  - (* NewIf *)
    unfold new_if. rewrite <- lookup_abs. destruct (lookup s k).
    + split; [reflexivity|split; [exists f; split; [exact E|reflexivity]|apply same_bottom_refl]].
    + split; [|split; [exists f; split; [exact E|reflexivity]|repeat split]]. apply senv_eq; reflexivity.
  - (* NewCounter *)
    unfold new_counter. change (s_cells (abs s)) with (m_cells s). destruct (find c (m_cells s)).
    + split; [reflexivity|split; [exists f; split; [exact E|reflexivity]|apply same_bottom_refl]].
    + split; [|split; [exists f; split; [exact E|reflexivity]|repeat split]]. apply senv_eq; reflexivity.
  - (* SetCell *)
    split; [|split; [exists f; split; [exact E|reflexivity]|apply same_bottom_refl]]. apply senv_eq; reflexivity.
Qed.

(* ------------------------------------------------------------------------------------------------ *)
(* opening and closing a group *)

Lemma push_abs o s :
  is_doc o = false -> wf s ->
  let s0 := push o s in
  wf s0 /\ abs s0 = enter o (abs s) /\ heap s0 = heap s /\ bottom s0 = bottom s /\ m_cells s0 = m_cells s /\
  exists f0, ups s0 = f0 :: ups s /\ fobj f0 = o.
Proof.
  intros Hd Hwf. pose proof (step_wf (Push o) s Hwf) as Hwf0. cbn [step] in Hwf0.
  unfold push in *. rewrite Hd in *. cbn. split; [exact Hwf0|]. split; [|repeat split; eexists; split; reflexivity].
  apply senv_eq; reflexivity.
Qed.

Definition extra_ok (K : kind) (ex : list frame) : Prop :=
  match K with
  | Strict => ex = []
  | InObj => Forall (fun f => fobj f = None) ex
  | InGroup => Forall (fun f => fobj f <> None) ex
  end.

Lemma group_close o p s s1 ex f1 :
  wf s -> brackets o p = true -> wf s1 ->
  ups s1 = ex ++ f1 :: ups s -> fobj f1 = o -> extra_ok (kind_of o) ex ->
  (exists ext, heap s1 = heap s ++ ext) -> same_bottom (bottom s1) (bottom s) ->
  let s2 := pop p s1 in
  wf s2 /\ ups s2 = ups s /\ cur s2 = cur s /\ heap s2 = heap s1 /\ bottom s2 = bottom s1 /\ m_cells s2 = m_cells s1 /\
  abs s2 = leave (abs s) (abs s1).
Proof.
  intros Hwf Hbr Hwf1 Hu Hf Hex (ext & Hh) Hb. cbn zeta.
  pose proof (step_wf (Pop p) s1 Hwf1) as Hwf2. cbn [step] in Hwf2.
  assert (ups (pop p s1) = ups s) as Hu2.
  { unfold pop. cbn. rewrite Hu. destruct o as [x|], p as [y|]; cbn in Hbr; try discriminate.
    - apply andb_true_iff in Hbr. destruct Hbr as (_ & Hc). now apply pop_obj_through with (o := x).
    - now apply pop_none_through. }
  assert (cur (pop p s1) = cur s) as Hc2.
  { destruct Hwf2 as (Hc2 & _). rewrite Hc2. destruct Hwf as (Hc & _). rewrite Hc. unfold top. rewrite Hu2.
    destruct (ups s); [|reflexivity]. cbn. apply Hb. }
  split; [exact Hwf2|]. split; [exact Hu2|]. split; [exact Hc2|]. repeat split.
  apply senv_eq; unfold abs, leave; cbn [loc_m loc_l cat glo_m glo_l s_cells].
  - now rewrite Hu2.
  - now rewrite Hu2.
  - rewrite Hc2. unfold table_at at 1. change (heap (pop p s1)) with (heap s1). rewrite Hh. apply table_at_ext. now apply wf_cur_lt.
  - reflexivity.
  - reflexivity.
  - reflexivity.
Qed.

(* ------------------------------------------------------------------------------------------------ *)
(* M2, general form: the Model run on a balanced history computes its lexical meaning and leaves every frame
   below the one it started on untouched *)

Lemma is_doc_some o : odoc o = false -> is_doc (Some o) = false.
Proof. intros H. exact H. Qed.

Lemma sem_run K h e e' :
  Sem K h e e' ->
  forall s f us, wf s -> ups s = f :: us -> abs s = e ->
  let s' := run h s in
  wf s' /\ abs s' = e' /\ (exists ext, heap s' = heap s ++ ext) /\ same_bottom (bottom s') (bottom s) /\
  exists ex f', ups s' = ex ++ f' :: us /\ fobj f' = fobj f /\ extra_ok K ex.
Proof.
  induction 1 as [K e|K o h e e' Hs _ IH|K b h e e1 e' _ IHb _ IHh|K o p b h e e1 e' Hd Hc _ IHb _ IHh
                 |h e e' _ IH|o h e e' Hd _ IH]; intros s f us Hwf Hu Ha; cbn zeta.
  - (* nil *)
    cbn. split; [assumption|]. split; [assumption|]. split; [exists []; now rewrite app_nil_r|].
    split; [apply same_bottom_refl|]. exists [], f. repeat split; [assumption|]. destruct K; constructor.
  - (* simple *)
    rewrite run_cons. destruct (simple_step o s f us Hs Hwf Hu) as (Ha1 & (f1 & Hu1 & Hf1) & Hb1).
    rewrite Ha in Ha1. destruct (IH (step o s) f1 us (step_wf o s Hwf) Hu1 Ha1) as (W & A & (ext2 & Hh2) & B & ex & f' & U & F & X).
    split; [exact W|]. split; [exact A|]. split.
    { destruct (step_heap o s) as (ext1 & Hh1). exists (ext1 ++ ext2). rewrite Hh2, Hh1. now rewrite app_assoc. }
    split; [eapply same_bottom_trans; eassumption|]. exists ex, f'. repeat split; [exact U|congruence|exact X].
  - (* { b } h *)
    rewrite run_cons, run_app, run_cons. cbn [step].
    destruct (push_abs None s eq_refl Hwf) as (W0 & A0 & H0 & B0 & C0 & f0 & U0 & F0).
    rewrite Ha in A0. destruct (IHb (push None s) f0 (ups s) W0 U0 A0) as (W1 & A1 & (ext1 & Hh1) & B1 & ex & f1 & U1 & F1 & X1).
    rewrite H0 in Hh1. rewrite B0 in B1. rewrite F0 in F1.
    destruct (group_close None None s (run b (push None s)) ex f1 Hwf eq_refl W1 U1 F1 X1 (ex_intro _ ext1 Hh1) B1)
      as (W2 & U2 & C2 & H2 & B2 & M2 & A2).
    rewrite Ha, A1 in A2. rewrite Hu in U2.
    destruct (IHh (pop None (run b (push None s))) f us W2 U2 A2) as (W & A & (ext2 & Hh2) & B & ex' & f' & U & F & X).
    split; [exact W|]. split; [exact A|]. split; [exists (ext1 ++ ext2); rewrite Hh2, H2, Hh1; now rewrite app_assoc|].
    split; [rewrite B2 in B; eapply same_bottom_trans; eassumption|]. exists ex', f'. repeat split; assumption.
  - (* \begin o  b  \end p  h *)
    rewrite run_cons, run_app, run_cons. cbn [step].
    destruct (push_abs (Some o) s (is_doc_some o Hd) Hwf) as (W0 & A0 & H0 & B0 & C0 & f0 & U0 & F0).
    rewrite Ha in A0. destruct (IHb (push (Some o) s) f0 (ups s) W0 U0 A0) as (W1 & A1 & (ext1 & Hh1) & B1 & ex & f1 & U1 & F1 & X1).
    rewrite H0 in Hh1. rewrite B0 in B1. rewrite F0 in F1.
    assert (brackets (Some o) (Some p) = true) as Hbr by (cbn; now rewrite Hd, Hc).
    destruct (group_close (Some o) (Some p) s (run b (push (Some o) s)) ex f1 Hwf Hbr W1 U1 F1 X1 (ex_intro _ ext1 Hh1) B1)
      as (W2 & U2 & C2 & H2 & B2 & M2 & A2).
    rewrite Ha, A1 in A2. rewrite Hu in U2.
    destruct (IHh (pop (Some p) (run b (push (Some o) s))) f us W2 U2 A2) as (W & A & (ext2 & Hh2) & B & ex' & f' & U & F & X).
    split; [exact W|]. split; [exact A|]. split; [exists (ext1 ++ ext2); rewrite Hh2, H2, Hh1; now rewrite app_assoc|].
    split; [rewrite B2 in B; eapply same_bottom_trans; eassumption|]. exists ex', f'. repeat split; assumption.
  - (* unclosed { inside an object *)
    rewrite run_cons. cbn [step].
    destruct (push_abs None s eq_refl Hwf) as (W0 & A0 & H0 & B0 & C0 & f0 & U0 & F0).
    rewrite Ha in A0. rewrite Hu in U0.
    destruct (IH (push None s) f0 (f :: us) W0 U0 A0) as (W & A & (ext & Hh) & B & ex & f1 & U & F & X).
    rewrite H0 in Hh. rewrite B0 in B. split; [exact W|]. split; [exact A|]. split; [now exists ext|]. split; [exact B|].
    exists (ex ++ [f1]), f. rewrite <- app_assoc. repeat split; [exact U|].
    cbn in X |- *. apply Forall_app. split; [exact X|]. constructor; [congruence|constructor].
  - (* unclosed object inside { } *)
    rewrite run_cons. cbn [step].
    destruct (push_abs (Some o) s (is_doc_some o Hd) Hwf) as (W0 & A0 & H0 & B0 & C0 & f0 & U0 & F0).
    rewrite Ha in A0. rewrite Hu in U0.
    destruct (IH (push (Some o) s) f0 (f :: us) W0 U0 A0) as (W & A & (ext & Hh) & B & ex & f1 & U & F & X).
    rewrite H0 in Hh. rewrite B0 in B. split; [exact W|]. split; [exact A|]. split; [now exists ext|]. split; [exact B|].
    exists (ex ++ [f1]), f. rewrite <- app_assoc. repeat split; [exact U|].
    cbn in X |- *. apply Forall_app. split; [exact X|]. constructor; [congruence|constructor].
Qed.

(* M2: a whole group, opened anywhere (also at the global level) *)
Theorem balanced_restores s o p b e1 :
  wf s -> brackets o p = true -> Sem (kind_of o) b (enter o (abs s)) e1 ->
  let s' := run (Push o :: b ++ [Pop p]) s in
  wf s' /\
  ups s' = ups s /\                                   (* every frame above the global one is untouched *)
  cur s' = cur s /\ (exists ext, heap s' = heap s ++ ext) /\   (* same table in force, no existing table modified *)
  bottom s' = set_lets (set_macros (bottom s) (glo_m e1)) (glo_l e1) /\   (* the global frame: only its namespace, = the group's global effect *)
  m_cells s' = s_cells e1 /\
  abs s' = leave (abs s) e1.
Proof.
  intros Hwf Hbr Hsem. cbn zeta. rewrite run_cons, run_app. cbn [step run fold_left].
  assert (is_doc o = false) as Hd.
  { destruct o as [x|], p as [y|]; cbn in Hbr |- *; try discriminate; [|reflexivity].
    apply andb_true_iff in Hbr. destruct Hbr as (Hx & _). now apply negb_true_iff in Hx. }
  destruct (push_abs o s Hd Hwf) as (W0 & A0 & H0 & B0 & C0 & f0 & U0 & F0).
  destruct (sem_run _ _ _ _ Hsem (push o s) f0 (ups s) W0 U0 A0) as (W1 & A1 & (ext1 & Hh1) & B1 & ex & f1 & U1 & F1 & X1).
  rewrite H0 in Hh1. rewrite B0 in B1. rewrite F0 in F1.
  destruct (group_close o p s (run b (push o s)) ex f1 Hwf Hbr W1 U1 F1 X1 (ex_intro _ ext1 Hh1) B1)
    as (W2 & U2 & C2 & H2 & B2 & M2 & A2).
  split; [exact W2|]. split; [exact U2|]. split; [exact C2|]. split; [exists ext1; now rewrite H2|].
  rewrite A1 in A2. split; [|split; [rewrite M2, <- A1; reflexivity|exact A2]].
  rewrite B2. destruct B1 as (Bc & Bo). rewrite <- A1. cbn.
  destruct (bottom (run b (push o s))), (bottom s); cbn in *. now subst.
Qed.

(* ------------------------------------------------------------------------------------------------ *)
(* M3: depth, for every balanced history from every state — by abstraction to the objects of the frames *)

Definition tags (s : state) : list (option objinfo) := map fobj (ups s).

Fixpoint tpop_none (ts : list (option objinfo)) : list (option objinfo) :=
  match ts with [] => [] | t :: r => match t with None => r | Some _ => tpop_none r end end.
Fixpoint tpop_obj (p : objinfo) (ts : list (option objinfo)) : list (option objinfo) :=
  match ts with
  | [] => []
  | t :: r =>
    match t with
    | None => tpop_obj p r
    | Some o =>
      if oid o =? oid p then r
      else if parent_is p o then t :: r
      else if (otype p =? otype o) && (omode p =? 2) then r
      else if str_eqb (oname p) (end_prefix ++ oname o) then r
      else tpop_obj p r
    end
  end.
Definition tstep (o : op) (ts : list (option objinfo)) : list (option objinfo) :=
  match o with
  | Push x => if is_doc x then [x] else x :: ts
  | Pop None => tpop_none ts
  | Pop (Some p) => tpop_obj p ts
  | _ => ts
  end.
Definition trun (h : list op) (ts : list (option objinfo)) := fold_left (fun t o => tstep o t) h ts.

Lemma tags_upd_top g s : (forall f, fobj (g f) = fobj f) -> tags (upd_top g s) = tags s.
Proof. intros Hg. destruct s as [u b h c m]. unfold tags, upd_top. cbn. destruct u; cbn; [reflexivity|now rewrite Hg]. Qed.

Lemma tags_getitem k s : tags (fst (getitem k s)) = tags s.
Proof. unfold getitem. destruct (lookup s k); reflexivity. Qed.

Lemma map_pop_none fs : map fobj (pop_none fs) = tpop_none (map fobj fs).
Proof. induction fs as [|f r IH]; cbn; [reflexivity|]. destruct (fobj f); [apply IH|reflexivity]. Qed.
Lemma map_pop_obj p fs : map fobj (pop_obj p fs) = tpop_obj p (map fobj fs).
Proof.
  induction fs as [|f r IH]; cbn; [reflexivity|]. destruct (fobj f) as [o|] eqn:E; [|apply IH].
  destruct (oid o =? oid p); [reflexivity|]. destruct (parent_is p o); [cbn; now rewrite E|].
  destruct (_ && _); [reflexivity|]. destruct (str_eqb _ _); [reflexivity|apply IH].
Qed.

Lemma tags_step o s : tags (step o s) = tstep o (tags s).
Proof.
  destruct o; cbn [step tstep].
  - unfold push, tags. destruct (is_doc o); reflexivity.
  - unfold pop, tags. cbn. destruct o; [apply map_pop_obj|apply map_pop_none].
  - now apply tags_upd_top.
  - reflexivity.
  - unfold let_macro. destruct (getitem s0 s) as [s1 v] eqn:E. unfold upd_target. rewrite tags_upd_top by reflexivity.
    change s1 with (fst (s1, v)). rewrite <- E. apply tags_getitem.
  - now apply tags_upd_top.
  - unfold let_macro. destruct (getitem s0 s) as [s1 v] eqn:E. unfold upd_target, upd_bottom, tags. cbn.
    change (ups s1) with (ups (fst (s1, v))). rewrite <- E. apply tags_getitem.
  - reflexivity.
  - destruct s as [u b hp cr m]. destruct u; reflexivity.
  - destruct s as [u b hp cr m]. destruct u; reflexivity.
  - apply tags_getitem.
  - unfold new_if. destruct (lookup s k); reflexivity.
  - unfold new_counter. destruct (find c (m_cells s)); reflexivity.
  - reflexivity.
Qed.

Lemma tags_run h : forall s, tags (run h s) = trun h (tags s).
Proof. induction h as [|o h IH]; intros s; cbn; [reflexivity|]. unfold run in IH. rewrite IH. now rewrite tags_step. Qed.

Definition textra_ok (K : kind) (ex : list (option objinfo)) : Prop :=
  match K with
  | Strict => ex = []
  | InObj => Forall (fun t => t = None) ex
  | InGroup => Forall (fun t => t <> None) ex
  end.

Lemma tpop_none_through ex rest : Forall (fun t => t <> None) ex -> tpop_none (ex ++ None :: rest) = rest.
Proof. induction 1 as [|t ex Ht _ IH]; cbn; [reflexivity|]. destruct t; [assumption|contradiction]. Qed.

Lemma tpop_obj_through p o ex rest :
  Forall (fun t => t = None) ex -> closes o p = true -> tpop_obj p (ex ++ Some o :: rest) = rest.
Proof.
  intros Hex Hc. induction Hex as [|t ex Ht _ IH]; cbn [app tpop_obj].
  - unfold closes in Hc. destruct (oid o =? oid p); [reflexivity|]. cbn [orb] in Hc.
    apply andb_true_iff in Hc. destruct Hc as (Hpar & Hc). unfold parent_is. apply negb_true_iff in Hpar. rewrite Hpar.
    apply orb_true_iff in Hc. destruct Hc as [Hc|Hc]; rewrite Hc; [reflexivity|]. now destruct (_ && _).
  - now subst t.
Qed.

Lemma trun_app h1 h2 ts : trun (h1 ++ h2) ts = trun h2 (trun h1 ts).
Proof. unfold trun. apply fold_left_app. Qed.

Lemma simple_tstep o ts : simple o = true -> tstep o ts = ts.
Proof. destruct o; cbn; intros H; try discriminate; reflexivity. Qed.

Lemma bal_tags K h : Bal K h -> forall ts, exists ex, trun h ts = ex ++ ts /\ textra_ok K ex.
Proof.
  induction 1 as [K|K o h Hs _ IH|K b h _ IHb _ IHh|K o p b h Hd Hc _ IHb _ IHh|h _ IH|o h Hd _ IH]; intros ts.
  - exists []. split; [reflexivity|]. destruct K; constructor.
  - cbn. rewrite (simple_tstep o ts Hs). apply IH.
  - change (Push None :: b ++ Pop None :: h) with ([Push None] ++ b ++ [Pop None] ++ h).
    rewrite !trun_app. cbn [trun fold_left tstep is_doc].
    destruct (IHb (None :: ts)) as (ex & E & X). rewrite E. cbn in X.
    rewrite tpop_none_through by assumption. apply IHh.
  - change (Push (Some o) :: b ++ Pop (Some p) :: h) with ([Push (Some o)] ++ b ++ [Pop (Some p)] ++ h).
    rewrite !trun_app. cbn [trun fold_left tstep is_doc]. rewrite Hd.
    destruct (IHb (Some o :: ts)) as (ex & E & X). rewrite E. cbn in X.
    rewrite (tpop_obj_through p o) by assumption. apply IHh.
  - cbn. destruct (IH (None :: ts)) as (ex & E & X). exists (ex ++ [None]). unfold trun in E. rewrite E, <- app_assoc.
    split; [reflexivity|]. cbn in X |- *. apply Forall_app. split; [assumption|repeat constructor].
  - cbn. rewrite Hd. destruct (IH (Some o :: ts)) as (ex & E & X). exists (ex ++ [Some o]). unfold trun in E. rewrite E, <- app_assoc.
    split; [reflexivity|]. cbn in X |- *. apply Forall_app. split; [assumption|]. constructor; [discriminate|constructor].
Qed.

Theorem balanced_depth h s : Balanced h -> depth (run h s) = depth s.
Proof.
  intros H. destruct (bal_tags Strict h H (tags s)) as (ex & E & X). cbn in X. subst ex.
  unfold depth. f_equal. rewrite <- (map_length fobj (ups (run h s))), <- (map_length fobj (ups s)).
  fold (tags (run h s)) (tags s). now rewrite tags_run, E.
Qed.

(* inside an object (resp. a group) what is left open is only anonymous groups (resp. objects): the stack never
   shrinks below where the history started, whatever the interleaving *)
Theorem balanced_never_below K h s : Bal K h -> exists ex, tags (run h s) = ex ++ tags s /\ textra_ok K ex.
Proof. intros H. rewrite tags_run. now apply bal_tags. Qed.

(* ------------------------------------------------------------------------------------------------ *)
(* Bal is the shape of Sem; Sem is total on balanced histories *)

Lemma sem_bal K h e e' : Sem K h e e' -> Bal K h.
Proof. induction 1; econstructor; eassumption. Qed.

Lemma bal_sem K h : Bal K h -> forall e, exists e', Sem K h e e'.
Proof.
  induction 1 as [K|K o h Hs _ IH|K b h _ IHb _ IHh|K o p b h Hd Hc _ IHb _ IHh|h _ IH|o h Hd _ IH]; intros e.
  - exists e. constructor.
  - destruct (IH (sstep o e)) as (e' & H). exists e'. now constructor.
  - destruct (IHb (enter None e)) as (e1 & H1). destruct (IHh (leave e e1)) as (e' & H2). exists e'. econstructor; eassumption.
  - destruct (IHb (enter (Some o) e)) as (e1 & H1). destruct (IHh (leave e e1)) as (e' & H2). exists e'. econstructor; eassumption.
  - destruct (IH (enter None e)) as (e' & H). exists e'. now constructor.
  - destruct (IH (enter (Some o) e)) as (e' & H). exists e'. now constructor.
Qed.

(* ------------------------------------------------------------------------------------------------ *)
(* M4 *)

(* what is in force after a group: local things as before; a name not defined globally inside keeps its meaning *)
Lemma sstep_glo k o e : no_gwrite k o = true -> find k (glo_m (sstep o e)) = find k (glo_m e).
Proof.
  destruct o; cbn; intros H; try reflexivity.
  - apply negb_true_iff in H. now rewrite H.
  - unfold s_getitem. destruct (s_lookup e s); cbn; [reflexivity|]. apply negb_true_iff in H. now rewrite H.
  - apply andb_true_iff in H. destruct H as (Hd & Hs). apply negb_true_iff in Hd, Hs.
    unfold s_getitem. destruct (s_lookup e s); cbn; rewrite Hd; [reflexivity|]. now rewrite Hs.
  - unfold s_getitem. destruct (s_lookup e k0); cbn; [reflexivity|]. apply negb_true_iff in H. now rewrite H.
  - destruct (s_lookup e k0); cbn; [reflexivity|].
    apply andb_true_iff in H. destruct H as (H & H3). apply andb_true_iff in H. destruct H as (H1 & H2).
    apply negb_true_iff in H1, H2, H3. now rewrite H3, H2, H1.
  - destruct (find c (s_cells e)); cbn; [reflexivity|]. apply negb_true_iff in H. now rewrite H.
Qed.

Lemma sem_glo k K h e e' : Sem K h e e' -> forallb (no_gwrite k) h = true -> find k (glo_m e') = find k (glo_m e).
Proof.
  induction 1 as [K e|K o h e e' Hs _ IH|K b h e e1 e' _ IHb _ IHh|K o p b h e e1 e' Hd Hc _ IHb _ IHh
                 |h e e' _ IH|o h e e' Hd _ IH]; intros Hn.
  - reflexivity.
  - cbn in Hn. apply andb_true_iff in Hn. destruct Hn as (Ho & Hn). rewrite (IH Hn). now apply sstep_glo.
  - cbn in Hn. rewrite forallb_app in Hn. cbn in Hn. apply andb_true_iff in Hn. destruct Hn as (Hb & Hh).
    rewrite (IHh Hh). cbn. now rewrite (IHb Hb).
  - cbn in Hn. rewrite forallb_app in Hn. cbn in Hn. apply andb_true_iff in Hn. destruct Hn as (Hb & Hh).
    rewrite (IHh Hh). cbn. now rewrite (IHb Hb).
  - cbn in Hn. now rewrite (IH Hn).
  - cbn in Hn. now rewrite (IH Hn).
Qed.

Lemma sstep_glo_l k o e : no_glet k o = true -> find k (glo_l (sstep o e)) = find k (glo_l e).
Proof.
  destruct o; cbn; intros H; try reflexivity.
  - unfold s_getitem. destruct (s_lookup e s); reflexivity.
  - unfold s_getitem. destruct (s_lookup e s); reflexivity.
  - apply negb_true_iff in H. now rewrite H.
  - unfold s_getitem. destruct (s_lookup e k0); reflexivity.
  - destruct (s_lookup e k0); reflexivity.
  - destruct (find c (s_cells e)); reflexivity.
Qed.

Lemma sem_glo_l k K h e e' : Sem K h e e' -> forallb (no_glet k) h = true -> find k (glo_l e') = find k (glo_l e).
Proof.
  induction 1 as [K e|K o h e e' Hs _ IH|K b h e e1 e' _ IHb _ IHh|K o p b h e e1 e' Hd Hc _ IHb _ IHh
                 |h e e' _ IH|o h e e' Hd _ IH]; intros Hn.
  - reflexivity.
  - cbn in Hn. apply andb_true_iff in Hn. destruct Hn as (Ho & Hn). rewrite (IH Hn). now apply sstep_glo_l.
  - cbn in Hn. rewrite forallb_app in Hn. cbn in Hn. apply andb_true_iff in Hn. destruct Hn as (Hb & Hh).
    rewrite (IHh Hh). cbn. now rewrite (IHb Hb).
  - cbn in Hn. rewrite forallb_app in Hn. cbn in Hn. apply andb_true_iff in Hn. destruct Hn as (Hb & Hh).
    rewrite (IHh Hh). cbn. now rewrite (IHb Hb).
  - cbn in Hn. now rewrite (IH Hn).
  - cbn in Hn. now rewrite (IH Hn).
Qed.

Theorem local_dies s o p b e1 :
  wf s -> brackets o p = true -> Sem (kind_of o) b (enter o (abs s)) e1 ->
  let s' := run (Push o :: b ++ [Pop p]) s in
  (forall c, which s' c = which s c) /\
  (forall k, forallb (no_glet k) b = true -> get_let s' k = get_let s k) /\
  (forall k, forallb (no_gwrite k) b = true -> lookup s' k = lookup s k).
Proof.
  intros Hwf Hbr Hsem. destruct (balanced_restores s o p b e1 Hwf Hbr Hsem) as (W & U & C & (ext & Hh) & B & M & A).
  cbn zeta in *. set (s' := run (Push o :: b ++ [Pop p]) s) in *. split; [|split].
  - intros c. unfold which. rewrite C. f_equal. unfold table_at at 1. rewrite Hh. apply table_at_ext. now apply wf_cur_lt.
  - intros k Hk. unfold get_let. rewrite U, !chain_let_concat, !find_app. destruct (find k (concat (map lets (ups s)))); [reflexivity|].
    rewrite B. cbn. now rewrite (sem_glo_l k _ _ _ _ Hsem Hk).
  - intros k Hk. unfold lookup. rewrite U, !chain_get_concat, !find_app. destruct (find k (concat (map macros (ups s)))); [reflexivity|].
    rewrite B. cbn. now rewrite (sem_glo k _ _ _ _ Hsem Hk).
Qed.

(* a name a history does not write at all *)
Definition no_write (k : name) (o : op) : bool :=
  no_gwrite k o && match o with AddLocal k' _ => negb (k' =? k) | LetMacro d _ => negb (d =? k) | _ => true end.

Lemma find_bottom_upd_top k g s :
  (forall f, find k (macros (g f)) = find k (macros f)) -> find k (macros (bottom (upd_top g s))) = find k (macros (bottom s)).
Proof. intros Hg. destruct s as [u b hp cr m]. destruct u; [apply Hg|reflexivity]. Qed.

Lemma getitem_bottom k k' s : (k' =? k) = false -> find k (macros (bottom (fst (getitem k' s)))) = find k (macros (bottom s)).
Proof. intros H. unfold getitem. destruct (lookup s k'); cbn; [reflexivity|now rewrite H]. Qed.

Lemma step_bottom_find k o s : no_write k o = true -> find k (macros (bottom (step o s))) = find k (macros (bottom s)).
Proof.
  unfold no_write. intros H. apply andb_true_iff in H. destruct H as (Hg & Hl). destruct o; cbn [step]; cbn in Hg, Hl.
  - unfold push. destruct (is_doc o); reflexivity.
  - reflexivity.
  - apply find_bottom_upd_top. intros f. cbn. apply negb_true_iff in Hl. now rewrite Hl.
  - cbn. apply negb_true_iff in Hg. now rewrite Hg.
  - unfold let_macro, upd_target. destruct (getitem s0 s) as [s1 v] eqn:E. rewrite find_bottom_upd_top.
    + change s1 with (fst (s1, v)). rewrite <- E. apply getitem_bottom. now apply negb_true_iff.
    + intros f. cbn. apply negb_true_iff in Hl. now rewrite Hl.
  - now apply find_bottom_upd_top.
  - apply andb_true_iff in Hg. destruct Hg as (Hd & Hs). apply negb_true_iff in Hd.
    unfold let_macro. destruct (getitem s0 s) as [s1 v] eqn:E. unfold upd_target, upd_bottom. cbn. rewrite Hd.
    change s1 with (fst (s1, v)). rewrite <- E. apply getitem_bottom. now apply negb_true_iff.
  - reflexivity.
  - destruct s as [u b hp cr m]. destruct u; reflexivity.
  - destruct s as [u b hp cr m]. destruct u; reflexivity.
  - apply getitem_bottom. now apply negb_true_iff.
  - unfold new_if. destruct (lookup s k0); [reflexivity|]. cbn.
    apply andb_true_iff in Hg. destruct Hg as (Hg & H3). apply andb_true_iff in Hg. destruct Hg as (H1 & H2).
    apply negb_true_iff in H1, H2, H3. now rewrite H3, H2, H1.
  - unfold new_counter. destruct (find c (m_cells s)); [reflexivity|]. cbn. apply negb_true_iff in Hg. now rewrite Hg.
  - reflexivity.
Qed.

(* a global definition survives every history — balanced or not — that does not define the name again:
   it stays in the global namespace, and it is the meaning of the name whenever the stack is back at depth 1 *)
Theorem global_survives h1 h2 s k v :
  forallb (no_write k) h2 = true ->
  let s' := run (h1 ++ AddGlobal k v :: h2) s in
  find k (macros (bottom s')) = Some v /\ (ups s' = [] -> lookup s' k = Some v).
Proof.
  intros Hn. cbn zeta. rewrite run_app, run_cons. set (s1 := step (AddGlobal k v) (run h1 s)).
  assert (find k (macros (bottom s1)) = Some v) as H1 by (cbn; now rewrite N.eqb_refl).
  assert (find k (macros (bottom (run h2 s1))) = Some v) as H2.
  { clearbody s1. revert s1 H1 Hn. induction h2 as [|o h2 IH]; intros s1 H1 Hn; cbn; [assumption|].
    cbn in Hn. apply andb_true_iff in Hn. destruct Hn as (Ho & Hn). apply IH; [|assumption]. now rewrite step_bottom_find. }
  split; [exact H2|]. intros Hu. unfold lookup. now rewrite Hu.
Qed.

(* counters and \newif switches: no grouping operation touches them *)
Definition no_cell_write (c : N) (o : op) : bool :=
  match o with
  | SetCell c' _ => negb (c' =? c)
  | NewIf _ _ _ _ _ _ c' _ => negb (c' =? c)
  | NewCounter c' _ _ _ => negb (c' =? c)
  | _ => true
  end.

Lemma step_cells c o s : no_cell_write c o = true -> find c (m_cells (step o s)) = find c (m_cells s).
Proof.
  destruct o; cbn [step no_cell_write]; intros H; try reflexivity.
  - unfold push. destruct (is_doc o); reflexivity.
  - apply f_equal. apply cells_upd_top.
  - unfold let_macro. destruct (getitem s0 s) as [s1 v] eqn:E. rewrite cells_upd_target.
    unfold getitem in E. destruct (lookup s s0); injection E as <- _; reflexivity.
  - apply f_equal. apply cells_upd_top.
  - unfold let_macro. destruct (getitem s0 s) as [s1 v] eqn:E. rewrite cells_upd_target.
    unfold getitem in E. destruct (lookup s s0); injection E as <- _; reflexivity.
  - unfold catcode, alloc, heap_update. cbn. now rewrite cells_upd_top.
  - unfold verbatim, alloc. cbn. now rewrite cells_upd_top.
  - unfold getitem. destruct (lookup s k); reflexivity.
  - unfold new_if. destruct (lookup s k); [reflexivity|]. cbn. apply negb_true_iff in H. now rewrite H.
  - unfold new_counter. destruct (find c0 (m_cells s)); [reflexivity|]. cbn. apply negb_true_iff in H. now rewrite H.
  - cbn. apply negb_true_iff in H. now rewrite H.
Qed.

Theorem cells_survive h1 h2 s c z :
  forallb (no_cell_write c) h2 = true -> find c (m_cells (run (h1 ++ SetCell c z :: h2) s)) = Some z.
Proof.
  intros Hn. rewrite run_app, run_cons. set (s1 := step (SetCell c z) (run h1 s)).
  assert (find c (m_cells s1) = Some z) as H1 by (cbn; now rewrite N.eqb_refl).
  clearbody s1. revert s1 H1 Hn. induction h2 as [|o h2 IH]; intros s1 H1 Hn; cbn; [assumption|].
  cbn in Hn. apply andb_true_iff in Hn. destruct Hn as (Ho & Hn). apply IH; [|assumption]. now rewrite step_cells.
Qed.

(* \let\d\src takes a snapshot: later definitions of \src (local or global) do not change \d *)
Definition binds (k : name) (o : op) : bool :=
  match o with
  | AddLocal k' _ | AddGlobal k' _ => k' =? k
  | LetMacro d s | GLetMacro d s => (d =? k) || (s =? k)
  | Getitem k' => k' =? k
  | NewIf a b c _ _ _ _ _ => (a =? k) || (b =? k) || (c =? k)
  | NewCounter _ t _ _ => t =? k
  | _ => false
  end.

Lemma find_top_upd_top k g s :
  find k (macros (top (upd_top g s))) = find k (macros (g (top s))).
Proof. destruct s as [u b hp cr m]. destruct u; reflexivity. Qed.

Lemma top_upd_bottom_find k g s :
  (forall f, find k (macros (g f)) = find k (macros f)) -> find k (macros (top (upd_bottom g s))) = find k (macros (top s)).
Proof. intros Hg. destruct s as [u b hp cr m]. destruct u; [apply Hg|reflexivity]. Qed.

Lemma getitem_top k k' s : (k' =? k) = false -> find k (macros (top (fst (getitem k' s)))) = find k (macros (top s)).
Proof.
  intros H. unfold getitem. destruct (lookup s k'); cbn [fst]; [reflexivity|].
  apply top_upd_bottom_find. intros f. cbn. now rewrite H.
Qed.

Lemma step_top_find k o s :
  simple o = true -> binds k o = false -> find k (macros (top (step o s))) = find k (macros (top s)).
Proof.
  intros Hs Hb. destruct o; cbn [simple] in Hs; try discriminate; cbn [step]; cbn in Hb.
  - unfold add_local. rewrite find_top_upd_top. cbn. now rewrite Hb.
  - apply top_upd_bottom_find. intros f. cbn. now rewrite Hb.
  - apply orb_false_iff in Hb. destruct Hb as (Hd & Hsrc).
    unfold let_macro, upd_target. destruct (getitem s0 s) as [s1 v] eqn:E. rewrite find_top_upd_top. cbn. rewrite Hd.
    change s1 with (fst (s1, v)). rewrite <- E. now apply getitem_top.
  - unfold let_tok, upd_target. now rewrite find_top_upd_top.
  - apply orb_false_iff in Hb. destruct Hb as (Hd & Hsrc).
    unfold let_macro, upd_target. destruct (getitem s0 s) as [s1 v] eqn:E. rewrite top_upd_bottom_find.
    + change s1 with (fst (s1, v)). rewrite <- E. now apply getitem_top.
    + intros f. cbn. now rewrite Hd.
  - unfold let_tok, upd_target. now apply top_upd_bottom_find.
  - destruct s as [u b hp cr m]. destruct u; reflexivity.
  - destruct s as [u b hp cr m]. destruct u; reflexivity.
  - now apply getitem_top.
  - apply orb_false_iff in Hb. destruct Hb as (Hb & H3). apply orb_false_iff in Hb. destruct Hb as (H1 & H2).
    unfold new_if. destruct (lookup s k0); [reflexivity|]. unfold top. cbn. destruct (ups s); cbn; [|reflexivity]. now rewrite H3, H2, H1.
  - unfold new_counter. destruct (find c (m_cells s)); [reflexivity|]. unfold top. cbn. destruct (ups s); cbn; [|reflexivity]. now rewrite Hb.
  - reflexivity.
Qed.

Lemma lookup_top s k v : find k (macros (top s)) = Some v -> lookup s k = Some v.
Proof. unfold lookup, top. destruct (ups s) as [|f r]; cbn; intros H; now rewrite H. Qed.

Theorem let_snapshot s d src v h :
  lookup s src = Some v ->
  forallb (fun o => simple o && negb (binds d o)) h = true ->
  lookup (run h (step (LetMacro d src) s)) d = Some v.
Proof.
  intros Hl Hh. apply lookup_top.
  assert (find d (macros (top (step (LetMacro d src) s))) = Some v) as H0.
  { cbn [step]. unfold let_macro, upd_target, getitem. rewrite Hl. rewrite find_top_upd_top. cbn. now rewrite N.eqb_refl. }
  revert H0 Hh. generalize (step (LetMacro d src) s) as s1. induction h as [|o h IH]; intros s1 H0 Hh; cbn; [assumption|].
  cbn in Hh. apply andb_true_iff in Hh. destruct Hh as (Ho & Hh). apply andb_true_iff in Ho. destruct Ho as (Hs & Hb).
  apply negb_true_iff in Hb. apply IH; [|assumption]. now rewrite step_top_find.
Qed.
