(* C08 -- M3/M4/M5: the Model (plasTeX's numbering) refines the Spec (LaTeX's rules) on every document of the Spec's
   strict domain; proved by a simulation between interpreter states. *)
From Coq Require Import List ZArith Bool Lia.
Import ListNotations.
From Verif Require Import Val CounterSyntax FormatParse ClassCounters Counters NumberingSpec CountersProofs FormatParseProofs.
Local Open Scope Z_scope.

(* ---------------------------------------------------------------------------------------------- *)
(** * Generic facts *)

Lemma mem_In : forall n l, mem n l = true <-> In n l.
Proof.
  intros n l. unfold mem. rewrite existsb_exists. split.
  - intros (x & Hx & E). apply name_eqb_eq in E. subst. exact Hx.
  - intro H. exists n. split; [exact H | apply name_eqb_refl].
Qed.

Lemma mem_false : forall n l, mem n l = false <-> ~ In n l.
Proof.
  intros n l. rewrite <- mem_In. destruct (mem n l); split; intro H; try discriminate; try reflexivity; try (intro; discriminate);
    exfalso; apply H; reflexivity.
Qed.

Lemma lookup_name_in : forall A n (l : list (name * A)) a, lookup_name n l = Some a -> In (n, a) l.
Proof.
  induction l as [|[m b] l IH]; cbn; intros a H; [discriminate|].
  destruct (name_eqb n m) eqn:E; [apply name_eqb_eq in E; inversion H; subst; left; reflexivity | right; apply IH; exact H].
Qed.

Lemma lookup_name_dom : forall A n (l : list (name * A)) a, lookup_name n l = Some a -> In n (map fst l).
Proof. intros A n l a H. apply lookup_name_in in H. change n with (fst (n, a)). apply in_map. exact H. Qed.

Lemma lookup_name_none : forall A n (l : list (name * A)), lookup_name n l = None <-> ~ In n (map fst l).
Proof.
  induction l as [|[m b] l IH]; cbn; [tauto|].
  destruct (name_eqb n m) eqn:E.
  - apply name_eqb_eq in E. subst. split; [discriminate | intro H; exfalso; apply H; left; reflexivity].
  - apply name_eqb_neq in E. rewrite IH. split; [intros H [H1|H1]; [congruence | contradiction] | intros H H1; apply H; right; exact H1].
Qed.

Lemma lookup_name_some : forall A n (l : list (name * A)), In n (map fst l) -> exists a, lookup_name n l = Some a.
Proof.
  intros A n l H. destruct (lookup_name n l) eqn:E; [eauto|]. apply lookup_name_none in E. contradiction.
Qed.

Lemma lookup_name_app : forall A n (l1 l2 : list (name * A)),
  lookup_name n (l1 ++ l2) = match lookup_name n l1 with Some a => Some a | None => lookup_name n l2 end.
Proof.
  induction l1 as [|[m b] l1 IH]; cbn; intro l2; [reflexivity|]. destruct (name_eqb n m); [reflexivity | apply IH].
Qed.

(** ** "within", boolean and relational *)

Definition spar (W : list (name * name)) (d : name) : option name := lookup_name d W.

Lemma is_within_sound : forall fuel W d c, is_within fuel W d c = true -> desc (spar W) d c.
Proof.
  induction fuel as [|f IH]; cbn; intros W d c H; [discriminate|].
  destruct (lookup_name d W) as [p|] eqn:E; [|discriminate].
  apply orb_true_iff in H. destruct H as [H|H].
  - apply name_eqb_eq in H. subst. apply desc_parent. exact E.
  - eapply desc_step; [exact E | apply IH; exact H].
Qed.

Lemma is_within_complete_aux : forall W, (forall n, ~ desc (spar W) n n) ->
  forall fuel d c path, desc (spar W) d c ->
    NoDup path -> incl path (map fst W) -> (forall p, In p path -> desc (spar W) p d) ->
    (fuel + length path > length W)%nat -> is_within fuel W d c = true.
Proof.
  intros W AC. induction fuel as [|f IH]; intros d c path Hd ND Hincl Hpath Hfuel.
  - exfalso. pose proof (NoDup_incl_length ND Hincl) as L. rewrite map_length in L. lia.
  - cbn [is_within]. inversion Hd as [m x P|m p x P Hd']; subst; unfold spar in P; rewrite P.
    + rewrite name_eqb_refl. reflexivity.
    + apply orb_true_iff. right. apply (IH p c (d :: path)).
      * exact Hd'.
      * constructor; [|exact ND]. intro Hin. apply (AC d). apply Hpath. exact Hin.
      * intros q [<-|Hq]; [eapply lookup_name_dom; exact P | apply Hincl; exact Hq].
      * intros q [<-|Hq]; [apply desc_parent; exact P|]. eapply desc_trans; [apply Hpath; exact Hq | apply desc_parent; exact P].
      * cbn [length]. lia.
Qed.

Lemma is_within_iff : forall W d c, (forall n, ~ desc (spar W) n n) ->
  is_within (S (length W)) W d c = true <-> desc (spar W) d c.
Proof.
  intros W d c AC. split; [apply is_within_sound|]. intro H.
  apply (is_within_complete_aux W AC (S (length W)) d c []); [exact H | constructor | intros ? [] | intros ? [] | cbn; lia].
Qed.

(** ** Spec values *)

Definition sval (n : name) (vals : list (name * Z)) : Z := match lookup_name n vals with Some v => v | None => 0 end.

Lemma spec_set_dom : forall c v vals, map fst (spec_set c v vals) = map fst vals.
Proof.
  induction vals as [|[d w] vals IH]; cbn; [reflexivity|]. destruct (name_eqb c d); cbn; [reflexivity | rewrite IH; reflexivity].
Qed.

Lemma spec_set_same : forall c v vals, In c (map fst vals) -> lookup_name c (spec_set c v vals) = Some v.
Proof.
  induction vals as [|[d w] vals IH]; cbn; intro H; [contradiction|].
  destruct (name_eqb c d) eqn:E; cbn; rewrite ?E; [reflexivity|].
  destruct H as [H|H]; [symmetry in H; apply name_eqb_eq in H; congruence | apply IH; exact H].
Qed.

Lemma spec_set_other : forall c n v vals, n <> c -> lookup_name n (spec_set c v vals) = lookup_name n vals.
Proof.
  induction vals as [|[d w] vals IH]; cbn; intro H; [reflexivity|].
  destruct (name_eqb c d) eqn:E; cbn.
  - apply name_eqb_eq in E. subst d. apply name_eqb_neq in H. rewrite H. reflexivity.
  - destruct (name_eqb n d); [reflexivity | apply IH; exact H].
Qed.

Lemma spec_step_dom : forall c W vals, map fst (spec_step c W vals) = map fst vals.
Proof.
  intros c W vals. unfold spec_step. rewrite map_map. apply map_ext. intros [d v]. cbn.
  destruct (name_eqb d c); [reflexivity|]. destruct (lookup_name d W) as [p|]; [|reflexivity].
  destruct (name_eqb p c || is_within (length W) W p c); reflexivity.
Qed.

Lemma spec_step_lookup : forall c W vals n,
  lookup_name n (spec_step c W vals) =
  match lookup_name n vals with
  | Some v => Some (if name_eqb n c then v + 1 else if is_within (S (length W)) W n c then 0 else v)
  | None => None
  end.
Proof.
  intros c W. induction vals as [|[d v] vals IH]; intro n; [reflexivity|].
  unfold spec_step in *. cbn [map lookup_name].
  destruct (name_eqb d c) eqn:E1.
  - cbn [lookup_name]. destruct (name_eqb n d) eqn:E2; [|apply IH].
    apply name_eqb_eq in E2. subst d. rewrite E1. reflexivity.
  - destruct (is_within (S (length W)) W d c) eqn:E3; cbn [lookup_name]; (destruct (name_eqb n d) eqn:E2; [|apply IH]);
      apply name_eqb_eq in E2; subst d; rewrite E1, E3; reflexivity.
Qed.

(** ** trimLeft *)

Lemma trim_left_nodot : forall s, (forall c, In c s -> c <> 46) -> trim_left s = s.
Proof.
  intros [|a [|b r]] H; cbn; try reflexivity.
  assert (b <> 46) by (apply H; right; left; reflexivity).
  destruct (b =? 46) eqn:E; [lia|]. rewrite andb_false_r. reflexivity.
Qed.

Lemma trim_left_zero_dot : forall r, trim_left (48 :: 46 :: r) = trim_left r.
Proof. intro r. reflexivity. Qed.

Lemma trim_left_keep : forall tp rest,
  tp <> [] -> (forall c, In c tp -> c <> 46) -> tp <> [48] -> trim_left (tp ++ 46 :: rest) = tp ++ 46 :: rest.
Proof.
  intros [|a [|b tp]] rest H1 H2 H3; [congruence| |].
  - cbn. destruct (a =? 48) eqn:E; [|reflexivity]. exfalso. apply H3. f_equal. lia.
  - cbn. assert (b <> 46) by (apply H2; right; left; reflexivity).
    destruct (b =? 46) eqn:E; [lia|]. rewrite andb_false_r. reflexivity.
Qed.

Lemma arabic_nodot : forall z c, In c (arabic z) -> c <> 46.
Proof. intros z c H. destruct (arabic_chars z c H); lia. Qed.

Lemma arabic_is_zero : forall z, arabic z = [48] -> z = 0.
Proof.
  intros z H. pose proof (arabic_correct z) as E. rewrite H in E. cbn in E. congruence.
Qed.

(* ---------------------------------------------------------------------------------------------- *)
(** * The simulation relation: formats *)

Definition dom (ss : sstate) : list name := map fst (s_vals ss).
Definition is_enum (n : name) : bool := mem n enum_names.
Definition the_ref (p : name) : name := the_str ++ p.
Definition mchain (p k : name) : fmt := [PRef (the_ref p) None; PLit dot; PRef k None].

Definition prefix_ok (ss : sstate) (p : name) : Prop :=
  lookup_name p (s_the ss) = Some [SNum RArabic p] \/ lookup_name p (s_the ss) = Some [SNum RAlph p].

(* how a \the<k> of the Spec and the format of plasTeX's the<k> class correspond *)
Inductive fmt_rel (ms : mstate) (ss : sstate) (k : name) : sfmt -> fmt -> bool -> Prop :=
| FR_arabic trim : fmt_rel ms ss k [SNum RArabic k] [PRef k None] trim
| FR_alph : fmt_rel ms ss k [SNum RAlph k] [PRef k (Some RAlph)] false
| FR_chain p : k <> the_ref p -> is_enum p = false -> fmt_rel ms ss k (chain p k) (mchain p k) false
| FR_prefix p : k <> the_ref p -> is_enum p = false -> prefix_ok ss p ->
    fmt_rel ms ss k [SPrefixIfPos p; SNum RArabic k] (mchain p k) true
| FR_dead p : k <> the_ref p -> ~ In p (dom ss) -> lookup_the p (m_thes ms) = Some ([PRef p None], false) ->
    fmt_rel ms ss k [SNum RArabic k] (mchain p k) true.

Definition fmts_rel (ms : mstate) (ss : sstate) : Prop :=
  forall k sf, lookup_name k (s_the ss) = Some sf -> is_enum k = false ->
    exists mf trim, lookup_the k (m_thes ms) = Some (mf, trim) /\ fmt_rel ms ss k sf mf trim.

Definition vals_rel (ms : mstate) (ss : sstate) : Prop :=
  forall n v, lookup_name n (s_vals ss) = Some v -> is_enum n = false -> value_of n (m_counters ms) = v.

(* counters plasTeX has and LaTeX has not (chapter in article, subsubparagraph, ...) are never touched *)
Definition dead_zero (ms : mstate) (ss : sstate) : Prop :=
  forall p, ~ In p (dom ss) -> value_of p (m_counters ms) = 0.

Lemma starts_with_the_ref : forall p, starts_with_the (the_ref p) = true.
Proof. reflexivity. Qed.

Lemma skipn_the_ref : forall p, skipn 3 (the_ref p) = p.
Proof. reflexivity. Qed.

Lemma expand_own : forall rec st k r f',
  expand_pieces rec st k (PRef k r :: f') =
  (do h <- counter_repr (match r with Some r' => r' | None => RArabic end) (value_of k st);
   do t <- expand_pieces rec st k f'; Ok (h ++ t)).
Proof. intros. cbn [expand_pieces]. rewrite name_eqb_refl, andb_false_r. reflexivity. Qed.

Lemma expand_ref : forall rec st k p r f', k <> the_ref p ->
  expand_pieces rec st k (PRef (the_ref p) r :: f') =
  (do h <- rec p; do t <- expand_pieces rec st k f'; Ok (h ++ t)).
Proof.
  intros rec st k p r f' H. cbn [expand_pieces]. rewrite starts_with_the_ref, skipn_the_ref.
  assert (E : name_eqb (the_ref p) k = false) by (apply name_eqb_neq; congruence). rewrite E. reflexivity.
Qed.

Lemma expand_lit : forall rec st k s f',
  expand_pieces rec st k (PLit s :: f') = (do t <- expand_pieces rec st k f'; Ok (s ++ t)).
Proof. reflexivity. Qed.

Lemma expand_mchain : forall rec st k p, k <> the_ref p ->
  expand_pieces rec st k (mchain p k) = (do h <- rec p; Ok (h ++ dot ++ arabic (value_of k st))).
Proof.
  intros rec st k p H. unfold mchain. rewrite expand_ref by exact H.
  destruct (rec p) as [h| |]; cbn [bind]; [|reflexivity|reflexivity].
  rewrite expand_lit, expand_own. cbn [counter_repr bind expand_pieces]. rewrite app_nil_r. reflexivity.
Qed.

Lemma spec_pieces_cons : forall strict rec vals p f,
  spec_pieces strict rec vals (p :: f) =
  match (match p with
         | SLit s => Some s
         | SNum r c => match lookup_name c vals with Some v => spec_repr r v | None => None end
         | SThe c => rec c
         | SPrefixIfPos c =>
             match lookup_name c vals with
             | Some v => if v <? 0 then None
                         else if v =? 0 then (if strict then match rec c with Some _ => Some [] | None => None end else Some [])
                         else match rec c with Some t => Some (t ++ dot) | None => None end
             | None => None
             end
         end), spec_pieces strict rec vals f with
  | Some a, Some b => Some (a ++ b)
  | _, _ => None
  end.
Proof. reflexivity. Qed.

Lemma spec_num_only : forall strict rec vals r c t,
  spec_pieces strict rec vals [SNum r c] = Some t -> exists v, lookup_name c vals = Some v /\ spec_repr r v = Some t.
Proof.
  intros strict rec vals r c t H. rewrite spec_pieces_cons in H. cbn [spec_pieces] in H.
  destruct (lookup_name c vals) as [v|]; [|discriminate]. destruct (spec_repr r v) as [s|] eqn:E; [|discriminate].
  inversion H. rewrite app_nil_r. eauto.
Qed.

Lemma spec_Alph_inv : forall v s, spec_Alph v = Some s -> 1 <= v <= 26 /\ s = [64 + v].
Proof.
  intros v s. unfold spec_Alph. destruct ((1 <=? v) && (v <=? 26)) eqn:E; [|discriminate]. intro H.
  apply andb_true_iff in E. destruct E as [E1 E2]. apply Z.leb_le in E1. apply Z.leb_le in E2.
  split; [lia | congruence].
Qed.

Lemma Alph_chars : forall v s, spec_Alph v = Some s -> s <> [] /\ s <> [48] /\ forall c, In c s -> c <> 46.
Proof.
  intros v s H. apply spec_Alph_inv in H. destruct H as [Hv ->].
  split; [discriminate|]. split.
  - intro X. assert (64 + v = 48) by congruence. lia.
  - intros c [<-|[]]. lia.
Qed.

(* the expansion of \the<k>: wherever the Spec (strict) defines it, plasTeX's TheCounter.invoke returns the same string *)
Lemma expand_sim : forall ms ss, fmts_rel ms ss -> vals_rel ms ss -> dead_zero ms ss ->
  forall fs k t fm, is_enum k = false ->
    spec_the true fs (s_vals ss) (s_the ss) k = Some t -> (fs < fm)%nat ->
    expand_the fm (m_counters ms) (m_thes ms) k = Ok t.
Proof.
  intros ms ss HF HV HD. induction fs as [|f IH]; intros k t fm Hk Hs Hfm; [discriminate|].
  destruct fm as [|fm]; [lia|]. cbn [spec_the] in Hs. cbn [expand_the].
  destruct (lookup_name k (s_the ss)) as [sf|] eqn:Ek; [|discriminate].
  destruct (HF k sf Ek Hk) as (mf & trim & El & FR). rewrite El.
  destruct FR as [trim|  |p Hne Hp|p Hne Hp Hok|p Hne Hp Hl].
  - (* arabic *)
    apply spec_num_only in Hs. destruct Hs as (v & Ev & Er). cbn [spec_repr] in Er. inversion Er; subst t.
    rewrite expand_own. cbn [counter_repr bind expand_pieces]. rewrite (HV k v Ev Hk), app_nil_r.
    rewrite trim_left_nodot by apply arabic_nodot. destruct trim; reflexivity.
  - (* Alph *)
    apply spec_num_only in Hs. destruct Hs as (v & Ev & Er). cbn [spec_repr] in Er.
    rewrite expand_own. rewrite (HV k v Ev Hk).
    assert (E : counter_repr RAlph v = Ok t) by (apply counter_repr_spec; exact Er).
    rewrite E. cbn [bind expand_pieces]. rewrite app_nil_r. reflexivity.
  - (* \thep.\arabic{k} *)
    unfold chain in Hs. rewrite spec_pieces_cons in Hs.
    destruct (spec_the true f (s_vals ss) (s_the ss) p) as [tp|] eqn:Ep; [|discriminate].
    rewrite spec_pieces_cons in Hs. destruct (spec_pieces true (spec_the true f (s_vals ss) (s_the ss)) (s_vals ss) [SNum RArabic k]) as [tk|] eqn:Etk; [|discriminate].
    apply spec_num_only in Etk. destruct Etk as (v & Ev & Er). cbn [spec_repr] in Er. inversion Er; subst tk. inversion Hs; subst t.
    rewrite expand_mchain by exact Hne. rewrite (IH p tp fm Hp Ep) by lia. cbn [bind]. rewrite (HV k v Ev Hk). reflexivity.
  - (* \ifnum p>0 \thep.\fi \arabic{k}, trimLeft *)
    rewrite spec_pieces_cons in Hs.
    destruct (lookup_name p (s_vals ss)) as [vp|] eqn:Evp; [|discriminate].
    destruct (vp <? 0) eqn:Eneg; [discriminate|].
    destruct (spec_pieces true (spec_the true f (s_vals ss) (s_the ss)) (s_vals ss) [SNum RArabic k]) as [tk|] eqn:Etk;
      [|destruct (vp =? 0); [destruct (spec_the true f (s_vals ss) (s_the ss) p) | destruct (spec_the true f (s_vals ss) (s_the ss) p)]; discriminate].
    apply spec_num_only in Etk. destruct Etk as (v & Ev & Er). cbn [spec_repr] in Er. inversion Er; subst tk.
    rewrite expand_mchain by exact Hne. rewrite (HV k v Ev Hk).
    destruct (spec_the true f (s_vals ss) (s_the ss) p) as [tp|] eqn:Ep; [|destruct (vp =? 0); discriminate].
    rewrite (IH p tp fm Hp Ep) by lia. cbn [bind].
    (* what \thep is: arabic or Alph of vp *)
    assert (Htp : tp = arabic vp \/ spec_Alph vp = Some tp).
    { destruct f as [|f']; [discriminate|]. cbn [spec_the] in Ep.
      destruct Hok as [Hok|Hok]; rewrite Hok in Ep; apply spec_num_only in Ep; destruct Ep as (v' & Ev' & Er');
        rewrite Evp in Ev'; inversion Ev'; subst v'; cbn [spec_repr] in Er'; [left; congruence | right; exact Er']. }
    destruct (vp =? 0) eqn:Ez.
    + assert (vp = 0) by lia. subst vp. destruct Htp as [->|Ha]; [|unfold spec_Alph in Ha; cbn in Ha; discriminate].
      inversion Hs; subst t. rewrite arabic_zero. cbn [app dot]. rewrite trim_left_zero_dot.
      rewrite trim_left_nodot by apply arabic_nodot. reflexivity.
    + inversion Hs; subst t. rewrite <- app_assoc. cbn [dot app].
      rewrite trim_left_keep; [reflexivity| | |].
      * destruct Htp as [->|Ha]; [apply arabic_nonempty | apply (Alph_chars _ _ Ha)].
      * destruct Htp as [->|Ha]; [apply arabic_nodot | apply (Alph_chars _ _ Ha)].
      * destruct Htp as [->|Ha]; [intro X; apply arabic_is_zero in X; lia | apply (Alph_chars _ _ Ha)].
  - (* dead prefix counter: always "0." and trimmed *)
    apply spec_num_only in Hs. destruct Hs as (v & Ev & Er). cbn [spec_repr] in Er. inversion Er; subst t.
    rewrite expand_mchain by exact Hne. rewrite (HV k v Ev Hk).
    destruct fm as [|fm]; [lia|]. cbn [expand_the]. rewrite Hl. rewrite expand_own. cbn [counter_repr bind expand_pieces].
    rewrite (HD p Hp), arabic_zero. cbn [app dot]. rewrite trim_left_zero_dot.
    rewrite trim_left_nodot by apply arabic_nodot. reflexivity.
Qed.

(* ---------------------------------------------------------------------------------------------- *)
(** * The simulation relation between interpreter states *)

Definition enum_nth (k : nat) : name := nth (k - 1) enum_names [].

(* every open enumerate: plasTeX counts it in enum<list depth>, LaTeX in enum<enumerate depth>; the counts agree *)
Fixpoint lists_rel (mc : store) (vals : list (name * Z)) (stack : list bool) : Prop :=
  match stack with
  | [] => True
  | b :: rest =>
      (b = true -> value_of (enum_nth (length stack)) mc = sval (enum_nth (count_true stack)) vals)
      /\ lists_rel mc vals rest
  end.

Lemma enum_names_cases : forall n, In n enum_names -> n = n_enumi \/ n = n_enumii \/ n = n_enumiii \/ n = n_enumiv.
Proof. intros n [H|[H|[H|[H|[]]]]]; auto. Qed.

Definition base_names (cls : Z) : list name :=
  match spec_init cls with Some ss0 => map fst (s_vals ss0) | None => [] end.

Record sim (cls : Z) (ms : mstate) (ss : sstate) : Prop := {
  sim_nodup : NoDup (keys (m_counters ms));
  sim_acyc : acyclic (m_counters ms);
  sim_dom_nodup : NoDup (dom ss);
  sim_dom_keys : forall n, In n (dom ss) -> In n (keys (m_counters ms));
  sim_dom_nonnil : ~ In [] (dom ss);
  sim_base : forall n, In n (base_names cls) -> In n (dom ss);
  sim_enum_dom : forall n, In n enum_names -> In n (dom ss);
  sim_keys_res : forall n, In n (keys (m_counters ms)) -> In n (dom ss) \/ In n spec_reserved;
  sim_par_res : forall n p, parent (m_counters ms) n = Some p -> In p (keys (m_counters ms)) \/ In p spec_reserved;
  sim_w : forall d p, In (d, p) (s_within ss) -> In d (dom ss) /\ In p (dom ss) /\ is_enum d = false /\ is_enum p = false;
  sim_wacyc : forall n, ~ desc (spar (s_within ss)) n n;
  sim_desc : forall n c, In n (dom ss) -> In c (dom ss) -> is_enum n = false -> is_enum c = false ->
      (desc (parent (m_counters ms)) n c <-> desc (spar (s_within ss)) n c);
  sim_enum_chain :
      parent (m_counters ms) n_enumi = None /\ parent (m_counters ms) n_enumii = Some n_enumi /\
      parent (m_counters ms) n_enumiii = Some n_enumii /\ parent (m_counters ms) n_enumiv = Some n_enumiii;
  sim_enum_closed : forall n p, parent (m_counters ms) n = Some p -> is_enum p = true -> is_enum n = true;
  sim_fmts : fmts_rel ms ss;
  sim_fmt_enum : forall k, In k enum_names ->
      lookup_the k (m_thes ms) = Some ([PRef k None], false) /\ lookup_name k (s_the ss) = Some [SNum RArabic k];
  sim_fuel : (length (s_the ss) < length (m_thes ms))%nat;
  sim_the_dom : forall k, In k (map fst (s_the ss)) -> In k (dom ss);
  sim_thes_keys : forall k, In k (map fst (m_thes ms)) -> In k (keys (m_counters ms));
  sim_envs : m_envs ms = s_envs ss;
  sim_envs_dom : forall e c, In (e, Some c) (s_envs ss) -> In c (dom ss) /\ is_enum c = false;
  sim_vals : vals_rel ms ss;
  sim_dead : dead_zero ms ss;
  sim_depth : m_ldepth ms = Z.of_nat (length (s_lists ss));
  sim_depth4 : (length (s_lists ss) <= 4)%nat;
  sim_lists : lists_rel (m_counters ms) (s_vals ss) (s_lists ss)
}.

Lemma fmt_rel_ext : forall ms ss ms' ss' k sf mf trim,
  m_thes ms' = m_thes ms -> s_the ss' = s_the ss -> dom ss' = dom ss ->
  fmt_rel ms ss k sf mf trim -> fmt_rel ms' ss' k sf mf trim.
Proof.
  intros ms ss ms' ss' k sf mf trim E1 E2 E3 H. destruct H.
  - constructor.
  - constructor.
  - constructor; assumption.
  - constructor; [assumption | assumption |]. unfold prefix_ok in *. rewrite E2. assumption.
  - constructor; [assumption | rewrite E3; assumption | rewrite E1; assumption].
Qed.

Lemma fmts_rel_ext : forall ms ss ms' ss',
  m_thes ms' = m_thes ms -> s_the ss' = s_the ss -> dom ss' = dom ss -> fmts_rel ms ss -> fmts_rel ms' ss'.
Proof.
  intros ms ss ms' ss' E1 E2 E3 H k sf Hk He. rewrite E2 in Hk. destruct (H k sf Hk He) as (mf & trim & Hl & FR).
  exists mf, trim. rewrite E1. split; [exact Hl | eapply fmt_rel_ext; eauto].
Qed.

Lemma lists_rel_ext : forall mc vals mc' vals' stack,
  (forall j, (1 <= j <= length stack)%nat -> value_of (enum_nth j) mc' = value_of (enum_nth j) mc) ->
  (forall j, (1 <= j <= count_true stack)%nat -> sval (enum_nth j) vals' = sval (enum_nth j) vals) ->
  lists_rel mc vals stack -> lists_rel mc' vals' stack.
Proof.
  induction stack as [|b rest IH]; intros Hm Hs H; [exact I|].
  cbn [lists_rel] in *. destruct H as [H1 H2]. split.
  - intro Hb. rewrite Hm, Hs.
    + apply H1. exact Hb.
    + subst b. unfold count_true. cbn [filter length]. lia.
    + cbn [length]. lia.
  - apply IH; [| |exact H2].
    + intros j Hj. apply Hm. cbn [length]. lia.
    + intros j Hj. apply Hs. unfold count_true in *. cbn [filter]. destruct b; cbn [length]; lia.
Qed.

Lemma ensure_in : forall c st, In c (keys st) -> ensure c st = st.
Proof.
  intros c st H. unfold ensure. destruct (lookup c st) eqn:E; [reflexivity|]. apply lookup_none in E. contradiction.
Qed.

Lemma is_enum_In : forall n, is_enum n = true <-> In n enum_names.
Proof. intro n. apply mem_In. Qed.


(* in plasTeX's table the ancestors of a list counter are list counters *)
Lemma enum_ancestors : forall cls ms ss n c, sim cls ms ss ->
  desc (parent (m_counters ms)) n c -> is_enum n = true -> is_enum c = true.
Proof.
  intros cls ms ss n c Sm H. destruct (sim_enum_chain _ _ _ Sm) as (P1 & P2 & P3 & P4).
  induction H as [m x P|m p x P _ IH]; intro Hn; apply is_enum_In in Hn; apply enum_names_cases in Hn.
  - destruct Hn as [-> | [-> | [-> | ->]]]; rewrite P in *; try discriminate;
      match goal with H : Some _ = Some _ |- _ => inversion H; subst end; reflexivity.
  - apply IH. destruct Hn as [-> | [-> | [-> | ->]]]; rewrite P in *; try discriminate;
      match goal with H : Some _ = Some _ |- _ => inversion H; subst end; reflexivity.
Qed.

Lemma sval_lookup : forall n vals v, lookup_name n vals = Some v -> sval n vals = v.
Proof. intros n vals v H. unfold sval. rewrite H. reflexivity. Qed.

Lemma spec_no_enum_child : forall cls ms ss n, sim cls ms ss -> is_enum n = true -> lookup_name n (s_within ss) = None.
Proof.
  intros cls ms ss n Sm Hn. destruct (lookup_name n (s_within ss)) as [p|] eqn:E; [|reflexivity].
  apply lookup_name_in in E. destruct (sim_w _ _ _ Sm n p E) as (_ & _ & H & _). congruence.
Qed.

Lemma count_true_le : forall l, (count_true l <= length l)%nat.
Proof.
  unfold count_true. induction l as [|b l IH]; cbn [filter length]; [lia|]. destruct b; cbn [length]; lia.
Qed.

Lemma enum_nth_In : forall j, (1 <= j <= 4)%nat -> In (enum_nth j) enum_names.
Proof. intros j Hj. unfold enum_nth. apply nth_In. cbn [enum_names length]. lia. Qed.

Lemma enum_nth_enum : forall j, (1 <= j <= 4)%nat -> is_enum (enum_nth j) = true.
Proof. intros j Hj. apply is_enum_In. apply enum_nth_In. exact Hj. Qed.

(* a change of counter values only (same counters, same declarations): the static part of the relation is kept *)
Lemma sim_change_values : forall cls ms ss mc' vals',
  sim cls ms ss -> shape mc' = shape (m_counters ms) -> map fst vals' = map fst (s_vals ss) ->
  (forall n v, lookup_name n vals' = Some v -> is_enum n = false -> value_of n mc' = v) ->
  (forall p, ~ In p (dom ss) -> value_of p mc' = 0) ->
  lists_rel mc' vals' (s_lists ss) ->
  sim cls (with_counters ms mc') (with_vals ss vals').
Proof.
  intros cls ms ss mc' vals' Sm Sh Dm HV HD HL.
  assert (K : keys mc' = keys (m_counters ms)) by (apply keys_shape; exact Sh).
  assert (P : forall n, parent mc' n = parent (m_counters ms) n) by (intro; apply parent_shape; exact Sh).
  assert (Dm' : dom (with_vals ss vals') = dom ss) by exact Dm.
  constructor; unfold vals_rel, dead_zero;
    cbn [m_counters m_thes m_envs m_ldepth with_counters with_vals s_vals s_within s_the s_envs s_lists]; rewrite ?Dm'.
  - rewrite K. apply (sim_nodup _ _ _ Sm).
  - eapply acyclic_shape; [|apply (sim_acyc _ _ _ Sm)]. intro n. symmetry. apply P.
  - apply (sim_dom_nodup _ _ _ Sm).
  - intros n Hn. rewrite K. apply (sim_dom_keys _ _ _ Sm). exact Hn.
  - apply (sim_dom_nonnil _ _ _ Sm).
  - apply (sim_base _ _ _ Sm).
  - apply (sim_enum_dom _ _ _ Sm).
  - intros n Hn. rewrite K in Hn. apply (sim_keys_res _ _ _ Sm). exact Hn.
  - intros n p Hp. rewrite P in Hp. rewrite K. apply (sim_par_res _ _ _ Sm n p Hp).
  - apply (sim_w _ _ _ Sm).
  - apply (sim_wacyc _ _ _ Sm).
  - intros n c' H1 H2 H3 H4. rewrite <- (sim_desc _ _ _ Sm n c' H1 H2 H3 H4).
    split; intro H; (eapply desc_ext; [|exact H]); intro m; [apply P | symmetry; apply P].
  - rewrite !P. apply (sim_enum_chain _ _ _ Sm).
  - intros n p Hp. rewrite P in Hp. apply (sim_enum_closed _ _ _ Sm n p Hp).
  - eapply fmts_rel_ext; [| | |apply (sim_fmts _ _ _ Sm)]; [reflexivity | reflexivity | exact Dm'].
  - apply (sim_fmt_enum _ _ _ Sm).
  - apply (sim_fuel _ _ _ Sm).
  - apply (sim_the_dom _ _ _ Sm).
  - intros k Hk. rewrite K. apply (sim_thes_keys _ _ _ Sm). exact Hk.
  - apply (sim_envs _ _ _ Sm).
  - apply (sim_envs_dom _ _ _ Sm).
  - exact HV.
  - exact HD.
  - apply (sim_depth _ _ _ Sm).
  - apply (sim_depth4 _ _ _ Sm).
  - exact HL.
Qed.

(* stepping a counter LaTeX knows (not a list counter): both sides stay related *)
Lemma step_sim : forall cls ms ss c, sim cls ms ss -> In c (dom ss) -> is_enum c = false ->
  exists st', stepcounter c (m_counters ms) = Some st' /\
    sim cls (with_counters ms st') (with_vals ss (spec_step c (s_within ss) (s_vals ss))).
Proof.
  intros cls ms ss c Sm Hc He.
  destruct (step_resets_transitively (m_counters ms) c (sim_nodup _ _ _ Sm) (sim_acyc _ _ _ Sm)) as (st' & E & Sh & Vc & D & U & Z).
  rewrite (ensure_in c _ (sim_dom_keys _ _ _ Sm c Hc)) in Sh.
  exists st'. split; [exact E|].
  assert (Enum_m : forall n, is_enum n = true -> value_of n st' = value_of n (m_counters ms)).
  { intros n Hn. apply U; [intro; subst; congruence|]. intro Hd. pose proof (enum_ancestors _ _ _ _ _ Sm Hd Hn). congruence. }
  assert (Enum_s : forall n, is_enum n = true -> sval n (spec_step c (s_within ss) (s_vals ss)) = sval n (s_vals ss)).
  { intros n Hn. unfold sval. rewrite spec_step_lookup. destruct (lookup_name n (s_vals ss)) as [v|]; [|reflexivity].
    assert (X : name_eqb n c = false) by (apply name_eqb_neq; intro; subst; congruence). rewrite X.
    cbn [is_within]. rewrite (spec_no_enum_child _ _ _ _ Sm Hn). reflexivity. }
  apply sim_change_values; [exact Sm | exact Sh | apply spec_step_dom | | |].
  - (* values *)
    intros n v Hv Hn. rewrite spec_step_lookup in Hv.
    destruct (lookup_name n (s_vals ss)) as [v0|] eqn:E0; [|discriminate].
    pose proof (sim_vals _ _ _ Sm n v0 E0 Hn) as V0.
    assert (Hnd : In n (dom ss)) by (eapply lookup_name_dom; exact E0).
    destruct (name_eqb n c) eqn:Enc.
    + apply name_eqb_eq in Enc. subst n. injection Hv as <-. rewrite Vc, V0. reflexivity.
    + apply name_eqb_neq in Enc.
      destruct (is_within (Datatypes.S (length (s_within ss))) (s_within ss) n c) eqn:Ew; injection Hv as <-.
      * apply D. apply (sim_desc _ _ _ Sm n c Hnd Hc Hn He). apply is_within_iff; [apply (sim_wacyc _ _ _ Sm) | exact Ew].
      * rewrite U; [exact V0 | exact Enc |].
        intro Hd. apply (sim_desc _ _ _ Sm n c Hnd Hc Hn He) in Hd. apply is_within_iff in Hd; [congruence | apply (sim_wacyc _ _ _ Sm)].
  - (* dead counters *)
    intros p Hp. assert (p <> c) by (intro; subst; contradiction).
    destruct (Z p H) as [H0|H0]; [exact H0 | rewrite H0; apply (sim_dead _ _ _ Sm p Hp)].
  - eapply lists_rel_ext; [| |apply (sim_lists _ _ _ Sm)].
    + intros j Hj. apply Enum_m. apply enum_nth_enum. pose proof (sim_depth4 _ _ _ Sm). lia.
    + intros j Hj. apply Enum_s. apply enum_nth_enum. pose proof (sim_depth4 _ _ _ Sm). pose proof (count_true_le (s_lists ss)). lia.
Qed.

(* a numbered object whose counter LaTeX knows: same new state, same printed number *)
Lemma obj_sim : forall cls depth level kind ms ss c ss1 o,
  sim cls ms ss -> is_enum c = false -> numbered depth level = true ->
  spec_obj true kind c ss = Some (ss1, o) ->
  exists ms1 t, macro_number depth (Some c) level false ms = Ok (ms1, Some t) /\ o = [(kind, Some t)] /\ sim cls ms1 ss1.
Proof.
  intros cls depth level kind ms ss c ss1 o Sm He Hnum Hs. unfold spec_obj in Hs.
  destruct (lookup_name c (s_vals ss)) as [v|] eqn:Ec; [|discriminate].
  destruct (the_in true (with_vals ss (spec_step c (s_within ss) (s_vals ss))) c) as [t|] eqn:Et; [|discriminate].
  injection Hs as <- <-.
  assert (Hc : In c (dom ss)) by (eapply lookup_name_dom; exact Ec).
  destruct (step_sim _ _ _ _ Sm Hc He) as (st' & Es & Sm').
  destruct c as [|ch ct]; [exfalso; apply (sim_dom_nonnil _ _ _ Sm); exact Hc|].
  exists (with_counters ms st'), t. split; [|split; [reflexivity | exact Sm']].
  unfold macro_number. cbv zeta. cbv iota beta. rewrite Hnum, Es. unfold the_of.
  unfold the_in in Et.
  rewrite (expand_sim _ _ (sim_fmts _ _ _ Sm') (sim_vals _ _ _ Sm') (sim_dead _ _ _ Sm') _ _ _ _ He Et).
  - reflexivity.
  - pose proof (sim_fuel _ _ _ Sm'). cbn [m_thes with_counters] in *. lia.
Qed.

Lemma lists_rel_get : forall mc vals stack, forallb (fun b => b) stack = true -> lists_rel mc vals stack ->
  forall k, (1 <= k <= length stack)%nat -> value_of (enum_nth k) mc = sval (enum_nth k) vals.
Proof.
  induction stack as [|b rest IH]; intros Hall HL k Hk; [cbn in Hk; lia|].
  cbn [forallb] in Hall. apply andb_true_iff in Hall. destruct Hall as [Hb Hall]. subst b.
  cbn [lists_rel] in HL. destruct HL as [H1 H2].
  assert (Hct : count_true (true :: rest) = length (true :: rest)).
  { unfold count_true. cbn [filter length]. f_equal. clear - Hall. induction rest as [|b r IHr]; [reflexivity|].
    cbn [forallb] in Hall. apply andb_true_iff in Hall. destruct Hall as [-> Hall]. cbn [filter length]. f_equal. apply IHr. exact Hall. }
  destruct (Nat.eq_dec k (length (true :: rest))) as [->|Hne].
  - rewrite Hct in H1. apply H1. reflexivity.
  - apply IH; [exact Hall | exact H2 | cbn [length] in *; lia].
Qed.

Lemma enum_index_aux_spec : forall c l k j, enum_index_aux c l k = Some j ->
  (k <= j < k + length l)%nat /\ nth (j - k) l [] = c.
Proof.
  induction l as [|n l IH]; cbn [enum_index_aux]; intros k j H; [discriminate|].
  destruct (name_eqb c n) eqn:E.
  - injection H as <-. apply name_eqb_eq in E. subst. cbn [length]. split; [lia|]. rewrite Nat.sub_diag. reflexivity.
  - apply IH in H. destruct H as [H1 H2]. cbn [length]. split; [lia|].
    replace (j - k)%nat with (Datatypes.S (j - Datatypes.S k)) by lia. exact H2.
Qed.

Lemma enum_index_none : forall c, enum_index c = None -> is_enum c = false.
Proof.
  intros c. unfold enum_index, is_enum, mem. generalize 1%nat. induction enum_names as [|n l IH]; intros k H; [reflexivity|].
  cbn [enum_index_aux] in H. cbn [existsb]. destruct (name_eqb c n); [discriminate|]. cbn [orb]. eapply IH. exact H.
Qed.

Lemma enum_index_some : forall c k, enum_index c = Some k -> (1 <= k <= 4)%nat /\ c = enum_nth k.
Proof.
  intros c k H. unfold enum_index in H. apply enum_index_aux_spec in H. cbn [enum_names length] in H. destruct H as [H1 H2].
  split; [lia|]. unfold enum_nth. symmetry. exact H2.
Qed.

(* the value both sides hold for a counter on which an explicit operation is allowed *)
Lemma value_agree : forall cls ms ss c v, sim cls ms ss -> lookup_name c (s_vals ss) = Some v ->
  enum_ok c (s_lists ss) = true -> value_of c (m_counters ms) = v.
Proof.
  intros cls ms ss c v Sm Hv Hok. unfold enum_ok in Hok. destruct (enum_index c) as [k|] eqn:Ek.
  - apply andb_true_iff in Hok. destruct Hok as [Hall Hle]. apply Nat.leb_le in Hle.
    destruct (enum_index_some _ _ Ek) as [Hk ->].
    rewrite (lists_rel_get _ _ _ Hall (sim_lists _ _ _ Sm) k) by lia. apply sval_lookup. exact Hv.
  - apply (sim_vals _ _ _ Sm c v Hv). apply enum_index_none. exact Ek.
Qed.

Lemma enum_nth_inj : forall i j, (1 <= i <= 4)%nat -> (1 <= j <= 4)%nat -> enum_nth i = enum_nth j -> i = j.
Proof.
  intros i j Hi Hj. unfold enum_nth.
  assert (forall a, (a < 4)%nat -> a = 0 \/ a = 1 \/ a = 2 \/ a = 3)%nat by (intros; lia).
  destruct (H (i - 1)%nat) as [E1|[E1|[E1|E1]]]; [lia| | | |]; destruct (H (j - 1)%nat) as [E2|[E2|[E2|E2]]]; try lia;
    rewrite E1, E2; cbn; intro X; try discriminate; lia.
Qed.

(* \setcounter{c}{v} on both sides (and \addtocounter, \appendix through it) *)
Lemma assign_sim : forall cls ms ss c v, sim cls ms ss -> In c (dom ss) -> enum_ok c (s_lists ss) = true ->
  sim cls (with_counters ms (setcounter c v (m_counters ms))) (with_vals ss (spec_set c v (s_vals ss))).
Proof.
  intros cls ms ss c v Sm Hc Hok. unfold setcounter. rewrite (ensure_in c _ (sim_dom_keys _ _ _ Sm c Hc)).
  assert (Hk : In c (keys (m_counters ms))) by (apply (sim_dom_keys _ _ _ Sm); exact Hc).
  apply sim_change_values; [exact Sm | apply set_value_shape | apply spec_set_dom | | |].
  - intros n w Hw Hn. destruct (name_eq_dec n c) as [->|Hne].
    + rewrite spec_set_same in Hw by exact Hc. injection Hw as <-. apply value_of_set_same. exact Hk.
    + rewrite spec_set_other in Hw by exact Hne. rewrite value_of_set_other by exact Hne. apply (sim_vals _ _ _ Sm n w Hw Hn).
  - intros p Hp. rewrite value_of_set_other by (intro; subst; contradiction). apply (sim_dead _ _ _ Sm p Hp).
  - unfold enum_ok in Hok. destruct (enum_index c) as [k|] eqn:Ek.
    + (* a list counter, inside pure enumerate nesting: the same counter on both sides *)
      apply andb_true_iff in Hok. destruct Hok as [Hall Hle]. apply Nat.leb_le in Hle.
      destruct (enum_index_some _ _ Ek) as [Hk4 ->].
      pose proof (sim_lists _ _ _ Sm) as HL. pose proof (sim_depth4 _ _ _ Sm) as H4.
      revert Hall HL Hle H4. generalize (s_lists ss) as stack. induction stack as [|b rest IH]; intros Hall HL Hle H4; [exact I|].
      cbn [forallb] in Hall. apply andb_true_iff in Hall. destruct Hall as [Hb Hall]. subst b.
      assert (Hct : count_true (true :: rest) = length (true :: rest)).
      { unfold count_true. cbn [filter length]. f_equal. clear - Hall. induction rest as [|b r IHr]; [reflexivity|].
        cbn [forallb] in Hall. apply andb_true_iff in Hall. destruct Hall as [-> Hall]. cbn [filter length]. f_equal. apply IHr. exact Hall. }
      cbn [lists_rel] in *. destruct HL as [H1 H2]. split.
      * intros _. rewrite Hct. specialize (H1 eq_refl). rewrite Hct in H1.
        destruct (Nat.eq_dec k (length (true :: rest))) as [->|Hne].
        -- rewrite value_of_set_same by exact Hk. unfold sval. rewrite spec_set_same by exact Hc. reflexivity.
        -- assert (enum_nth (length (true :: rest)) <> enum_nth k).
           { intro X. apply enum_nth_inj in X; [congruence | cbn [length] in *; lia | lia]. }
           rewrite value_of_set_other by exact H. unfold sval. rewrite spec_set_other by exact H. exact H1.
      * destruct (Nat.eq_dec k (length (true :: rest))) as [->|Hne].
        -- (* the shallower lists do not use this counter *)
           eapply lists_rel_ext; [| |exact H2].
           ++ intros j Hj. apply value_of_set_other. intro X. apply enum_nth_inj in X; cbn [length] in *; lia.
           ++ intros j Hj. unfold sval. rewrite spec_set_other; [reflexivity|]. intro X. pose proof (count_true_le rest).
              apply enum_nth_inj in X; cbn [length] in *; lia.
        -- apply IH; [exact Hall | exact H2 | cbn [length] in *; lia | cbn [length] in *; lia].
    + (* not a list counter: the list counters keep their values *)
      assert (He : is_enum c = false) by (apply enum_index_none; exact Ek).
      eapply lists_rel_ext; [| |apply (sim_lists _ _ _ Sm)].
      * intros j Hj. apply value_of_set_other. intro X. subst c. rewrite enum_nth_enum in He; [discriminate|].
        pose proof (sim_depth4 _ _ _ Sm). lia.
      * intros j Hj. unfold sval. rewrite spec_set_other; [reflexivity|]. intro X. subst c. rewrite enum_nth_enum in He; [discriminate|].
        pose proof (sim_depth4 _ _ _ Sm). pose proof (count_true_le (s_lists ss)). lia.
Qed.

(* an assignment to a list counter no open list uses: invisible, whatever the two values *)
Lemma assign_unused_sim : forall cls ms ss c a b, sim cls ms ss -> In c (dom ss) -> enum_unused c (s_lists ss) = true ->
  sim cls (with_counters ms (setcounter c a (m_counters ms))) (with_vals ss (spec_set c b (s_vals ss))).
Proof.
  intros cls ms ss c a b Sm Hc Hun. unfold enum_unused in Hun. destruct (enum_index c) as [k|] eqn:Ek; [|discriminate].
  apply Nat.ltb_lt in Hun. destruct (enum_index_some _ _ Ek) as [Hk4 ->].
  unfold setcounter. rewrite (ensure_in _ _ (sim_dom_keys _ _ _ Sm _ Hc)).
  apply sim_change_values; [exact Sm | apply set_value_shape | apply spec_set_dom | | |].
  - intros n w Hw Hn. assert (Hne : n <> enum_nth k) by (intro; subst n; rewrite enum_nth_enum in Hn by exact Hk4; discriminate).
    rewrite spec_set_other in Hw by exact Hne. rewrite value_of_set_other by exact Hne. apply (sim_vals _ _ _ Sm n w Hw Hn).
  - intros p Hp. rewrite value_of_set_other by (intro; subst; contradiction). apply (sim_dead _ _ _ Sm p Hp).
  - eapply lists_rel_ext; [| |apply (sim_lists _ _ _ Sm)].
    + intros j Hj. apply value_of_set_other. intro X. apply enum_nth_inj in X; lia.
    + intros j Hj. unfold sval. rewrite spec_set_other; [reflexivity|]. intro X. pose proof (count_true_le (s_lists ss)).
      apply enum_nth_inj in X; lia.
Qed.

(* ---------------------------------------------------------------------------------------------- *)
(** * Declarations *)

Lemma desc_inv : forall par a b, desc par a b -> par a = Some b \/ exists p, par a = Some p /\ desc par p b.
Proof. intros par a b H. destruct H as [m x P|m p x P H']; [left; exact P | right; exists p; auto]. Qed.

(* a parent function extended at a new point nobody points to *)
Section ExtendPar.
  Context (par par' : name -> option name) (nm : name) (pw : option name).
  Context (Hnm : par' nm = pw).
  Context (Hother : forall n, n <> nm -> par' n = par n).
  Context (Hnot : forall n p, par n = Some p -> p <> nm).
  Context (Hw : pw <> Some nm).

  Lemma ext_target : forall a b, desc par' a b -> b <> nm.
  Proof.
    intros a b H. induction H as [m x P|m p x P _ IH]; [|exact IH].
    destruct (name_eq_dec m nm) as [->|Hne]; [rewrite Hnm in P; congruence | rewrite Hother in P by exact Hne; eapply Hnot; exact P].
  Qed.

  Lemma ext_old : forall a b, a <> nm -> (desc par' a b <-> desc par a b).
  Proof.
    intros a b Ha. split; intro H.
    - induction H as [m x P|m p x P H' IH].
      + apply desc_parent. rewrite <- Hother by exact Ha. exact P.
      + rewrite Hother in P by exact Ha. eapply desc_step; [exact P|]. apply IH. eapply Hnot. exact P.
    - induction H as [m x P|m p x P H' IH].
      + apply desc_parent. rewrite Hother by exact Ha. exact P.
      + eapply desc_step; [rewrite Hother by exact Ha; exact P|]. apply IH. eapply Hnot. exact P.
  Qed.

  Lemma ext_new : forall b, desc par' nm b <-> exists w, pw = Some w /\ (b = w \/ desc par w b).
  Proof.
    intro b. split.
    - intro H. apply desc_inv in H. destruct H as [P|(p & P & H')]; rewrite Hnm in P.
      + exists b. split; [exact P | left; reflexivity].
      + exists p. split; [exact P|]. right. apply ext_old; [intro E; rewrite E in P; apply Hw; exact P | exact H'].
    - intros (w & E & [->|H]).
      + apply desc_parent. rewrite Hnm. exact E.
      + eapply desc_step; [rewrite Hnm; exact E|]. apply ext_old; [intro E2; rewrite E2 in E; apply Hw; exact E | exact H].
  Qed.

  Lemma ext_acyclic : (forall n, ~ desc par n n) -> forall n, ~ desc par' n n.
  Proof.
    intros AC n H. pose proof (ext_target _ _ H) as Hn. apply ext_old in H; [|exact Hn]. apply (AC n H).
  Qed.
End ExtendPar.

Lemma lookup_the_in : forall k th d, lookup_the k th = Some d -> In k (map fst th).
Proof.
  induction th as [|[m e] th IH]; cbn; intros d H; [discriminate|].
  destruct (name_eqb k m) eqn:E; [left; symmetry; apply name_eqb_eq; exact E | right; eapply IH; exact H].
Qed.

Lemma parent_snoc : forall mc nm rb n, ~ In nm (keys mc) ->
  parent (mc ++ [(nm, mkc rb 0)]) n = if name_eqb n nm then truthy rb else parent mc n.
Proof.
  intros mc nm rb n Hnm. unfold parent. destruct (lookup n mc) as [c|] eqn:E.
  - rewrite (lookup_app_some _ _ _ _ E). destruct (name_eqb n nm) eqn:E2; [|reflexivity].
    apply name_eqb_eq in E2. subst. exfalso. apply Hnm. eapply lookup_in. exact E.
  - rewrite (lookup_app_none _ _ _ E). cbn [lookup]. destruct (name_eqb n nm); reflexivity.
Qed.

Lemma value_of_snoc : forall mc nm c n, value_of n (mc ++ [(nm, c)]) =
  match lookup n mc with Some d => c_value d | None => if name_eqb n nm then c_value c else 0 end.
Proof.
  intros mc nm c n. unfold value_of. destruct (lookup n mc) as [d|] eqn:E.
  - rewrite (lookup_app_some _ _ _ _ E). reflexivity.
  - rewrite (lookup_app_none _ _ _ E). cbn [lookup]. destruct (name_eqb n nm); reflexivity.
Qed.

Lemma fresh_name_spec : forall nm ss, fresh_name nm ss = true ->
  nm <> [] /\ ~ In nm spec_reserved /\ ~ In nm (dom ss) /\ ~ In nm (map fst (s_envs ss)).
Proof.
  intros nm ss H. unfold fresh_name in H. repeat (apply andb_true_iff in H; destruct H as [H ?]).
  apply negb_true_iff in H. repeat match goal with X : negb _ = true |- _ => apply negb_true_iff in X end.
  split; [destruct nm; [discriminate | discriminate]|]. split; [apply mem_false; assumption|]. split; apply mem_false; assumption.
Qed.

Lemma reserved_enum : forall n, In n enum_names -> In n spec_reserved.
Proof. intros n H. apply enum_names_cases in H. destruct H as [-> | [-> | [-> | ->]]]; vm_compute; repeat (try (left; reflexivity); right). Qed.

(* a new counter nm, optionally within w, on both sides (its \the is added separately) *)
Lemma add_counter_sim : forall cls ms ss nm ow,
  sim cls ms ss -> nm <> [] -> ~ In nm spec_reserved -> ~ In nm (dom ss) ->
  (forall w, ow = Some w -> In w (dom ss) /\ w <> [] /\ is_enum w = false) ->
  sim cls (mkms (m_counters ms ++ [(nm, mkc ow 0)]) (m_thes ms) (m_envs ms) (m_ldepth ms))
          (mkss (s_vals ss ++ [(nm, 0)]) (match ow with Some w => (nm, w) :: s_within ss | None => s_within ss end)
                (s_the ss) (s_envs ss) (s_lists ss)).
Proof.
  intros cls ms ss nm ow Sm Hne Hres Hdom Hw.
  assert (Hkeys : ~ In nm (keys (m_counters ms))).
  { intro H. destruct (sim_keys_res _ _ _ Sm nm H); contradiction. }
  assert (Htr : truthy ow = ow).
  { destruct ow as [w|]; [|reflexivity]. destruct (Hw w eq_refl) as (_ & H & _). destruct w; [congruence | reflexivity]. }
  set (mc' := m_counters ms ++ [(nm, mkc ow 0)]).
  set (W' := match ow with Some w => (nm, w) :: s_within ss | None => s_within ss end).
  assert (Pm : forall n, parent mc' n = if name_eqb n nm then ow else parent (m_counters ms) n).
  { intro n. unfold mc'. rewrite parent_snoc by exact Hkeys. rewrite Htr. reflexivity. }
  assert (Ps : forall n, spar W' n = if name_eqb n nm then ow else spar (s_within ss) n).
  { intro n. unfold W', spar. destruct ow as [w|]; cbn [lookup_name].
    - destruct (name_eqb n nm); reflexivity.
    - destruct (name_eqb n nm) eqn:E; [|reflexivity]. apply name_eqb_eq in E. subst.
      destruct (lookup_name nm (s_within ss)) as [p|] eqn:E2; [|reflexivity].
      apply lookup_name_in in E2. destruct (sim_w _ _ _ Sm _ _ E2) as (H & _). contradiction. }
  (* the generic extension facts, for both parent functions *)
  assert (Mnm : parent mc' nm = ow) by (rewrite Pm, name_eqb_refl; reflexivity).
  assert (Mother : forall n, n <> nm -> parent mc' n = parent (m_counters ms) n).
  { intros n H. rewrite Pm. apply name_eqb_neq in H. rewrite H. reflexivity. }
  assert (Mnot : forall n p, parent (m_counters ms) n = Some p -> p <> nm).
  { intros n p H E. subst p. destruct (sim_par_res _ _ _ Sm n nm H); contradiction. }
  assert (Snm : spar W' nm = ow) by (rewrite Ps, name_eqb_refl; reflexivity).
  assert (Sother : forall n, n <> nm -> spar W' n = spar (s_within ss) n).
  { intros n H. rewrite Ps. apply name_eqb_neq in H. rewrite H. reflexivity. }
  assert (Snot : forall n p, spar (s_within ss) n = Some p -> p <> nm).
  { intros n p H E. subst p. apply lookup_name_in in H. destruct (sim_w _ _ _ Sm _ _ H) as (_ & H2 & _). contradiction. }
  assert (Hwn : ow <> Some nm).
  { intro E. destruct (Hw nm E) as (H & _). contradiction. }
  assert (Enm : is_enum nm = false).
  { apply mem_false. intro H. apply Hres. apply reserved_enum. exact H. }
  assert (Dm : forall W, dom (mkss (s_vals ss ++ [(nm, 0)]) W (s_the ss) (s_envs ss) (s_lists ss)) = dom ss ++ [nm]).
  { intro W. unfold dom. cbn [s_vals]. rewrite map_app. reflexivity. }
  assert (Km : keys mc' = keys (m_counters ms) ++ [nm]) by (unfold mc', keys; rewrite map_app; reflexivity).
  assert (Vold : forall n, In n (keys (m_counters ms)) -> value_of n mc' = value_of n (m_counters ms)).
  { intros n H. unfold mc'. rewrite value_of_snoc. unfold value_of. destruct (lookup n (m_counters ms)) eqn:E; [reflexivity|].
    apply lookup_none in E. contradiction. }
  assert (Sold : forall n, In n (dom ss) -> lookup_name n (s_vals ss ++ [(nm, 0)]) = lookup_name n (s_vals ss)).
  { intros n H. rewrite lookup_name_app. destruct (lookup_name_some _ n (s_vals ss) H) as (v & E). rewrite E. reflexivity. }
  constructor; unfold vals_rel, dead_zero; cbn [m_counters m_thes m_envs m_ldepth s_vals s_within s_the s_envs s_lists]; rewrite ?Dm; fold mc'; fold W'.
  - rewrite Km. apply NoDup_snoc; [apply (sim_nodup _ _ _ Sm) | exact Hkeys].
  - exact (ext_acyclic (parent (m_counters ms)) (parent mc') nm ow Mnm Mother Mnot Hwn (sim_acyc _ _ _ Sm)).
  - apply NoDup_snoc; [apply (sim_dom_nodup _ _ _ Sm) | exact Hdom].
  - intros n Hn. rewrite Km. apply in_app_iff in Hn. apply in_app_iff. destruct Hn as [Hn|Hn]; [left; apply (sim_dom_keys _ _ _ Sm); exact Hn | right; exact Hn].
  - intro H. apply in_app_iff in H. destruct H as [H|[H|[]]]; [apply (sim_dom_nonnil _ _ _ Sm); exact H | congruence].
  - intros n Hn. apply in_app_iff. left. apply (sim_base _ _ _ Sm). exact Hn.
  - intros n Hn. apply in_app_iff. left. apply (sim_enum_dom _ _ _ Sm). exact Hn.
  - intros n Hn. rewrite Km in Hn. apply in_app_iff in Hn. destruct Hn as [Hn|[<-|[]]].
    + destruct (sim_keys_res _ _ _ Sm n Hn) as [H|H]; [left; apply in_app_iff; left; exact H | right; exact H].
    + left. apply in_app_iff. right. left. reflexivity.
  - intros n p Hp. rewrite Km. rewrite Pm in Hp. destruct (name_eqb n nm) eqn:E.
    + destruct (Hw p Hp) as (H & _). left. apply in_app_iff. left. apply (sim_dom_keys _ _ _ Sm). exact H.
    + destruct (sim_par_res _ _ _ Sm n p Hp) as [H|H]; [left; apply in_app_iff; left; exact H | right; exact H].
  - intros d p Hin. assert (Hcases : (d = nm /\ ow = Some p) \/ In (d, p) (s_within ss)).
    { unfold W' in Hin. destruct ow as [w|]; [destruct Hin as [Hin|Hin]; [injection Hin as <- <-; left; auto | right; exact Hin] | right; exact Hin]. }
    destruct Hcases as [[-> E]|Hin'].
    + destruct (Hw p E) as (H1 & H2 & H3). split; [apply in_app_iff; right; left; reflexivity|]. split; [apply in_app_iff; left; exact H1|]. split; assumption.
    + destruct (sim_w _ _ _ Sm d p Hin') as (H1 & H2 & H3 & H4). split; [apply in_app_iff; left; exact H1|]. split; [apply in_app_iff; left; exact H2|]. split; assumption.
  - exact (ext_acyclic (spar (s_within ss)) (spar W') nm ow Snm Sother Snot Hwn (sim_wacyc _ _ _ Sm)).
  - intros n c Hn Hc En Ec.
    destruct (name_eq_dec c nm) as [->|Hcn].
    { split; intro H; exfalso.
      - exact (ext_target _ _ nm ow Mnm Mother Mnot Hwn _ _ H eq_refl).
      - exact (ext_target _ _ nm ow Snm Sother Snot Hwn _ _ H eq_refl). }
    assert (Hc' : In c (dom ss)) by (apply in_app_iff in Hc; destruct Hc as [Hc|[Hc|[]]]; [exact Hc | congruence]).
    destruct (name_eq_dec n nm) as [->|Hnn].
    + pose proof (ext_new _ _ nm ow Mnm Mother Mnot Hwn c) as X1. pose proof (ext_new _ _ nm ow Snm Sother Snot Hwn c) as X2.
      split; intro H.
      * apply X2. apply X1 in H. destruct H as (w & E & H). exists w. split; [exact E|]. destruct (Hw w E) as (W1 & W2 & W3).
        destruct H as [H|H]; [left; exact H | right; apply (sim_desc _ _ _ Sm w c W1 Hc' W3 Ec); exact H].
      * apply X1. apply X2 in H. destruct H as (w & E & H). exists w. split; [exact E|]. destruct (Hw w E) as (W1 & W2 & W3).
        destruct H as [H|H]; [left; exact H | right; apply (sim_desc _ _ _ Sm w c W1 Hc' W3 Ec); exact H].
    + assert (Hn' : In n (dom ss)) by (apply in_app_iff in Hn; destruct Hn as [Hn|[Hn|[]]]; [exact Hn | congruence]).
      pose proof (ext_old _ _ nm Mother Mnot n c Hnn) as X1. pose proof (ext_old _ _ nm Sother Snot n c Hnn) as X2.
      pose proof (sim_desc _ _ _ Sm n c Hn' Hc' En Ec) as X3.
      split; intro H; [apply X2, X3, X1, H | apply X1, X3, X2, H].
  - destruct (sim_enum_chain _ _ _ Sm) as (P1 & P2 & P3 & P4).
    assert (forall e, In e enum_names -> parent mc' e = parent (m_counters ms) e).
    { intros e He. apply Mother. intro X. rewrite X in He. apply Hres. apply reserved_enum. exact He. }
    rewrite (H n_enumi), (H n_enumii), (H n_enumiii), (H n_enumiv) by (cbn; auto). auto.
  - intros n p Hp Hep. rewrite Pm in Hp. destruct (name_eqb n nm) eqn:E.
    + destruct (Hw p Hp) as (_ & _ & H). congruence.
    + apply (sim_enum_closed _ _ _ Sm n p Hp Hep).
  - intros k sf Hk Hek. destruct (sim_fmts _ _ _ Sm k sf Hk Hek) as (mf & trim & Hl & FR). exists mf, trim. split; [exact Hl|].
    destruct FR; try (constructor; assumption).
    constructor; [assumption| |assumption]. rewrite Dm. intro HX. apply in_app_iff in HX. destruct HX as [HX|[HX|[]]]; [contradiction|].
    subst p. apply Hkeys. apply (sim_thes_keys _ _ _ Sm). eapply lookup_the_in. eassumption.
  - apply (sim_fmt_enum _ _ _ Sm).
  - apply (sim_fuel _ _ _ Sm).
  - intros k Hk. apply in_app_iff. left. apply (sim_the_dom _ _ _ Sm). exact Hk.
  - intros k Hk. rewrite Km. apply in_app_iff. left. apply (sim_thes_keys _ _ _ Sm). exact Hk.
  - apply (sim_envs _ _ _ Sm).
  - intros e c Hin. destruct (sim_envs_dom _ _ _ Sm e c Hin) as [H1 H2]. split; [apply in_app_iff; left; exact H1 | exact H2].
  - intros n v Hv Hn. rewrite lookup_name_app in Hv. destruct (lookup_name n (s_vals ss)) as [v0|] eqn:E0.
    + injection Hv as <-. rewrite Vold; [apply (sim_vals _ _ _ Sm n v0 E0 Hn)|].
      apply (sim_dom_keys _ _ _ Sm). eapply lookup_name_dom. exact E0.
    + cbn [lookup_name] in Hv. destruct (name_eqb n nm) eqn:E; [|discriminate]. injection Hv as <-.
      apply name_eqb_eq in E. subst n. unfold mc'. rewrite value_of_snoc.
      destruct (lookup nm (m_counters ms)) eqn:E1; [exfalso; apply Hkeys; eapply lookup_in; exact E1|]. rewrite name_eqb_refl. reflexivity.
  - intros p Hp. assert (Hp1 : ~ In p (dom ss)) by (intro; apply Hp; apply in_app_iff; left; assumption).
    assert (Hp2 : p <> nm) by (intro X; apply Hp; apply in_app_iff; right; left; symmetry; exact X).
    unfold mc'. rewrite value_of_snoc. pose proof (sim_dead _ _ _ Sm p Hp1) as H0. unfold value_of in H0.
    destruct (lookup p (m_counters ms)); [exact H0|]. apply name_eqb_neq in Hp2. rewrite Hp2. reflexivity.
  - apply (sim_depth _ _ _ Sm).
  - apply (sim_depth4 _ _ _ Sm).
  - eapply lists_rel_ext; [| |apply (sim_lists _ _ _ Sm)].
    + intros j Hj. apply Vold. apply (sim_dom_keys _ _ _ Sm). pose proof (sim_depth4 _ _ _ Sm).
      apply (sim_enum_dom _ _ _ Sm). apply enum_nth_In. lia.
    + intros j Hj. unfold sval. rewrite Sold; [reflexivity|]. pose proof (sim_depth4 _ _ _ Sm). pose proof (count_true_le (s_lists ss)).
      apply (sim_enum_dom _ _ _ Sm). apply enum_nth_In. lia.
Qed.

Ltac sim_same Sm :=
  first [ exact (sim_nodup _ _ _ Sm) | exact (sim_acyc _ _ _ Sm) | exact (sim_dom_nodup _ _ _ Sm) | exact (sim_dom_keys _ _ _ Sm)
        | exact (sim_dom_nonnil _ _ _ Sm) | exact (sim_base _ _ _ Sm) | exact (sim_enum_dom _ _ _ Sm) | exact (sim_keys_res _ _ _ Sm)
        | exact (sim_par_res _ _ _ Sm) | exact (sim_w _ _ _ Sm) | exact (sim_wacyc _ _ _ Sm) | exact (sim_desc _ _ _ Sm)
        | exact (sim_enum_chain _ _ _ Sm) | exact (sim_enum_closed _ _ _ Sm) | exact (sim_fmt_enum _ _ _ Sm)
        | exact (sim_fuel _ _ _ Sm) | exact (sim_the_dom _ _ _ Sm) | exact (sim_thes_keys _ _ _ Sm) | exact (sim_envs _ _ _ Sm)
        | exact (sim_envs_dom _ _ _ Sm) | exact (sim_vals _ _ _ Sm) | exact (sim_dead _ _ _ Sm) | exact (sim_depth _ _ _ Sm)
        | exact (sim_depth4 _ _ _ Sm) | exact (sim_lists _ _ _ Sm) ].

(* a \the<key> (re)defined on both sides, for a counter LaTeX knows *)
Lemma fmt_update_sim : forall cls ms ss key sf mf trim,
  sim cls ms ss -> In key (dom ss) -> is_enum key = false ->
  (forall ms' ss', fmt_rel ms' ss' key sf mf trim) ->
  (lookup_name key (s_the ss) = None \/ sf = [SNum RAlph key] \/ sf = [SNum RArabic key]) ->
  sim cls (mkms (m_counters ms) ((key, (mf, trim)) :: m_thes ms) (m_envs ms) (m_ldepth ms))
          (mkss (s_vals ss) (s_within ss) ((key, sf) :: s_the ss) (s_envs ss) (s_lists ss)).
Proof.
  intros cls ms ss key sf mf trim Sm Hk He FRnew Hsafe.
  constructor; unfold vals_rel, dead_zero; cbn [m_counters m_thes m_envs m_ldepth s_vals s_within s_the s_envs s_lists];
    try (sim_same Sm).
  - (* formats *)
    intros k sf' Hl Hek. cbn [s_the lookup_name] in Hl. cbn [m_thes lookup_the]. destruct (name_eqb k key) eqn:E; rewrite ?E in Hl.
    + apply name_eqb_eq in E. subst k. injection Hl as <-. exists mf, trim. split; [reflexivity | apply FRnew].
    + destruct (sim_fmts _ _ _ Sm k sf' Hl Hek) as (mf' & trim' & Hl' & FR). exists mf', trim'. split; [exact Hl'|].
      destruct FR; try (constructor; assumption).
      * constructor; [assumption | assumption |]. unfold prefix_ok in *. cbn [s_the lookup_name].
        destruct (name_eqb p key) eqn:E2; [|assumption]. apply name_eqb_eq in E2. subst p.
        destruct Hsafe as [Hn|[->| ->]]; [destruct H1 as [H1|H1]; congruence | right; reflexivity | left; reflexivity].
      * constructor; [assumption | assumption |]. cbn [m_thes lookup_the].
        assert (X : name_eqb p key = false) by (apply name_eqb_neq; intro; subst; contradiction). rewrite X. assumption.
  - intros k Hk'. destruct (sim_fmt_enum _ _ _ Sm k Hk') as [H1 H2].
    assert (X : name_eqb k key = false) by (apply name_eqb_neq; intro; subst; apply is_enum_In in Hk'; congruence).
    cbn [lookup_the lookup_name]. rewrite X. auto.
  - pose proof (sim_fuel _ _ _ Sm). cbn [length]. lia.
  - intros k [<-|H]; [exact Hk | apply (sim_the_dom _ _ _ Sm); exact H].
  - intros k [<-|H]; [apply (sim_dom_keys _ _ _ Sm); exact Hk | apply (sim_thes_keys _ _ _ Sm); exact H].
Qed.

(* a theorem-like environment declared on both sides *)
Lemma envs_update_sim : forall cls ms ss e oc,
  sim cls ms ss -> (forall c, oc = Some c -> In c (dom ss) /\ is_enum c = false) ->
  sim cls (mkms (m_counters ms) (m_thes ms) ((e, oc) :: m_envs ms) (m_ldepth ms))
          (mkss (s_vals ss) (s_within ss) (s_the ss) ((e, oc) :: s_envs ss) (s_lists ss)).
Proof.
  intros cls ms ss e oc Sm Hoc.
  constructor; unfold vals_rel, dead_zero; cbn [m_counters m_thes m_envs m_ldepth s_vals s_within s_the s_envs s_lists];
    try (sim_same Sm).
  - eapply fmts_rel_ext; [| | |apply (sim_fmts _ _ _ Sm)]; reflexivity.
  - rewrite (sim_envs _ _ _ Sm). reflexivity.
  - intros e' c [H|H]; [injection H as <- ->; apply Hoc; reflexivity | apply (sim_envs_dom _ _ _ Sm e' c H)].
Qed.

(* ---------------------------------------------------------------------------------------------- *)
(** * Events *)

Lemma opt_str_eqb_refl : forall a, opt_str_eqb a a = true.
Proof. intros [s|]; [apply str_eqb_eq; reflexivity | reflexivity]. Qed.

Lemma outs_agree_refl : forall l, (forall k r, In (k, r) l -> k <> k_bullet) -> outs_agree l l = true.
Proof.
  induction l as [|[k r] l IH]; intro H; [reflexivity|]. cbn [outs_agree].
  assert (k <> k_bullet) by (eapply H; left; reflexivity). destruct (k =? k_bullet) eqn:E; [apply Z.eqb_eq in E; contradiction|].
  rewrite Z.eqb_refl, opt_str_eqb_refl. cbn [andb]. apply IH. intros k' r' Hin. eapply H. right. exact Hin.
Qed.

Lemma outs_agree_app : forall a a' b b', outs_agree a a' = true -> outs_agree b b' = true -> outs_agree (a ++ b) (a' ++ b') = true.
Proof.
  induction a as [|[k r] a IH]; intros [|[k' r'] a'] b b' Ha Hb; cbn [outs_agree app] in *; try discriminate; [exact Hb|].
  apply andb_true_iff in Ha. destruct Ha as [H1 H2]. rewrite H1. cbn [andb]. apply IH; assumption.
Qed.

Definition dmin (cls : Z) : Z := if cls =? 0 then 0 else -1.

Lemma numbered_le100 : forall depth l, l <= 100 -> numbered depth l = negb (depth <? l).
Proof.
  intros depth l H. unfold numbered. change gen_endsections_level with 100.
  destruct (l >? 100) eqn:E; [apply Z.gtb_lt in E; lia|]. rewrite orb_false_r.
  rewrite Z.geb_leb. destruct (l <=? depth) eqn:E1; destruct (depth <? l) eqn:E2; try reflexivity;
    [apply Z.leb_le in E1; apply Z.ltb_lt in E2; lia | apply Z.leb_gt in E1; apply Z.ltb_ge in E2; lia].
Qed.

Lemma numbered_high : forall depth l, 100 < l -> numbered depth l = true.
Proof.
  intros depth l H. unfold numbered. change gen_endsections_level with 100.
  assert (E : l >? 100 = true) by (apply Z.gtb_lt; lia). rewrite E. apply orb_true_r.
Qed.

Lemma sec_table_agree : forall cls macro level c, (cls = 0 \/ cls = 1) ->
  lookup_name macro (spec_sec_table cls) = Some (level, c) ->
  exists level', lookup_name macro gen_sec_table = Some (level', c) /\
    (forall depth, dmin cls <= depth -> numbered depth level' = negb (depth <? level)) /\
    In c (base_names cls) /\ is_enum c = false.
Proof.
  intros cls macro level c Hc H.
  destruct Hc as [-> | ->]; unfold spec_sec_table in H; cbn [Z.eqb app lookup_name] in H;
    repeat match type of H with
    | (if name_eqb macro ?k then _ else _) = _ =>
        let E := fresh "E" in destruct (name_eqb macro k) eqn:E;
        [apply name_eqb_eq in E; subst macro; injection H as <- <- | ]
    end; try discriminate;
    (eexists; split; [vm_compute; reflexivity|]; split;
      [intros depth Hd; unfold dmin in Hd; cbn [Z.eqb] in Hd |
       split; [vm_compute; repeat (try (left; reflexivity); right) | vm_compute; reflexivity]]);
    try (apply numbered_le100; lia).
  (* \part in article: level -1 in plasTeX, 0 in article.cls; no difference for a depth >= 0 *)
  rewrite numbered_le100 by lia. destruct (depth <? -1) eqn:E1; destruct (depth <? 0) eqn:E2; try reflexivity;
    [apply Z.ltb_lt in E1; lia | apply Z.ltb_lt in E2; lia].
Qed.

Lemma macro_number_skip_star : forall depth c level ms, macro_number depth (Some c) level true ms = Ok (ms, None).
Proof. reflexivity. Qed.

Lemma macro_number_skip_deep : forall depth c level ms, numbered depth level = false ->
  macro_number depth (Some c) level false ms = Ok (ms, None).
Proof. intros depth c level ms H. unfold macro_number. destruct c; [reflexivity|]. rewrite H. reflexivity. Qed.

Lemma macro_number_none : forall depth level ms, macro_number depth None level false ms = Ok (ms, None).
Proof. reflexivity. Qed.

Definition event_sim (cls depth : Z) (e : event) : Prop :=
  forall ms ss ss1 o, sim cls ms ss -> spec_event true cls depth e ss = Some (ss1, o) ->
    exists ms1 mo, run_event cls depth e ms = Ok (ms1, mo) /\ outs_agree o mo = true /\ sim cls ms1 ss1.

Section Events.
  Context (cls depth : Z).
  Context (Hcls : cls = 0 \/ cls = 1).
  Context (Hdepth : dmin cls <= depth).

  Lemma obj_event : forall kind level ms ss c ss1 o,
    sim cls ms ss -> is_enum c = false -> numbered depth level = true ->
    spec_obj true kind c ss = Some (ss1, o) -> kind <> k_bullet ->
    exists ms1 r, macro_number depth (Some c) level false ms = Ok (ms1, r) /\ outs_agree o [(kind, r)] = true /\ sim cls ms1 ss1.
  Proof.
    intros kind level ms ss c ss1 o Sm He Hn Hs Hk.
    destruct (obj_sim _ _ _ _ _ _ _ _ _ Sm He Hn Hs) as (ms1 & t & E & -> & Sm1).
    exists ms1, (Some t). split; [exact E|]. split; [|exact Sm1].
    apply outs_agree_refl. intros k r [H|[]]. injection H as <- <-. exact Hk.
  Qed.

  Lemma sec_sim : forall macro starred, event_sim cls depth (ESec macro starred).
  Proof.
    intros macro starred ms ss ss1 o Sm Hs. cbn [spec_event] in Hs.
    destruct (lookup_name macro (spec_sec_table cls)) as [[level c]|] eqn:El; [|discriminate].
    destruct (sec_table_agree _ _ _ _ Hcls El) as (level' & Eg & Hnum & Hbase & He).
    cbn [run_event]. rewrite Eg.
    destruct starred.
    - cbn [orb] in Hs. injection Hs as <- <-. rewrite macro_number_skip_star. cbn [bind].
      exists ms, [(k_sec, None)]. split; [reflexivity|]. split; [reflexivity | exact Sm].
    - cbn [orb] in Hs. destruct (depth <? level) eqn:Ed.
      + injection Hs as <- <-. rewrite macro_number_skip_deep by (rewrite Hnum by exact Hdepth; rewrite Ed; reflexivity).
        cbn [bind]. exists ms, [(k_sec, None)]. split; [reflexivity|]. split; [reflexivity | exact Sm].
      + destruct (obj_event k_sec level' ms ss c ss1 o Sm He) as (ms1 & r & E & Ho & Sm1);
          [rewrite Hnum by exact Hdepth; rewrite Ed; reflexivity | exact Hs | discriminate |].
        rewrite E. cbn [bind]. exists ms1, [(k_sec, r)]. auto.
  Qed.

  Lemma base_in : forall ms ss n, sim cls ms ss -> In n (base_names cls) -> In n (dom ss).
  Proof. intros ms ss n Sm H. apply (sim_base _ _ _ Sm). exact H. Qed.

  Lemma equation_sim : event_sim cls depth EEquation.
  Proof.
    intros ms ss ss1 o Sm Hs. cbn [spec_event] in Hs. cbn [run_event]. change gen_equation_counter with n_equation.
    destruct (obj_event k_eq gen_environment_level ms ss n_equation ss1 o Sm) as (ms1 & r & E & Ho & Sm1);
      [reflexivity | apply numbered_high; reflexivity | exact Hs | discriminate |].
    rewrite E. cbn [bind]. exists ms1, [(k_eq, r)]. auto.
  Qed.

  Lemma caption_sim : forall table, event_sim cls depth (ECaption table).
  Proof.
    intros table ms ss ss1 o Sm Hs. cbn [spec_event] in Hs. cbn [run_event].
    change gen_table_counter with n_table. change gen_figure_counter with n_figure.
    destruct (obj_event k_cap gen_command_level ms ss (if table then n_table else n_figure) ss1 o Sm) as (ms1 & r & E & Ho & Sm1);
      [destruct table; reflexivity | apply numbered_high; reflexivity | exact Hs | discriminate |].
    rewrite E. cbn [bind]. exists ms1, [(k_cap, r)]. auto.
  Qed.

  Lemma thm_sim : forall env, event_sim cls depth (EThm env).
  Proof.
    intros env ms ss ss1 o Sm Hs. cbn [spec_event] in Hs. cbn [run_event]. rewrite (sim_envs _ _ _ Sm).
    destruct (lookup_name env (s_envs ss)) as [[c|]|] eqn:El; [| |discriminate].
    - apply lookup_name_in in El. destruct (sim_envs_dom _ _ _ Sm env c El) as [Hc He].
      destruct (obj_event k_thm gen_environment_level ms ss c ss1 o Sm He) as (ms1 & r & E & Ho & Sm1);
        [apply numbered_high; reflexivity | exact Hs | discriminate |].
      rewrite E. cbn [bind]. exists ms1, [(k_thm, r)]. auto.
    - injection Hs as <- <-. rewrite macro_number_none. cbn [bind]. exists ms, [(k_thm, None)]. split; [reflexivity|]. split; [reflexivity | exact Sm].
  Qed.

  Lemma eqnarraystar_sim : event_sim cls depth EEqnarrayStar.
  Proof.
    intros ms ss ss1 o Sm Hs. cbn [spec_event] in Hs. injection Hs as <- <-. cbn [run_event].
    exists ms, []. split; [reflexivity|]. split; [reflexivity | exact Sm].
  Qed.

  Lemma with_counters_id : forall ms, with_counters ms (m_counters ms) = ms.
  Proof. intros [a b c d]. reflexivity. Qed.

  Lemma set_sim : forall c v, event_sim cls depth (ESet c v).
  Proof.
    intros c v ms ss ss1 o Sm Hs. cbn [spec_event] in Hs.
    destruct (lookup_name c (s_vals ss)) as [w|] eqn:Ec; [|discriminate].
    destruct (enum_ok c (s_lists ss) || enum_unused c (s_lists ss)) eqn:Eok; [|discriminate]. injection Hs as <- <-.
    cbn [run_event]. eexists _, []. split; [reflexivity|]. split; [reflexivity|].
    assert (Hc : In c (dom ss)) by (eapply lookup_name_dom; exact Ec).
    destruct (enum_ok c (s_lists ss)) eqn:E1; [apply assign_sim; [exact Sm | exact Hc | exact E1]|].
    cbn [orb] in Eok. apply assign_unused_sim; [exact Sm | exact Hc | exact Eok].
  Qed.

  Lemma addto_sim : forall c v, event_sim cls depth (EAddTo c v).
  Proof.
    intros c v ms ss ss1 o Sm Hs. cbn [spec_event] in Hs.
    destruct (lookup_name c (s_vals ss)) as [w|] eqn:Ec; [|discriminate].
    destruct (enum_ok c (s_lists ss) || enum_unused c (s_lists ss)) eqn:Eok; [|discriminate]. injection Hs as <- <-.
    cbn [run_event]. eexists _, []. split; [reflexivity|]. split; [reflexivity|].
    assert (Hc : In c (dom ss)) by (eapply lookup_name_dom; exact Ec).
    replace (addtocounter c v (m_counters ms)) with (setcounter c (value_of c (m_counters ms) + v) (m_counters ms))
      by (unfold addtocounter, setcounter; rewrite (ensure_in c _ (sim_dom_keys _ _ _ Sm c Hc)); reflexivity).
    destruct (enum_ok c (s_lists ss)) eqn:E1.
    - rewrite (value_agree _ _ _ _ _ Sm Ec E1). apply assign_sim; [exact Sm | exact Hc | exact E1].
    - cbn [orb] in Eok. apply assign_unused_sim; [exact Sm | exact Hc | exact Eok].
  Qed.

  Lemma stepev_sim : forall c, event_sim cls depth (EStep c).
  Proof.
    intros c ms ss ss1 o Sm Hs. cbn [spec_event] in Hs.
    destruct (lookup_name c (s_vals ss)) as [w|] eqn:Ec; [|discriminate].
    destruct (enum_index c) eqn:Ei; [discriminate|]. injection Hs as <- <-.
    destruct (step_sim _ _ _ c Sm) as (st' & E & Sm1); [eapply lookup_name_dom; exact Ec | apply enum_index_none; exact Ei |].
    cbn [run_event]. rewrite E. eexists _, []. split; [reflexivity|]. split; [reflexivity | exact Sm1].
  Qed.
End Events.

Section Events2.
  Context (cls depth : Z).
  Context (Hcls : cls = 0 \/ cls = 1).

  Lemma enum_the : forall ms ss c v, sim cls ms ss -> is_enum c = true -> lookup_name c (s_vals ss) = Some v ->
    the_in true ss c = Some (arabic v) /\ (value_of c (m_counters ms) = v -> the_of ms c = Ok (arabic v)).
  Proof.
    intros ms ss c v Sm He Hv. apply is_enum_In in He. destruct (sim_fmt_enum _ _ _ Sm c He) as [Hm Hs]. split.
    - unfold the_in. cbn [spec_the]. rewrite Hs. rewrite spec_pieces_cons. rewrite Hv. cbn [spec_repr spec_pieces]. rewrite app_nil_r. reflexivity.
    - intro Hval. unfold the_of. cbn [expand_the]. rewrite Hm. rewrite expand_own. rewrite Hval. cbn [counter_repr bind expand_pieces].
      rewrite app_nil_r. reflexivity.
  Qed.

  Lemma print_sim : forall r c, event_sim cls depth (EPrint r c).
  Proof.
    intros r c ms ss ss1 o Sm Hs. cbn [spec_event] in Hs.
    destruct (lookup_name c (s_vals ss)) as [v|] eqn:Ec; [|discriminate].
    destruct (enum_ok c (s_lists ss)) eqn:Eok; [|discriminate].
    pose proof (value_agree _ _ _ _ _ Sm Ec Eok) as Hval.
    assert (Hc : In c (dom ss)) by (eapply lookup_name_dom; exact Ec).
    destruct r as [r'|].
    - destruct (spec_repr r' v) as [t|] eqn:Er; [|discriminate]. injection Hs as <- <-.
      cbn [run_event]. rewrite (ensure_in c _ (sim_dom_keys _ _ _ Sm c Hc)). cbn [with_counters m_counters].
      rewrite Hval, (counter_repr_spec _ _ _ Er). cbn [bind]. rewrite with_counters_id.
      exists ms, [(k_print, Some t)]. split; [reflexivity|]. split; [|exact Sm].
      cbn [outs_agree]. rewrite opt_str_eqb_refl. reflexivity.
    - destruct (the_in true ss c) as [t|] eqn:Et; [|discriminate]. injection Hs as <- <-.
      cbn [run_event].
      assert (E : the_of ms c = Ok t).
      { destruct (is_enum c) eqn:He.
        - destruct (enum_the ms ss c v Sm He Ec) as [H1 H2]. rewrite H1 in Et. injection Et as <-. apply H2. exact Hval.
        - unfold the_of. unfold the_in in Et.
          apply (expand_sim _ _ (sim_fmts _ _ _ Sm) (sim_vals _ _ _ Sm) (sim_dead _ _ _ Sm) _ _ _ _ He Et).
          pose proof (sim_fuel _ _ _ Sm). lia. }
      rewrite E. cbn [bind]. exists ms, [(k_print, Some t)]. split; [reflexivity|]. split; [|exact Sm].
      cbn [outs_agree]. rewrite opt_str_eqb_refl. reflexivity.
  Qed.

  Lemma newcounter_fresh : forall nm rb f trim ms, ~ In nm (keys (m_counters ms)) ->
    newcounter nm rb f trim ms = mkms (m_counters ms ++ [(nm, mkc rb 0)]) ((nm, (f, trim)) :: m_thes ms) (m_envs ms) (m_ldepth ms).
  Proof.
    intros nm rb f trim ms H. unfold newcounter.
    destruct (existsb (fun p => name_eqb nm (fst p)) (m_counters ms)) eqn:E; [|reflexivity].
    exfalso. apply existsb_exists in E. destruct E as ([m c] & Hin & Heq). cbn [fst] in Heq. apply name_eqb_eq in Heq. subst m.
    apply H. change nm with (fst (nm, c)). apply in_map. exact Hin.
  Qed.

  (* a fresh counter with its \the, on both sides *)
  Lemma declare_sim : forall ms ss nm ow sf mf,
    sim cls ms ss -> fresh_name nm ss = true ->
    (forall w, ow = Some w -> In w (dom ss) /\ w <> [] /\ is_enum w = false) ->
    (forall ms' ss', fmt_rel ms' ss' nm sf mf false) ->
    newcounter nm ow mf false ms = mkms (m_counters ms ++ [(nm, mkc ow 0)]) ((nm, (mf, false)) :: m_thes ms) (m_envs ms) (m_ldepth ms) /\
    sim cls (mkms (m_counters ms ++ [(nm, mkc ow 0)]) ((nm, (mf, false)) :: m_thes ms) (m_envs ms) (m_ldepth ms))
            (mkss (s_vals ss ++ [(nm, 0)]) (match ow with Some w => (nm, w) :: s_within ss | None => s_within ss end)
                  ((nm, sf) :: s_the ss) (s_envs ss) (s_lists ss)) /\
    In nm (dom ss ++ [nm]) /\ is_enum nm = false.
  Proof.
    intros ms ss nm ow sf mf Sm Hf Hw FR.
    destruct (fresh_name_spec _ _ Hf) as (H1 & H2 & H3 & H4).
    assert (Hkeys : ~ In nm (keys (m_counters ms))) by (intro H; destruct (sim_keys_res _ _ _ Sm nm H); contradiction).
    assert (Enm : is_enum nm = false) by (apply mem_false; intro H; apply H2; apply reserved_enum; exact H).
    split; [apply newcounter_fresh; exact Hkeys|]. split; [|split; [apply in_app_iff; right; left; reflexivity | exact Enm]].
    pose proof (add_counter_sim cls ms ss nm ow Sm H1 H2 H3 Hw) as Sm1.
    apply (fmt_update_sim cls _ _ nm sf mf false Sm1); [unfold dom; cbn [s_vals]; rewrite map_app; apply in_app_iff; right; left; reflexivity | exact Enm | exact FR |].
    left. cbn [s_the]. apply lookup_name_none. intro H. apply H3. apply (sim_the_dom _ _ _ Sm). exact H.
  Qed.

  Lemma letters_word_name : forall nm, nm <> [] -> forallb is_letter nm = true -> word_name nm.
  Proof.
    intros nm Hne H. split; [exact Hne|]. rewrite forallb_forall in *. intros c Hc. specialize (H c Hc).
    unfold is_letter in H. unfold is_word. apply orb_true_iff in H. destruct H as [H|H]; rewrite H; rewrite ?orb_true_r; reflexivity.
  Qed.

  Lemma fresh_word_name : forall nm ss, fresh_name nm ss = true -> word_name nm.
  Proof.
    intros nm ss H. unfold fresh_name in H. repeat (apply andb_true_iff in H; destruct H as [H ?]).
    apply letters_word_name; [destruct nm; [discriminate | discriminate] | assumption].
  Qed.

  Lemma newcounter_sim : forall nm within, event_sim cls depth (ENewCounter nm within).
  Proof.
    intros nm within ms ss ss1 o Sm Hs. cbn [spec_event] in Hs.
    destruct (fresh_name nm ss) eqn:Hf; [|discriminate]. cbn [negb] in Hs.
    cbn [run_event]. unfold default_fmt. rewrite (default_format_parse nm (fresh_word_name _ _ Hf)).
    destruct within as [w|].
    - destruct (mem w (map fst (s_vals ss)) && negb (is_nil w) && negb (mem w enum_names)) eqn:Hc; [|discriminate].
      injection Hs as <- <-. apply andb_true_iff in Hc. destruct Hc as [Hc H3]. apply andb_true_iff in Hc. destruct Hc as [H1 H2].
      destruct (declare_sim ms ss nm (Some w) [SNum RArabic nm] [PRef nm None] Sm Hf) as (E & Sm1 & _).
      { intros w' Hw'. injection Hw' as <-. split; [apply mem_In; exact H1|]. split; [destruct w; [discriminate | discriminate] | apply negb_true_iff; exact H3]. }
      { intros. constructor. }
      rewrite E. eexists _, []. split; [reflexivity|]. split; [reflexivity | exact Sm1].
    - injection Hs as <- <-.
      destruct (declare_sim ms ss nm None [SNum RArabic nm] [PRef nm None] Sm Hf) as (E & Sm1 & _); [intros w' Hw'; discriminate | intros; constructor |].
      rewrite E. eexists _, []. split; [reflexivity|]. split; [reflexivity | exact Sm1].
  Qed.

  Lemma newtheorem_sim : forall nm shared within starred, event_sim cls depth (ENewTheorem nm shared within starred).
  Proof.
    intros nm shared within starred ms ss ss1 o Sm Hs. cbn [spec_event] in Hs.
    destruct (fresh_name nm ss) eqn:Hf; [|discriminate]. cbn [negb] in Hs.
    cbn [run_event].
    destruct shared as [c|]; destruct within as [w|]; destruct starred; try discriminate.
    - (* shared counter *)
      destruct (mem c (map fst (s_vals ss)) && negb (is_nil c) && negb (mem c enum_names)) eqn:Hc; [|discriminate].
      injection Hs as <- <-. apply andb_true_iff in Hc. destruct Hc as [Hc H3]. apply andb_true_iff in Hc. destruct Hc as [H1 H2].
      destruct c as [|ch ct]; [discriminate|]. cbn [truthy].
      eexists _, []. split; [reflexivity|]. split; [reflexivity|].
      apply envs_update_sim; [exact Sm|]. intros c' Hc'. injection Hc' as <-. split; [apply mem_In; exact H1 | apply negb_true_iff; exact H3].
    - (* numbered within w *)
      destruct (mem w (map fst (s_vals ss)) && negb (is_nil w) && forallb is_letter w && negb (mem w enum_names) && negb (name_eqb nm (the_str ++ w))) eqn:Hc; [|discriminate].
      injection Hs as <- <-. apply andb_true_iff in Hc. destruct Hc as [Hc H4]. apply andb_true_iff in Hc. destruct Hc as [Hc H3].
      apply andb_true_iff in Hc. destruct Hc as [Hc H5]. apply andb_true_iff in Hc. destruct Hc as [H1 H2].
      destruct w as [|wh wt]; [discriminate|]. cbn [truthy].
      apply negb_true_iff in H4. apply name_eqb_neq in H4. apply negb_true_iff in H3.
      destruct (declare_sim ms ss nm (Some (wh :: wt)) (chain (wh :: wt) nm) (mchain (wh :: wt) nm) Sm Hf) as (E & Sm1 & Hd & He).
      { intros w' Hw'. injection Hw' as <-. split; [apply mem_In; exact H1|]. split; [discriminate | exact H3]. }
      { intros. constructor; [exact H4 | exact H3]. }
      assert (Hww : word_name (wh :: wt)) by (apply letters_word_name; [discriminate | exact H5]).
      rewrite (theorem_format_parse (wh :: wt) nm Hww (fresh_word_name _ _ Hf)).
      match goal with |- context [newcounter nm ?a ?f false ms] =>
        change (newcounter nm a f false ms) with (newcounter nm (Some (wh :: wt)) (mchain (wh :: wt) nm) false ms) end.
      rewrite E.
      eexists _, []. split; [reflexivity|]. split; [reflexivity|].
      apply (envs_update_sim cls _ _ nm (Some nm) Sm1). intros c' Hc'. injection Hc' as <-. split; [|exact He].
      unfold dom. cbn [s_vals]. rewrite map_app. exact Hd.
    - (* unnumbered *)
      injection Hs as <- <-. cbn [truthy]. eexists _, []. split; [reflexivity|]. split; [reflexivity|].
      apply envs_update_sim; [exact Sm|]. intros c' Hc'. discriminate.
    - (* own counter *)
      injection Hs as <- <-. cbn [truthy].
      destruct (declare_sim ms ss nm None [SNum RArabic nm] [PRef nm None] Sm Hf) as (E & Sm1 & Hd & He); [intros w' Hw'; discriminate | intros; constructor |].
      unfold default_fmt. rewrite (default_format_parse nm (fresh_word_name _ _ Hf)). rewrite E.
      eexists _, []. split; [reflexivity|]. split; [reflexivity|].
      apply (envs_update_sim cls _ _ nm (Some nm) Sm1). intros c' Hc'. injection Hc' as <-. split; [|exact He].
      unfold dom. cbn [s_vals]. rewrite map_app. exact Hd.
  Qed.
End Events2.

(* ---------------------------------------------------------------------------------------------- *)
(** * \appendix and lists *)

Lemma enum_ok_nonenum : forall c stack, is_enum c = false -> enum_ok c stack = true.
Proof.
  intros c stack H. unfold enum_ok. destruct (enum_index c) as [k|] eqn:E; [|reflexivity].
  destruct (enum_index_some _ _ E) as [Hk ->]. rewrite enum_nth_enum in H by exact Hk. discriminate.
Qed.

(* the general form of [sim_change_values]: values, list depth and list stack change, declarations do not *)
Lemma sim_change_lists : forall cls ms ss mc' vals' stack',
  sim cls ms ss -> shape mc' = shape (m_counters ms) -> map fst vals' = map fst (s_vals ss) ->
  (forall n v, lookup_name n vals' = Some v -> is_enum n = false -> value_of n mc' = v) ->
  (forall p, ~ In p (dom ss) -> value_of p mc' = 0) ->
  (length stack' <= 4)%nat ->
  lists_rel mc' vals' stack' ->
  sim cls (mkms mc' (m_thes ms) (m_envs ms) (Z.of_nat (length stack')))
          (mkss vals' (s_within ss) (s_the ss) (s_envs ss) stack').
Proof.
  intros cls ms ss mc' vals' stack' Sm Sh Dm HV HD H4 HL.
  assert (K : keys mc' = keys (m_counters ms)) by (apply keys_shape; exact Sh).
  assert (P : forall n, parent mc' n = parent (m_counters ms) n) by (intro; apply parent_shape; exact Sh).
  assert (Dm' : forall st, dom (mkss vals' (s_within ss) (s_the ss) (s_envs ss) st) = dom ss) by (intro; exact Dm).
  constructor; unfold vals_rel, dead_zero;
    cbn [m_counters m_thes m_envs m_ldepth s_vals s_within s_the s_envs s_lists]; rewrite ?Dm'; try (sim_same Sm).
  - rewrite K. apply (sim_nodup _ _ _ Sm).
  - eapply acyclic_shape; [|apply (sim_acyc _ _ _ Sm)]. intro n. symmetry. apply P.
  - intros n Hn. rewrite K. apply (sim_dom_keys _ _ _ Sm). exact Hn.
  - intros n Hn. rewrite K in Hn. apply (sim_keys_res _ _ _ Sm). exact Hn.
  - intros n p Hp. rewrite P in Hp. rewrite K. apply (sim_par_res _ _ _ Sm n p Hp).
  - intros n c' H1 H2 H3 H5. rewrite <- (sim_desc _ _ _ Sm n c' H1 H2 H3 H5).
    split; intro H; (eapply desc_ext; [|exact H]); intro m; [apply P | symmetry; apply P].
  - rewrite !P. apply (sim_enum_chain _ _ _ Sm).
  - intros n p Hp. rewrite P in Hp. apply (sim_enum_closed _ _ _ Sm n p Hp).
  - eapply fmts_rel_ext; [| | |apply (sim_fmts _ _ _ Sm)]; [reflexivity | reflexivity | apply Dm'].
  - intros k Hk. rewrite K. apply (sim_thes_keys _ _ _ Sm). exact Hk.
  - exact HV.
  - exact HD.
  - reflexivity.
  - exact H4.
  - exact HL.
Qed.

Section Events3.
  Context (cls depth : Z).
  Context (Hcls : cls = 0 \/ cls = 1).

  Lemma appendix_sim : event_sim cls depth EAppendix.
  Proof.
    intros ms ss ss1 o Sm Hs. cbn [spec_event] in Hs. cbn [run_event].
    assert (G : forall a b, In a (base_names cls) -> In b (base_names cls) -> is_enum a = false -> is_enum b = false ->
      sim cls (mkms (fold_left (fun st z => setcounter z 0 st) [a; b] (m_counters ms)) ((a, ([PRef a (Some RAlph)], false)) :: m_thes ms) (m_envs ms) (m_ldepth ms))
              (mkss (fold_left (fun vals z => spec_set z 0 vals) [a; b] (s_vals ss)) (s_within ss) ((a, [SNum RAlph a]) :: s_the ss) (s_envs ss) (s_lists ss))).
    { intros a b Ha Hb Ea Eb. cbn [fold_left].
      pose proof (assign_sim cls ms ss a 0 Sm (sim_base _ _ _ Sm a Ha) (enum_ok_nonenum _ _ Ea)) as S1.
      assert (Hb' : In b (dom (with_vals ss (spec_set a 0 (s_vals ss))))).
      { unfold dom. cbn [with_vals s_vals]. rewrite spec_set_dom. apply (sim_base _ _ _ Sm b Hb). }
      pose proof (assign_sim cls _ _ b 0 S1 Hb' (enum_ok_nonenum _ _ Eb)) as S2.
      assert (Ha' : In a (dom (with_vals (with_vals ss (spec_set a 0 (s_vals ss))) (spec_set b 0 (spec_set a 0 (s_vals ss)))))).
      { unfold dom. cbn [with_vals s_vals]. rewrite !spec_set_dom. apply (sim_base _ _ _ Sm a Ha). }
      apply (fmt_update_sim cls _ _ a [SNum RAlph a] [PRef a (Some RAlph)] false S2 Ha' Ea); [intros; constructor | right; left; reflexivity]. }
    destruct Hcls as [-> | ->]; cbn [Z.eqb] in Hs; injection Hs as <- <-; unfold appendix_of; cbn [Z.eqb].
    - change gen_appendix_article with (mkapp [n_section; n_subsection] n_section [PRef n_section (Some RAlph)] false).
      cbn [app_zero app_key app_fmt app_trim]. eexists _, []. split; [reflexivity|]. split; [reflexivity|].
      apply G; vm_compute; try reflexivity; repeat (try (left; reflexivity); right).
    - change gen_appendix_book with (mkapp [n_chapter; n_section] n_chapter [PRef n_chapter (Some RAlph)] false).
      cbn [app_zero app_key app_fmt app_trim]. eexists _, []. split; [reflexivity|]. split; [reflexivity|].
      apply G; vm_compute; try reflexivity; repeat (try (left; reflexivity); right).
  Qed.

  (** ** lists *)

  Lemma list_reset_unfold : forall k st, (k <= 4)%nat ->
    list_reset (Z.of_nat k) st = fold_left (fun s c => setcounter c 0 s) (skipn k enum_names) st.
  Proof.
    intros k st Hk. change gen_list_counters with enum_names in *. unfold list_reset. change gen_list_counters with enum_names.
    destruct k as [|[|[|[|[|k]]]]]; try lia; reflexivity.
  Qed.

  Lemma reset_list_effect : forall l st, (forall n, In n l -> In n (keys st)) ->
    shape (fold_left (fun s c => setcounter c 0 s) l st) = shape st /\
    (forall n, In n l -> value_of n (fold_left (fun s c => setcounter c 0 s) l st) = 0) /\
    (forall n, ~ In n l -> value_of n (fold_left (fun s c => setcounter c 0 s) l st) = value_of n st).
  Proof.
    induction l as [|c l IH]; intros st Hk; cbn [fold_left]; [split; [reflexivity|]; split; [intros n []|reflexivity]|].
    destruct (setcounter_spec st c 0) as (Sh & Vc & Vo). rewrite (ensure_in c st) in Sh by (apply Hk; left; reflexivity).
    destruct (IH (setcounter c 0 st)) as (Sh' & Z' & U').
    { intros n Hn. rewrite (keys_shape _ _ Sh). apply Hk. right. exact Hn. }
    split; [rewrite Sh'; exact Sh|]. split.
    - intros n [<-|Hn]; [|apply Z'; exact Hn]. destruct (in_dec name_eq_dec c l) as [Hin|Hnin]; [apply Z'; exact Hin | rewrite U' by exact Hnin; exact Vc].
    - intros n Hn. rewrite U' by (intro; apply Hn; right; assumption). apply Vo. intro; subst; apply Hn; left; reflexivity.
  Qed.

  Lemma enum_skipn_in : forall k j, (k < j <= 4)%nat -> In (enum_nth j) (skipn k enum_names).
  Proof.
    intros k j H. unfold enum_nth.
    destruct k as [|[|[|[|k]]]]; destruct j as [|[|[|[|[|j]]]]]; try lia; cbn; auto 6.
  Qed.

  Lemma enum_skipn_notin : forall k j, (1 <= j <= k)%nat -> (k <= 4)%nat -> ~ In (enum_nth j) (skipn k enum_names).
  Proof.
    intros k j H H4 Hin.
    assert (exists i, (k < i <= 4)%nat /\ enum_nth j = enum_nth i).
    { destruct k as [|[|[|[|[|k]]]]]; try lia; cbn [skipn enum_names] in Hin;
        repeat (destruct Hin as [Hin|Hin]; [first [exists 1%nat; split; [lia | symmetry; exact Hin] | exists 2%nat; split; [lia | symmetry; exact Hin]
                                                   | exists 3%nat; split; [lia | symmetry; exact Hin] | exists 4%nat; split; [lia | symmetry; exact Hin]] |]);
        contradiction. }
    destruct H0 as (i & Hi & E). apply enum_nth_inj in E; lia.
  Qed.

  Lemma skipn_enum_sub : forall k n, In n (skipn k enum_names) -> In n enum_names.
  Proof. intros k n H. rewrite <- (firstn_skipn k enum_names). apply in_or_app. right. exact H. Qed.

  Lemma nth_error_enum : forall e, (1 <= e <= 4)%nat -> nth_error enum_names (e - 1) = Some (enum_nth e).
  Proof. intros e H. destruct e as [|[|[|[|[|e]]]]]; try lia; reflexivity. Qed.

  (* what a reset of the list counters from level k+1 on does to a related pair of states *)
  Lemma list_reset_facts : forall ms ss k, sim cls ms ss -> (k <= 4)%nat ->
    let mc' := list_reset (Z.of_nat k) (m_counters ms) in
    shape mc' = shape (m_counters ms) /\
    (forall j, (k < j <= 4)%nat -> value_of (enum_nth j) mc' = 0) /\
    (forall j, (1 <= j <= k)%nat -> value_of (enum_nth j) mc' = value_of (enum_nth j) (m_counters ms)) /\
    (forall n, is_enum n = false -> value_of n mc' = value_of n (m_counters ms)).
  Proof.
    intros ms ss k Sm Hk mc'. unfold mc'. rewrite list_reset_unfold by exact Hk.
    destruct (reset_list_effect (skipn k enum_names) (m_counters ms)) as (Sh & Z' & U').
    { intros n Hn. apply (sim_dom_keys _ _ _ Sm). apply (sim_enum_dom _ _ _ Sm). eapply skipn_enum_sub. exact Hn. }
    split; [exact Sh|]. split; [|split].
    - intros j Hj. apply Z'. apply enum_skipn_in. exact Hj.
    - intros j Hj. apply U'. apply enum_skipn_notin; [exact Hj | exact Hk].
    - intros n Hn. apply U'. intro Hin. apply skipn_enum_sub in Hin. apply is_enum_In in Hin. congruence.
  Qed.

  Lemma begin_sim : forall b, event_sim cls depth (EBeginList b).
  Proof.
    intros b ms ss ss1 o Sm Hs. cbn [spec_event] in Hs.
    destruct (Nat.leb (length (b :: s_lists ss)) 4 && Nat.leb (count_true (b :: s_lists ss)) 4
              && Nat.leb (length (b :: s_lists ss) - count_true (b :: s_lists ss)) 4) eqn:Hc; [|discriminate].
    apply andb_true_iff in Hc. destruct Hc as [Hc _]. apply andb_true_iff in Hc. destruct Hc as [H4 _]. apply Nat.leb_le in H4.
    injection Hs as <- <-. cbn [run_event]. rewrite (sim_depth _ _ _ Sm).
    set (L := length (s_lists ss)) in *. cbn [length] in H4. fold L in H4.
    replace (Z.of_nat L + 1 - 1) with (Z.of_nat L) by lia.
    destruct (list_reset_facts ms ss L Sm) as (Sh & Z' & U' & N'); [lia|].
    replace (Z.of_nat L + 1) with (Z.of_nat (length (b :: s_lists ss))) by (cbn [length]; fold L; lia).
    eexists _, []. split; [reflexivity|]. split; [reflexivity|].
    set (e' := count_true (b :: s_lists ss)).
    assert (He' : (e' <= 4)%nat) by (pose proof (count_true_le (b :: s_lists ss)); cbn [length] in *; unfold e'; fold L in H; lia).
    apply sim_change_lists; try exact Sm; try exact Sh.
    - destruct b; [|reflexivity]. destruct (nth_error enum_names (e' - 1)); [apply spec_set_dom | reflexivity].
    - intros n v Hv Hn. rewrite N' by exact Hn. apply (sim_vals _ _ _ Sm n v); [|exact Hn].
      destruct b; [|exact Hv]. destruct (nth_error enum_names (e' - 1)) as [c|] eqn:En; [|exact Hv].
      rewrite spec_set_other in Hv; [exact Hv|]. intro X. subst c. apply nth_error_In in En. apply is_enum_In in En. congruence.
    - intros p Hp. rewrite N'; [apply (sim_dead _ _ _ Sm p Hp)|]. apply mem_false. intro H. apply Hp. apply (sim_enum_dom _ _ _ Sm). exact H.
    - cbn [length]. fold L. lia.
    - cbn [lists_rel]. split.
      + intros ->. cbn [length]. fold L. rewrite Z' by lia.
        assert (He1 : (1 <= e')%nat) by (unfold e', count_true; cbn [filter length]; lia).
        rewrite (nth_error_enum e') by lia. unfold sval. rewrite spec_set_same; [reflexivity|].
        apply (sim_enum_dom _ _ _ Sm). apply enum_nth_In. lia.
      + eapply lists_rel_ext; [| |apply (sim_lists _ _ _ Sm)].
        * intros j Hj. apply U'. fold L in Hj. lia.
        * intros j Hj. destruct b; [|reflexivity].
          assert (He1 : e' = Datatypes.S (count_true (s_lists ss))) by (unfold e', count_true; cbn [filter length]; reflexivity).
          rewrite (nth_error_enum e') by lia. unfold sval. rewrite spec_set_other; [reflexivity|].
          intro X. apply enum_nth_inj in X; lia.
  Qed.

  Lemma end_sim : event_sim cls depth EEndList.
  Proof.
    intros ms ss ss1 o Sm Hs. cbn [spec_event] in Hs.
    destruct (s_lists ss) as [|b rest] eqn:El; [discriminate|]. injection Hs as <- <-.
    cbn [run_event]. rewrite (sim_depth _ _ _ Sm), El. cbn [length].
    replace (Z.of_nat (Datatypes.S (length rest)) - 1) with (Z.of_nat (length rest)) by lia.
    pose proof (sim_depth4 _ _ _ Sm) as H4. rewrite El in H4. cbn [length] in H4.
    destruct (list_reset_facts ms ss (length rest) Sm) as (Sh & Z' & U' & N'); [lia|].
    eexists _, []. split; [reflexivity|]. split; [reflexivity|].
    apply sim_change_lists; try exact Sm; try exact Sh.
    - reflexivity.
    - intros n v Hv Hn. rewrite N' by exact Hn. apply (sim_vals _ _ _ Sm n v Hv Hn).
    - intros p Hp. rewrite N'; [apply (sim_dead _ _ _ Sm p Hp)|]. apply mem_false. intro H. apply Hp. apply (sim_enum_dom _ _ _ Sm). exact H.
    - lia.
    - pose proof (sim_lists _ _ _ Sm) as HL. rewrite El in HL. cbn [lists_rel] in HL. destruct HL as [_ HL].
      eapply lists_rel_ext; [| |exact HL].
      + intros j Hj. apply U'. exact Hj.
      + reflexivity.
  Qed.
End Events3.

Section Events4.
  Context (cls depth : Z).

  Lemma desc_enum_closed : forall ms ss n c, sim cls ms ss -> desc (parent (m_counters ms)) n c -> is_enum c = true -> is_enum n = true.
  Proof.
    intros ms ss n c Sm H. induction H as [m x P|m p x P _ IH]; intro Hc.
    - apply (sim_enum_closed _ _ _ Sm m x P Hc).
    - apply (sim_enum_closed _ _ _ Sm m p P). apply IH. exact Hc.
  Qed.

  Lemma enum_anc_lt : forall ms ss j x, sim cls ms ss -> (1 <= j <= 4)%nat ->
    desc (parent (m_counters ms)) (enum_nth j) x -> exists i, (1 <= i < j)%nat /\ x = enum_nth i.
  Proof.
    intros ms ss j x Sm Hj Hd. destruct (sim_enum_chain _ _ _ Sm) as (P1 & P2 & P3 & P4).
    assert (A1 : forall y, ~ desc (parent (m_counters ms)) n_enumi y).
    { intros y H. apply desc_inv in H. destruct H as [H|(p & H & _)]; rewrite P1 in H; discriminate. }
    assert (A2 : forall y, desc (parent (m_counters ms)) n_enumii y -> y = n_enumi).
    { intros y H. apply desc_inv in H. destruct H as [H|(p & H & H')]; rewrite P2 in H; injection H as <-; [reflexivity | exfalso; exact (A1 _ H')]. }
    assert (A3 : forall y, desc (parent (m_counters ms)) n_enumiii y -> y = n_enumii \/ y = n_enumi).
    { intros y H. apply desc_inv in H. destruct H as [H|(p & H & H')]; rewrite P3 in H; injection H as <-; [left; reflexivity | right; exact (A2 _ H')]. }
    assert (A4 : forall y, desc (parent (m_counters ms)) n_enumiv y -> y = n_enumiii \/ y = n_enumii \/ y = n_enumi).
    { intros y H. apply desc_inv in H. destruct H as [H|(p & H & H')]; rewrite P4 in H; injection H as <-; [left; reflexivity | right; exact (A3 _ H')]. }
    destruct j as [|[|[|[|[|j]]]]]; try lia.
    - exfalso. exact (A1 _ Hd).
    - exists 1%nat. split; [lia | exact (A2 _ Hd)].
    - destruct (A3 _ Hd) as [-> | ->]; [exists 2%nat | exists 1%nat]; split; try lia; reflexivity.
    - destruct (A4 _ Hd) as [-> | [-> | ->]]; [exists 3%nat | exists 2%nat | exists 1%nat]; split; try lia; reflexivity.
  Qed.

  (* stepping the counter of the current list level in plasTeX: only list counters of deeper levels are disturbed *)
  Lemma enum_step : forall ms ss L, sim cls ms ss -> (1 <= L <= 4)%nat ->
    exists st', stepcounter (enum_nth L) (m_counters ms) = Some st' /\ shape st' = shape (m_counters ms) /\
      value_of (enum_nth L) st' = value_of (enum_nth L) (m_counters ms) + 1 /\
      (forall n, is_enum n = false -> value_of n st' = 0 \/ value_of n st' = value_of n (m_counters ms)) /\
      (forall n, is_enum n = false -> In n (dom ss) -> value_of n st' = value_of n (m_counters ms)) /\
      (forall j, (1 <= j < L)%nat -> value_of (enum_nth j) st' = value_of (enum_nth j) (m_counters ms)).
  Proof.
    intros ms ss L Sm HL.
    destruct (step_resets_transitively (m_counters ms) (enum_nth L) (sim_nodup _ _ _ Sm) (sim_acyc _ _ _ Sm)) as (st' & E & Sh & Vc & D & U & Z).
    assert (Hk : In (enum_nth L) (keys (m_counters ms))).
    { apply (sim_dom_keys _ _ _ Sm). apply (sim_enum_dom _ _ _ Sm). apply enum_nth_In. exact HL. }
    rewrite (ensure_in _ _ Hk) in Sh.
    exists st'. split; [exact E|]. split; [exact Sh|]. split; [exact Vc|]. split; [|split].
    - intros n Hn. apply Z. intro X. subst n. rewrite enum_nth_enum in Hn by exact HL. discriminate.
    - intros n Hn _. apply U.
      + intro X. subst n. rewrite enum_nth_enum in Hn by exact HL. discriminate.
      + intro Hd. pose proof (desc_enum_closed _ _ _ _ Sm Hd (enum_nth_enum L HL)). congruence.
    - intros j Hj. apply U.
      + intro X. apply enum_nth_inj in X; lia.
      + intro Hd. destruct (enum_anc_lt ms ss j (enum_nth L) Sm) as (i & Hi & X); [lia | exact Hd|]. apply enum_nth_inj in X; lia.
  Qed.

  Lemma desc_target_parent : forall W n c, desc (spar W) n c -> exists d, In (d, c) W.
  Proof.
    intros W n c H. induction H as [m x P|m p x P _ IH]; [|exact IH]. exists m. apply lookup_name_in. exact P.
  Qed.

  Lemma spec_step_enum : forall ms ss c n, sim cls ms ss -> is_enum c = true ->
    lookup_name n (spec_step c (s_within ss) (s_vals ss)) =
    match lookup_name n (s_vals ss) with Some v => Some (if name_eqb n c then v + 1 else v) | None => None end.
  Proof.
    intros ms ss c n Sm Hc. rewrite spec_step_lookup. destruct (lookup_name n (s_vals ss)) as [v|]; [|reflexivity].
    destruct (name_eqb n c); [reflexivity|].
    destruct (is_within (Datatypes.S (length (s_within ss))) (s_within ss) n c) eqn:E; [|reflexivity].
    exfalso. apply is_within_sound in E. apply desc_target_parent in E. destruct E as (d & Hin).
    destruct (sim_w _ _ _ Sm d c Hin) as (_ & _ & _ & H). congruence.
  Qed.

  Lemma py_index_enum : forall L, (1 <= L <= 4)%nat -> py_index gen_list_counters (Z.of_nat L - 1) = Some (enum_nth L).
  Proof. intros L H. change gen_list_counters with enum_names. destruct L as [|[|[|[|[|L]]]]]; try lia; reflexivity. Qed.

  Lemma enum_nth_nonnil : forall L, (1 <= L <= 4)%nat -> exists ch ct, enum_nth L = ch :: ct.
  Proof. intros L H. destruct L as [|[|[|[|[|L]]]]]; try lia; vm_compute; do 2 eexists; reflexivity. Qed.

  Lemma model_enum_the : forall ms ss L, sim cls ms ss -> (1 <= L <= 4)%nat ->
    the_of ms (enum_nth L) = Ok (arabic (value_of (enum_nth L) (m_counters ms))).
  Proof.
    intros ms ss L Sm HL. destruct (sim_fmt_enum _ _ _ Sm (enum_nth L) (enum_nth_In L HL)) as [Hm _].
    unfold the_of. cbn [expand_the]. rewrite Hm, expand_own. cbn [counter_repr bind expand_pieces]. rewrite app_nil_r. reflexivity.
  Qed.

  Lemma count_true_pos : forall rest, (1 <= count_true (true :: rest))%nat.
  Proof. intro rest. unfold count_true. cbn [filter length]. lia. Qed.

  Lemma item_sim : event_sim cls depth EItem.
  Proof.
    intros ms ss ss1 o Sm Hs. cbn [spec_event] in Hs.
    destruct (s_lists ss) as [|b rest] eqn:El; [discriminate|].
    pose proof (sim_depth4 _ _ _ Sm) as H4. rewrite El in H4.
    set (L := length (b :: rest)) in *. assert (HL : (1 <= L <= 4)%nat) by (unfold L in *; cbn [length] in *; lia).
    cbn [run_event]. rewrite (sim_depth _ _ _ Sm), El. fold L. rewrite (py_index_enum L HL).
    destruct (enum_step ms ss L Sm HL) as (st' & Es & Sh & Vc & Z & U & Uj).
    destruct (enum_nth_nonnil L HL) as (ch & ct & Ech).
    assert (Em : forall t, the_of (with_counters ms st') (enum_nth L) = Ok t ->
                 macro_number depth (Some (enum_nth L)) gen_command_level false ms = Ok (with_counters ms st', Some t)).
    { intros t Ht. unfold macro_number. cbv zeta. cbv iota beta. rewrite Ech. rewrite <- Ech.
      rewrite (numbered_high depth gen_command_level) by reflexivity. rewrite Es, Ht. reflexivity. }
    pose proof (sim_lists _ _ _ Sm) as HLr. rewrite El in HLr. cbn [lists_rel] in HLr. destruct HLr as [Hhead Htail]. fold L in Hhead.
    destruct b.
    - (* an enumerate *)
      set (e := count_true (true :: rest)) in *.
      assert (He : (1 <= e <= 4)%nat) by (pose proof (count_true_le (true :: rest)); pose proof (count_true_pos rest); fold L in H; unfold e; lia).
      rewrite (nth_error_enum e He) in Hs.
      unfold spec_obj in Hs. destruct (lookup_name (enum_nth e) (s_vals ss)) as [v|] eqn:Ev; [|discriminate].
      set (ss' := with_vals ss (spec_step (enum_nth e) (s_within ss) (s_vals ss))) in *.
      destruct (the_in true ss' (enum_nth e)) as [t|] eqn:Et; [|discriminate]. injection Hs as <- <-.
      assert (Hv' : lookup_name (enum_nth e) (s_vals ss') = Some (v + 1)).
      { unfold ss'. cbn [with_vals s_vals]. rewrite (spec_step_enum ms ss _ _ Sm (enum_nth_enum e He)), Ev, name_eqb_refl. reflexivity. }
      assert (Hval : value_of (enum_nth L) st' = v + 1).
      { rewrite Vc, (Hhead eq_refl). unfold sval. rewrite Ev. reflexivity. }
      assert (Sm' : sim cls (with_counters ms st') ss').
      { unfold ss'. apply sim_change_values; [exact Sm | exact Sh | apply spec_step_dom | | |].
        - intros n w Hw Hn. rewrite (spec_step_enum ms ss _ _ Sm (enum_nth_enum e He)) in Hw.
          destruct (lookup_name n (s_vals ss)) as [w0|] eqn:E0; [|discriminate].
          assert (X : name_eqb n (enum_nth e) = false) by (apply name_eqb_neq; intro; subst n; rewrite enum_nth_enum in Hn by exact He; discriminate).
          rewrite X in Hw. injection Hw as <-. rewrite U; [apply (sim_vals _ _ _ Sm n w0 E0 Hn) | exact Hn | eapply lookup_name_dom; exact E0].
        - intros p Hp. assert (Hpe : is_enum p = false) by (apply mem_false; intro H; apply Hp; apply (sim_enum_dom _ _ _ Sm); exact H).
          destruct (Z p Hpe) as [H|H]; [exact H | rewrite H; apply (sim_dead _ _ _ Sm p Hp)].
        - rewrite El. cbn [lists_rel]. fold L. fold e. split.
          + intros _. rewrite Hval. unfold sval. rewrite (spec_step_enum ms ss _ _ Sm (enum_nth_enum e He)), Ev, name_eqb_refl. reflexivity.
          + eapply lists_rel_ext; [| |exact Htail].
            * intros j Hj. apply Uj. unfold L. cbn [length]. lia.
            * intros j Hj. unfold sval. rewrite (spec_step_enum ms ss _ _ Sm (enum_nth_enum e He)).
              destruct (lookup_name (enum_nth j) (s_vals ss)); [|reflexivity].
              assert (X : name_eqb (enum_nth j) (enum_nth e) = false).
              { apply name_eqb_neq. intro X. apply enum_nth_inj in X; [|pose proof (count_true_le rest); cbn [length] in *; lia | exact He].
                unfold e, count_true in X. cbn [filter length] in X. unfold count_true in Hj. lia. }
              rewrite X. reflexivity. }
      destruct (enum_the cls _ _ _ _ Sm' (enum_nth_enum e He) Hv') as [Ht _]. rewrite Et in Ht. injection Ht as ->.
      rewrite (Em (arabic (v + 1))).
      + cbn [bind]. eexists _, [(k_item, Some (arabic (v + 1)))]. split; [reflexivity|]. split; [|exact Sm'].
        cbn [outs_agree]. rewrite opt_str_eqb_refl. reflexivity.
      + rewrite (model_enum_the _ _ L Sm' HL). cbn [with_counters m_counters]. rewrite Hval. reflexivity.
    - (* not an enumerate: LaTeX prints no number; plasTeX counts in enum<L> all the same *)
      injection Hs as <- <-.
      assert (Sm' : sim cls (with_counters ms st') ss).
      { assert (Wid : with_vals ss (s_vals ss) = ss) by (destruct ss; reflexivity). rewrite <- Wid.
        apply sim_change_values; [exact Sm | exact Sh | reflexivity | | |].
        - intros n w Hw Hn. rewrite U; [apply (sim_vals _ _ _ Sm n w Hw Hn) | exact Hn | eapply lookup_name_dom; exact Hw].
        - intros p Hp. assert (Hpe : is_enum p = false) by (apply mem_false; intro H; apply Hp; apply (sim_enum_dom _ _ _ Sm); exact H).
          destruct (Z p Hpe) as [H|H]; [exact H | rewrite H; apply (sim_dead _ _ _ Sm p Hp)].
        - rewrite El. cbn [lists_rel]. split; [discriminate|].
          eapply lists_rel_ext; [| |exact Htail]; [|reflexivity].
          intros j Hj. apply Uj. unfold L. cbn [length]. lia. }
      rewrite (Em _ (model_enum_the _ _ L Sm' HL)). cbn [bind].
      eexists _, [(k_item, _)]. split; [reflexivity|]. split; [reflexivity | exact Sm'].
  Qed.
End Events4.

(* ---------------------------------------------------------------------------------------------- *)
(** * eqnarray *)

Lemma macro_number_step : forall depth (c : name) level ms st' t,
  c <> [] -> numbered depth level = true -> stepcounter c (m_counters ms) = Some st' ->
  the_of (with_counters ms st') c = Ok t ->
  macro_number depth (Some c) level false ms = Ok (with_counters ms st', Some t).
Proof.
  intros depth c level ms st' t Hc Hn Es Et. destruct c as [|ch ct]; [congruence|].
  unfold macro_number. cbv zeta. cbv iota beta. rewrite Hn, Es, Et. reflexivity.
Qed.

Lemma sim_vals_ext : forall cls ms ss vals',
  sim cls ms ss -> map fst vals' = map fst (s_vals ss) -> (forall n, lookup_name n vals' = lookup_name n (s_vals ss)) ->
  sim cls ms (with_vals ss vals').
Proof.
  intros cls ms ss vals' Sm Dm Hl. rewrite <- (with_counters_id ms).
  apply sim_change_values; [exact Sm | reflexivity | exact Dm | | |].
  - intros n v Hv Hn. rewrite Hl in Hv. apply (sim_vals _ _ _ Sm n v Hv Hn).
  - apply (sim_dead _ _ _ Sm).
  - eapply lists_rel_ext; [| |apply (sim_lists _ _ _ Sm)]; [reflexivity|].
    intros j Hj. unfold sval. rewrite Hl. reflexivity.
Qed.

Section Eqnarray.
  Context (cls depth : Z).

  (* every counter within equation is 0 (true right after a step of equation, kept by the rows) *)
  Definition below_zero (ss : sstate) : Prop :=
    forall n v, lookup_name n (s_vals ss) = Some v ->
      is_within (Datatypes.S (length (s_within ss))) (s_within ss) n n_equation = true -> v = 0.

  Lemma below_zero_step : forall ms ss, sim cls ms ss ->
    below_zero (with_vals ss (spec_step n_equation (s_within ss) (s_vals ss))).
  Proof.
    intros ms ss Sm n v Hv Hw. cbn [with_vals s_vals s_within] in *. rewrite spec_step_lookup in Hv.
    destruct (lookup_name n (s_vals ss)) as [v0|]; [|discriminate]. rewrite Hw in Hv.
    destruct (name_eqb n n_equation) eqn:E; [|injection Hv as <-; reflexivity].
    apply name_eqb_eq in E. subst n. exfalso. apply is_within_sound in Hw. exact (sim_wacyc _ _ _ Sm _ Hw).
  Qed.

  (* undoing the last step of equation gives back the values before it, when everything within equation is 0 *)
  Lemma step_back_vals : forall ms ss v, sim cls ms ss -> below_zero ss -> lookup_name n_equation (s_vals ss) = Some v ->
    forall n, lookup_name n (spec_set n_equation (v + 1 - 1) (spec_step n_equation (s_within ss) (s_vals ss))) = lookup_name n (s_vals ss).
  Proof.
    intros ms ss v Sm Hb Hv n.
    assert (Hd : In n_equation (map fst (spec_step n_equation (s_within ss) (s_vals ss)))).
    { rewrite spec_step_dom. eapply lookup_name_dom. exact Hv. }
    destruct (name_eq_dec n n_equation) as [->|Hne].
    - rewrite spec_set_same by exact Hd. rewrite Hv. f_equal. lia.
    - rewrite spec_set_other by exact Hne. rewrite spec_step_lookup.
      destruct (lookup_name n (s_vals ss)) as [w|] eqn:Ew; [|reflexivity].
      apply name_eqb_neq in Hne. rewrite Hne.
      destruct (is_within (Datatypes.S (length (s_within ss))) (s_within ss) n n_equation) eqn:E; [|reflexivity].
      rewrite (Hb n w Ew E). reflexivity.
  Qed.

  Lemma eqn_rows_last_true : forall r ms acc,
    eqn_rows depth [true] r ms acc = Ok (with_counters ms (addtocounter gen_equation_counter (-1) (m_counters ms)), acc ++ [(k_row, None)]).
  Proof. reflexivity. Qed.
  Lemma eqn_rows_last_false : forall r ms acc, eqn_rows depth [false] r ms acc = Ok (ms, acc ++ [(k_row, r)]).
  Proof. reflexivity. Qed.
  Lemma eqn_rows_more_true : forall b' rest r ms acc,
    eqn_rows depth (true :: b' :: rest) r ms acc =
    (do (ms2, r2) <- macro_number depth (Some gen_endrow_counter) gen_command_level false
                       (with_counters ms (addtocounter gen_equation_counter (-1) (m_counters ms)));
     eqn_rows depth (b' :: rest) r2 ms2 (acc ++ [(k_row, None)])).
  Proof. reflexivity. Qed.
  Lemma eqn_rows_more_false : forall b' rest r ms acc,
    eqn_rows depth (false :: b' :: rest) r ms acc =
    (do (ms2, r2) <- macro_number depth (Some gen_endrow_counter) gen_command_level false ms;
     eqn_rows depth (b' :: rest) r2 ms2 (acc ++ [(k_row, r)])).
  Proof. reflexivity. Qed.

  Lemma rows_sim : forall rows ms ss acc macc ss1 o t,
    sim cls ms ss -> below_zero ss ->
    the_in true ss n_equation = Some t ->
    spec_rows true rows ss acc = Some (ss1, o) -> rows <> [] ->
    outs_agree acc macc = true ->
    exists ms1 mo, eqn_rows depth rows (Some t) ms macc = Ok (ms1, mo) /\ outs_agree o mo = true /\ sim cls ms1 ss1.
  Proof.
    induction rows as [|b rest IH]; intros ms ss acc macc ss1 o t Sm Hb Ht Hs Hne Hacc; [congruence|].
    assert (Hv : exists v, lookup_name n_equation (s_vals ss) = Some v).
    { unfold the_in in Ht. cbn [spec_the] in Ht. destruct (lookup_name n_equation (s_the ss)) eqn:E; [|discriminate].
      apply lookup_name_some. apply (sim_the_dom _ _ _ Sm). eapply lookup_name_dom. exact E. }
    destruct Hv as (v & Hv).
    assert (Hdom : In n_equation (dom ss)) by (eapply lookup_name_dom; exact Hv).
    assert (Heq : is_enum n_equation = false) by reflexivity.
    cbn [spec_rows] in Hs.
    destruct b.
    - (* a row with \nonumber *)
      rewrite Ht in Hs. cbn [andb negb] in Hs.
      assert (Hacc1 : outs_agree (acc ++ [(k_row, None)]) (macc ++ [(k_row, None)]) = true) by (apply outs_agree_app; [exact Hacc | reflexivity]).
      assert (Ea : addtocounter n_equation (-1) (m_counters ms) = setcounter n_equation (v + -1) (m_counters ms)).
      { unfold addtocounter, setcounter. rewrite (ensure_in _ _ (sim_dom_keys _ _ _ Sm _ Hdom)).
        rewrite (sim_vals _ _ _ Sm n_equation v Hv Heq). reflexivity. }
      pose proof (assign_sim cls ms ss n_equation (v + -1) Sm Hdom (enum_ok_nonenum _ _ Heq)) as SmA.
      destruct rest as [|b' rest'].
      + (* last row *)
        rewrite eqn_rows_last_true. change gen_equation_counter with n_equation. rewrite Ea.
        cbn [spec_rows] in Hs. rewrite Hv in Hs. injection Hs as <- <-.
        eexists _, _. split; [reflexivity|]. split; [exact Hacc1|]. replace (v - 1) with (v + -1) by lia. exact SmA.
      + (* \\ : step again; the state is the one at the start of this row *)
        rewrite eqn_rows_more_true. change gen_equation_counter with n_equation. rewrite Ea.
        set (ssA := with_vals ss (spec_set n_equation (v + -1) (s_vals ss))) in *.
        assert (HdA : In n_equation (dom ssA)) by (unfold ssA, dom; cbn [with_vals s_vals]; rewrite spec_set_dom; exact Hdom).
        destruct (step_sim cls _ _ n_equation SmA HdA Heq) as (st' & Es & SmB).
        assert (Sm2 : sim cls (with_counters (with_counters ms (setcounter n_equation (v + -1) (m_counters ms))) st') ss).
        { assert (Wid : with_vals ss (s_vals ss) = ss) by (destruct ss; reflexivity). rewrite <- Wid.
          replace (with_vals ss (s_vals ss)) with
            (with_vals (with_vals ssA (spec_step n_equation (s_within ssA) (s_vals ssA))) (s_vals ss)) by (destruct ss; reflexivity).
          apply sim_vals_ext; [exact SmB | |].
          - cbn [with_vals s_vals]. unfold ssA. cbn [with_vals s_vals s_within]. rewrite spec_step_dom, spec_set_dom. reflexivity.
          - intro n. cbn [with_vals s_vals]. unfold ssA. cbn [with_vals s_vals s_within].
            (* step after set(v-1): pointwise the old values *)
            rewrite spec_step_lookup. destruct (name_eq_dec n n_equation) as [->|Hn].
            + rewrite spec_set_same by exact Hdom. rewrite name_eqb_refl, Hv. f_equal. lia.
            + rewrite spec_set_other by exact Hn. destruct (lookup_name n (s_vals ss)) as [w|] eqn:Ew; [|reflexivity].
              assert (X : name_eqb n n_equation = false) by (apply name_eqb_neq; exact Hn). rewrite X.
              destruct (is_within (Datatypes.S (length (s_within ss))) (s_within ss) n n_equation) eqn:E; [|reflexivity].
              rewrite (Hb n w Ew E). reflexivity. }
        assert (Et2 : the_of (with_counters (with_counters ms (setcounter n_equation (v + -1) (m_counters ms))) st') n_equation = Ok t).
        { unfold the_of. unfold the_in in Ht.
          apply (expand_sim _ _ (sim_fmts _ _ _ Sm2) (sim_vals _ _ _ Sm2) (sim_dead _ _ _ Sm2) _ _ _ _ Heq Ht).
          pose proof (sim_fuel _ _ _ Sm2). lia. }
        change gen_endrow_counter with n_equation.
        assert (Em : macro_number depth (@Some name n_equation) gen_command_level false (with_counters ms (setcounter n_equation (v + -1) (m_counters ms)))
                     = Ok (with_counters (with_counters ms (setcounter n_equation (v + -1) (m_counters ms))) st', Some t)).
        { apply macro_number_step; [discriminate | apply numbered_high; reflexivity | exact Es | exact Et2]. }
        destruct (IH _ ss _ (macc ++ [(k_row, None)]) ss1 o t Sm2 Hb Ht Hs) as (msf & mo & Ef & Hof & Smf); [discriminate | exact Hacc1|].
        exists msf, mo. split; [rewrite Em; cbn [bind]; exact Ef | split; [exact Hof | exact Smf]].
    - (* a numbered row *)
      rewrite Ht in Hs.
      assert (Hacc1 : outs_agree (acc ++ [(k_row, Some t)]) (macc ++ [(k_row, Some t)]) = true).
      { apply outs_agree_app; [exact Hacc|]. cbn [outs_agree]. rewrite opt_str_eqb_refl. reflexivity. }
      set (ss2 := with_vals ss (spec_step n_equation (s_within ss) (s_vals ss))) in *.
      destruct rest as [|b' rest'].
      + (* last row: LaTeX takes the step back *)
        rewrite eqn_rows_last_false. cbn [spec_rows] in Hs.
        assert (Hv2 : lookup_name n_equation (s_vals ss2) = Some (v + 1)).
        { unfold ss2. cbn [with_vals s_vals]. rewrite spec_step_lookup, Hv, name_eqb_refl. reflexivity. }
        rewrite Hv2 in Hs. injection Hs as <- <-.
        eexists _, _. split; [reflexivity|]. split; [exact Hacc1|].
        unfold ss2.
        apply (sim_vals_ext cls ms ss (spec_set n_equation (v + 1 - 1) (spec_step n_equation (s_within ss) (s_vals ss))) Sm);
          [rewrite spec_set_dom, spec_step_dom; reflexivity | apply (step_back_vals ms ss v Sm Hb Hv)].
      + (* \\ : both step *)
        rewrite eqn_rows_more_false.
        assert (Ht2 : exists t2, the_in true ss2 n_equation = Some t2).
        { cbn [spec_rows] in Hs. destruct (the_in true ss2 n_equation) as [t2|]; [eauto|]. destruct b'; cbn [andb negb] in Hs; discriminate. }
        destruct Ht2 as (t2 & Ht2).
        assert (Hobj : spec_obj true k_row n_equation ss = Some (ss2, [(k_row, Some t2)])).
        { unfold spec_obj. rewrite Hv. fold ss2. rewrite Ht2. reflexivity. }
        destruct (obj_sim cls depth gen_command_level k_row ms ss n_equation ss2 _ Sm Heq (numbered_high depth gen_command_level eq_refl) Hobj) as (ms2 & t2' & Em & Eo & Sm2).
        injection Eo as <-.
        destruct (IH _ ss2 _ (macc ++ [(k_row, Some t)]) ss1 o t2 Sm2 (below_zero_step ms ss Sm) Ht2 Hs) as (msf & mo & Ef & Hof & Smf); [discriminate | exact Hacc1|].
        exists msf, mo. split; [change gen_endrow_counter with n_equation; rewrite Em; cbn [bind]; exact Ef | split; [exact Hof | exact Smf]].
  Qed.

  Lemma eqnarray_sim : forall rows, event_sim cls depth (EEqnarray rows).
  Proof.
    intros rows ms ss ss1 o Sm Hs. cbn [spec_event] in Hs.
    destruct rows as [|b rest]; [discriminate|].
    destruct (lookup_name n_equation (s_vals ss)) as [v|] eqn:Hv; [|discriminate].
    set (ss0 := with_vals ss (spec_step n_equation (s_within ss) (s_vals ss))) in *.
    assert (Ht0 : exists t0, the_in true ss0 n_equation = Some t0).
    { cbn [spec_rows] in Hs. destruct (the_in true ss0 n_equation) as [t0|]; [eauto|]. destruct b; cbn [andb negb] in Hs; discriminate. }
    destruct Ht0 as (t0 & Ht0).
    assert (Hobj : spec_obj true k_eq n_equation ss = Some (ss0, [(k_eq, Some t0)])).
    { unfold spec_obj. rewrite Hv. fold ss0. rewrite Ht0. reflexivity. }
    destruct (obj_sim cls depth gen_environment_level k_eq ms ss n_equation ss0 _ Sm eq_refl (numbered_high depth gen_environment_level eq_refl) Hobj) as (ms1 & t0' & Em & Eo & Sm1).
    injection Eo as <-.
    destruct (rows_sim (b :: rest) ms1 ss0 [] [] ss1 o t0 Sm1 (below_zero_step ms ss Sm) Ht0 Hs) as (msf & mo & Ef & Hof & Smf); [discriminate | reflexivity|].
    exists msf, mo. split; [|split; [exact Hof | exact Smf]].
    cbn [run_event]. change gen_eqnarray_counter with n_equation. rewrite Em. cbn [bind]. exact Ef.
  Qed.
End Eqnarray.

(* ---------------------------------------------------------------------------------------------- *)
(** * The initial states of the two classes are related (re-proved against the regenerated table) *)

Fixpoint desc_b (par : name -> option name) (fuel : nat) (d c : name) : bool :=
  match fuel with
  | O => false
  | Datatypes.S f => match par d with
           | Some p => name_eqb p c || desc_b par f p c
           | None => false
           end
  end.

Lemma desc_b_sound : forall par fuel d c, desc_b par fuel d c = true -> desc par d c.
Proof.
  intros par. induction fuel as [|f IH]; cbn; intros d c H; [discriminate|].
  destruct (par d) as [p|] eqn:E; [|discriminate].
  apply orb_true_iff in H. destruct H as [H|H].
  - apply name_eqb_eq in H. subst. apply desc_parent. exact E.
  - eapply desc_step; [exact E | apply IH; exact H].
Qed.

Lemma desc_b_complete_aux : forall par L, (forall n, ~ desc par n n) -> (forall d p, par d = Some p -> In d L) ->
  forall fuel d c path, desc par d c ->
    NoDup path -> incl path L -> (forall p, In p path -> desc par p d) ->
    (fuel + length path > length L)%nat -> desc_b par fuel d c = true.
Proof.
  intros par L AC HL. induction fuel as [|f IH]; intros d c path Hd ND Hincl Hpath Hfuel.
  - exfalso. pose proof (NoDup_incl_length ND Hincl) as Le. lia.
  - cbn [desc_b]. apply desc_inv in Hd. destruct Hd as [P|(p & P & Hd')]; rewrite P.
    + rewrite name_eqb_refl. reflexivity.
    + apply orb_true_iff. right. apply (IH p c (d :: path)).
      * exact Hd'.
      * constructor; [|exact ND]. intro Hin. apply (AC d). apply Hpath. exact Hin.
      * intros q [<-|Hq]; [eapply HL; exact P | apply Hincl; exact Hq].
      * intros q [<-|Hq]; [apply desc_parent; exact P|]. eapply desc_trans; [apply Hpath; exact Hq | apply desc_parent; exact P].
      * cbn [length]. lia.
Qed.

Lemma desc_b_iff : forall par L d c, (forall n, ~ desc par n n) -> (forall d p, par d = Some p -> In d L) ->
  desc_b par (Datatypes.S (length L)) d c = true <-> desc par d c.
Proof.
  intros par L d c AC HL. split; [apply desc_b_sound|]. intro H.
  apply (desc_b_complete_aux par L AC HL (Datatypes.S (length L)) d c []); [exact H | constructor | intros ? [] | intros ? [] | cbn; lia].
Qed.

Lemma rank_acyclic_gen : forall (par : name -> option name) (rk : name -> nat),
  (forall n p, par n = Some p -> (rk p < rk n)%nat) -> forall n, ~ desc par n n.
Proof.
  intros par rk H n Hd.
  assert (G : forall a b, desc par a b -> (rk b < rk a)%nat).
  { intros a b D. induction D as [m x P|m p x P _ IH]; [apply H; exact P | specialize (H _ _ P); lia]. }
  specialize (G n n Hd). lia.
Qed.

Fixpoint chain_len (par : name -> option name) (fuel : nat) (n : name) : nat :=
  match fuel with
  | O => O
  | Datatypes.S f => match par n with Some p => Datatypes.S (chain_len par f p) | None => O end
  end.

Lemma parent_in_keys : forall mc d p, parent mc d = Some p -> In d (keys mc).
Proof. intros mc d p H. destruct (parent_resets _ _ _ H) as (c & Hin & _). change d with (fst (d, c)). apply in_map. exact Hin. Qed.

(* boolean checks, each lifted to the corresponding component of [sim] *)
Definition init_checks (cls : Z) (ms : mstate) (ss : sstate) : bool :=
  let mc := m_counters ms in
  let ks := keys mc in
  let dm := dom ss in
  let W := s_within ss in
  let rk := chain_len (spar W) (Datatypes.S (length W)) in
  nodupb dm
  && forallb (fun n => mem n ks) dm
  && negb (mem [] dm)
  && forallb (fun n => mem n dm) enum_names
  && forallb (fun n => mem n dm || mem n spec_reserved) ks
  && forallb (fun e => match parent mc (fst e) with Some p => mem p ks || mem p spec_reserved | None => true end) mc
  && forallb (fun e => mem (fst e) dm && mem (snd e) dm && negb (is_enum (fst e)) && negb (is_enum (snd e))) W
  && forallb (fun e => Nat.ltb (rk (snd e)) (rk (fst e))) W
  && nodupb (map fst W)
  && forallb (fun n => forallb (fun c => is_enum n || is_enum c ||
                          Bool.eqb (desc_b (parent mc) (Datatypes.S (length ks)) n c) (desc_b (spar W) (Datatypes.S (length (map fst W))) n c)) dm) dm
  && forallb (fun e => match parent mc (fst e) with Some p => implb (is_enum p) (is_enum (fst e)) | None => true end) mc
  && Nat.ltb (length (s_the ss)) (length (m_thes ms))
  && forallb (fun k => mem k dm) (map fst (s_the ss))
  && forallb (fun k => mem k ks) (map fst (m_thes ms))
  && forallb (fun e => value_of (fst e) mc =? snd e) (s_vals ss)
  && forallb (fun e => c_value (snd e) =? 0) mc.

Lemma forallb_In : forall A (f : A -> bool) l x, forallb f l = true -> In x l -> f x = true.
Proof. intros A f l x H Hin. rewrite forallb_forall in H. apply H. exact Hin. Qed.

Lemma spar_in : forall W d p, spar W d = Some p -> In (d, p) W.
Proof. intros W d p H. apply lookup_name_in. exact H. Qed.

Lemma init_sim_from_checks : forall cls ms ss,
  init_checks cls ms ss = true ->
  acyclic (m_counters ms) -> NoDup (keys (m_counters ms)) ->
  base_names cls = dom ss ->
  (parent (m_counters ms) n_enumi = None /\ parent (m_counters ms) n_enumii = Some n_enumi /\
   parent (m_counters ms) n_enumiii = Some n_enumii /\ parent (m_counters ms) n_enumiv = Some n_enumiii) ->
  fmts_rel ms ss ->
  (forall k, In k enum_names -> lookup_the k (m_thes ms) = Some ([PRef k None], false) /\ lookup_name k (s_the ss) = Some [SNum RArabic k]) ->
  m_envs ms = [] -> s_envs ss = [] -> m_ldepth ms = 0 -> s_lists ss = [] ->
  sim cls ms ss.
Proof.
  intros cls ms ss HC AC ND HB Hchain HF HFE Hme Hse Hld Hsl.
  unfold init_checks in HC. cbv zeta in HC.
  apply andb_true_iff in HC; destruct HC as [HC K16].
  apply andb_true_iff in HC; destruct HC as [HC K15].
  apply andb_true_iff in HC; destruct HC as [HC K14].
  apply andb_true_iff in HC; destruct HC as [HC K13].
  apply andb_true_iff in HC; destruct HC as [HC K12].
  apply andb_true_iff in HC; destruct HC as [HC K11].
  apply andb_true_iff in HC; destruct HC as [HC K10].
  apply andb_true_iff in HC; destruct HC as [HC K9].
  apply andb_true_iff in HC; destruct HC as [HC K8].
  apply andb_true_iff in HC; destruct HC as [HC K7].
  apply andb_true_iff in HC; destruct HC as [HC K6].
  apply andb_true_iff in HC; destruct HC as [HC K5].
  apply andb_true_iff in HC; destruct HC as [HC K4].
  apply andb_true_iff in HC; destruct HC as [HC K3].
  apply andb_true_iff in HC; destruct HC as [HC K2].
  rename HC into K1.
  (* the spec's within relation is acyclic *)
  assert (WAC : forall n, ~ desc (spar (s_within ss)) n n).
  { apply (rank_acyclic_gen _ (chain_len (spar (s_within ss)) (Datatypes.S (length (s_within ss))))).
    intros n p P. apply spar_in in P. pose proof (forallb_In _ _ _ _ K8 P) as H. cbn [fst snd] in H. apply Nat.ltb_lt. exact H. }
  constructor; unfold vals_rel, dead_zero.
  - exact ND.
  - exact AC.
  - apply nodupb_sound. exact K1.
  - intros n Hn. apply mem_In. exact (forallb_In _ _ _ _ K2 Hn).
  - apply mem_false. apply negb_true_iff. exact K3.
  - intros n Hn. rewrite <- HB. exact Hn.
  - intros n Hn. apply mem_In. exact (forallb_In _ _ _ _ K4 Hn).
  - intros n Hn. pose proof (forallb_In _ _ _ _ K5 Hn) as H. apply orb_true_iff in H. destruct H as [H|H]; [left | right]; apply mem_In; exact H.
  - intros n p P. destruct (parent_resets _ _ _ P) as (c & Hin & _). pose proof (forallb_In _ _ _ _ K6 Hin) as H. cbn [fst] in H. rewrite P in H.
    apply orb_true_iff in H. destruct H as [H|H]; [left | right]; apply mem_In; exact H.
  - intros d p Hin. pose proof (forallb_In _ _ _ _ K7 Hin) as H. cbn [fst snd] in H.
    repeat (apply andb_true_iff in H; let X := fresh "X" in destruct H as [H X]).
    split; [apply mem_In; exact H|]. split; [apply mem_In; exact X1|]. split; apply negb_true_iff; assumption.
  - exact WAC.
  - intros n c Hn Hc En Ec.
    pose proof (forallb_In _ _ _ _ (forallb_In _ _ _ _ K10 Hn) Hc) as H. cbn beta in H. rewrite En, Ec in H. cbn [orb] in H.
    apply Bool.eqb_prop in H.
    rewrite <- (desc_b_iff (parent (m_counters ms)) (keys (m_counters ms)) n c AC (parent_in_keys (m_counters ms))).
    rewrite <- (desc_b_iff (spar (s_within ss)) (map fst (s_within ss)) n c WAC).
    + rewrite H. tauto.
    + intros d p P. eapply lookup_name_dom. exact P.
  - exact Hchain.
  - intros n p P Hp. destruct (parent_resets _ _ _ P) as (c & Hin & _). pose proof (forallb_In _ _ _ _ K11 Hin) as H. cbn [fst] in H. rewrite P, Hp in H. exact H.
  - exact HF.
  - exact HFE.
  - apply Nat.ltb_lt. exact K12.
  - intros k Hk. apply mem_In. exact (forallb_In _ _ _ _ K13 Hk).
  - intros k Hk. apply mem_In. exact (forallb_In _ _ _ _ K14 Hk).
  - rewrite Hme, Hse. reflexivity.
  - intros e c Hin. rewrite Hse in Hin. contradiction.
  - intros n v Hv Hn. apply lookup_name_in in Hv. pose proof (forallb_In _ _ _ _ K15 Hv) as H. cbn [fst snd] in H. apply Z.eqb_eq. exact H.
  - intros p _. unfold value_of. destruct (lookup p (m_counters ms)) as [c|] eqn:E; [|reflexivity].
    assert (Hin : In (p, c) (m_counters ms)).
    { clear - E. induction (m_counters ms) as [|[m d] st IH]; cbn in E; [discriminate|].
      destruct (name_eqb p m) eqn:E2; [apply name_eqb_eq in E2; inversion E; subst; left; reflexivity | right; apply IH; exact E]. }
    pose proof (forallb_In _ _ _ _ K16 Hin) as H. cbn [snd] in H. apply Z.eqb_eq. exact H.
  - rewrite Hld, Hsl. reflexivity.
  - rewrite Hsl. cbn. lia.
  - rewrite Hsl. exact I.
Qed.

Ltac solve_in_false H := repeat (destruct H as [H|H]; [discriminate H|]); try contradiction.

Ltac fmt_case :=
  eexists; eexists; split; [vm_compute; reflexivity|];
  first [ apply FR_arabic
        | apply FR_alph
        | apply FR_chain; [discriminate | reflexivity]
        | apply FR_prefix; [discriminate | reflexivity | left; vm_compute; reflexivity]
        | apply FR_dead; [discriminate | (let H := fresh in intro H; vm_compute in H; solve_in_false H) | vm_compute; reflexivity] ].

Lemma init_fmts : forall cls ss0, spec_init cls = Some ss0 -> fmts_rel (init_state cls) ss0.
Proof.
  intros cls ss0 H. unfold spec_init in H.
  destruct (cls =? 0) eqn:E0; [apply Z.eqb_eq in E0; subst cls | destruct (cls =? 1) eqn:E1; [apply Z.eqb_eq in E1; subst cls | discriminate]];
    injection H as <-; intros k sf Hl He; cbn [s_the app map enum_names lookup_name] in Hl;
    repeat match type of Hl with
    | (if name_eqb k ?key then _ else _) = _ =>
        let E := fresh "E" in destruct (name_eqb k key) eqn:E;
        [apply name_eqb_eq in E; subst k; injection Hl as <-; try discriminate He; fmt_case | ]
    end; discriminate.
Qed.

Lemma init_sim : forall cls ss0, spec_init cls = Some ss0 -> sim cls (init_state cls) ss0.
Proof.
  intros cls ss0 H. pose proof (init_fmts cls ss0 H) as HF.
  destruct (class_counters_wellformed cls) as [ND AC].
  assert (HB : base_names cls = dom ss0) by (unfold base_names; rewrite H; reflexivity).
  unfold spec_init in H.
  destruct (cls =? 0) eqn:E0; [apply Z.eqb_eq in E0; subst cls | destruct (cls =? 1) eqn:E1; [apply Z.eqb_eq in E1; subst cls | discriminate]];
    injection H as <-;
    (apply init_sim_from_checks; [vm_compute; reflexivity | exact AC | exact ND | exact HB | vm_compute; auto | exact HF | | reflexivity | reflexivity | reflexivity | reflexivity]);
    intros k Hk; apply enum_names_cases in Hk; destruct Hk as [-> | [-> | [-> | ->]]]; vm_compute; auto.
Qed.

(* ---------------------------------------------------------------------------------------------- *)
(** * M3: the whole document *)

Lemma all_events_sim : forall cls depth, (cls = 0 \/ cls = 1) -> dmin cls <= depth -> forall e, event_sim cls depth e.
Proof.
  intros cls depth Hc Hd e. destruct e.
  - apply sec_sim; assumption.
  - apply equation_sim.
  - apply eqnarray_sim.
  - apply eqnarraystar_sim.
  - apply caption_sim.
  - apply thm_sim.
  - apply newtheorem_sim.
  - apply newcounter_sim.
  - apply set_sim.
  - apply addto_sim.
  - apply stepev_sim.
  - apply begin_sim.
  - apply end_sim.
  - apply item_sim.
  - apply appendix_sim. exact Hc.
  - apply print_sim.
Qed.

Lemma events_sim : forall cls depth, (cls = 0 \/ cls = 1) -> dmin cls <= depth ->
  forall es ms ss acc macc ss1 o, sim cls ms ss -> outs_agree acc macc = true ->
    spec_events true cls depth es ss acc = Some (ss1, o) ->
    exists ms1 mo, run_events cls depth es ms macc = Ok (ms1, mo) /\ outs_agree o mo = true /\ sim cls ms1 ss1.
Proof.
  intros cls depth Hc Hd. induction es as [|e es IH]; intros ms ss acc macc ss1 o Sm Hacc Hs.
  - cbn in Hs. injection Hs as <- <-. exists ms, macc. split; [reflexivity|]. split; [exact Hacc | exact Sm].
  - cbn [spec_events] in Hs. destruct (spec_event true cls depth e ss) as [[ss' o']|] eqn:Ee; [|discriminate].
    destruct (all_events_sim cls depth Hc Hd e ms ss ss' o' Sm Ee) as (ms' & mo' & Em & Ho & Sm').
    destruct (IH ms' ss' (acc ++ o') (macc ++ mo') ss1 o Sm' (outs_agree_app _ _ _ _ Hacc Ho) Hs) as (ms1 & mo & E1 & Ho1 & Sm1).
    exists ms1, mo. split; [|split; [exact Ho1 | exact Sm1]]. cbn [run_events]. rewrite Em. cbn [bind]. exact E1.
Qed.

(* M3.  On every document of the Spec's strict domain -- any event list, any length, any nesting -- plasTeX's numbering (the
   Model) neither raises nor loops, prints the numbers LaTeX prints in the same order, and ends with LaTeX's counter values. *)
Theorem number_doc_spec_partial : forall cls depth es, numbering_correct true cls depth es.
Proof.
  intros cls depth es ss souts Hs. unfold spec_doc in Hs.
  destruct (spec_init cls) as [ss0|] eqn:Ei; [|discriminate].
  destruct ((if cls =? 0 then 0 else -1) <=? depth) eqn:Ed; [|discriminate]. apply Z.leb_le in Ed.
  assert (Hc : cls = 0 \/ cls = 1).
  { unfold spec_init in Ei. destruct (cls =? 0) eqn:E0; [left; apply Z.eqb_eq; exact E0|].
    destruct (cls =? 1) eqn:E1; [right; apply Z.eqb_eq; exact E1 | discriminate]. }
  destruct (events_sim cls depth Hc Ed es (init_state cls) ss0 [] [] ss souts (init_sim cls ss0 Ei) eq_refl Hs) as (ms1 & mo & E & Ho & Sm).
  exists ms1, mo. split; [exact E|]. split; [exact Ho|].
  intros n v Hin Hn. apply (sim_vals _ _ _ Sm n v); [|exact Hn].
  (* dom has no duplicates: membership is lookup *)
  pose proof (sim_dom_nodup _ _ _ Sm) as NDd. unfold dom in NDd. clear - Hin NDd.
  induction (s_vals ss) as [|[m w] l IH]; [contradiction|]. cbn [map fst] in NDd. inversion NDd as [|? ? Hm NDl]; subst.
  cbn [lookup_name]. destruct Hin as [Hin|Hin].
  - injection Hin as -> ->. rewrite name_eqb_refl. reflexivity.
  - destruct (name_eqb n m) eqn:E; [|apply IH; assumption]. apply name_eqb_eq in E. subst m. exfalso. apply Hm.
    change n with (fst (n, v)). apply in_map. exact Hin.
Qed.

(* ---------------------------------------------------------------------------------------------- *)
(** * The strict Spec is the Spec restricted; the two known findings refute the unrestricted statement *)

Lemma spec_pieces_sub : forall rec_t rec_f vals f t,
  (forall c s, rec_t c = Some s -> rec_f c = Some s) ->
  spec_pieces true rec_t vals f = Some t -> spec_pieces false rec_f vals f = Some t.
Proof.
  intros rec_t rec_f vals. induction f as [|p f IH]; intros t Hr H; [exact H|].
  rewrite spec_pieces_cons in *.
  destruct (spec_pieces true rec_t vals f) as [b|] eqn:Eb;
    [|destruct p as [s|r c|c|c]; try discriminate;
      [destruct (lookup_name c vals) as [v|]; [destruct (spec_repr r v)|]; discriminate
      | destruct (rec_t c); discriminate
      | destruct (lookup_name c vals) as [v|]; [|discriminate]; destruct (v <? 0); [discriminate|];
        destruct (v =? 0); destruct (rec_t c); discriminate]].
  rewrite (IH b Hr eq_refl).
  destruct p as [s|r c|c|c].
  - exact H.
  - exact H.
  - destruct (rec_t c) as [s|] eqn:E; [|discriminate]. rewrite (Hr c s E). exact H.
  - destruct (lookup_name c vals) as [v|]; [|discriminate]. destruct (v <? 0); [discriminate|].
    destruct (v =? 0).
    + destruct (rec_t c) as [s|]; [exact H | discriminate].
    + destruct (rec_t c) as [s|] eqn:E; [|discriminate]. rewrite (Hr c s E). exact H.
Qed.

Lemma spec_the_sub : forall fuel vals th c t, spec_the true fuel vals th c = Some t -> spec_the false fuel vals th c = Some t.
Proof.
  induction fuel as [|f IH]; intros vals th c t H; [discriminate|]. cbn [spec_the] in *.
  destruct (lookup_name c th) as [fm|]; [|discriminate].
  eapply spec_pieces_sub; [|exact H]. intros c' s Hs. apply IH. exact Hs.
Qed.

Lemma spec_obj_sub : forall kind c ss r, spec_obj true kind c ss = Some r -> spec_obj false kind c ss = Some r.
Proof.
  intros kind c ss r H. unfold spec_obj in *. destruct (lookup_name c (s_vals ss)); [|discriminate].
  destruct (the_in true _ c) as [t|] eqn:E; [|discriminate]. unfold the_in in *. rewrite (spec_the_sub _ _ _ _ _ E). exact H.
Qed.

Lemma spec_rows_sub : forall rows ss acc r, spec_rows true rows ss acc = Some r -> spec_rows false rows ss acc = Some r.
Proof.
  induction rows as [|b rows IH]; intros ss acc r H; [exact H|]. cbn [spec_rows] in *. destruct b.
  - cbn [andb]. destruct (true && negb match the_in true ss n_equation with Some _ => true | None => false end); [discriminate|]. apply IH. exact H.
  - destruct (the_in true ss n_equation) as [t|] eqn:E; [|discriminate]. unfold the_in in *. rewrite (spec_the_sub _ _ _ _ _ E). apply IH. exact H.
Qed.

Lemma spec_event_sub : forall cls depth e ss r, spec_event true cls depth e ss = Some r -> spec_event false cls depth e ss = Some r.
Proof.
  intros cls depth e ss r H. destruct e; cbn [spec_event] in *; try exact H.
  - destruct (lookup_name macro (spec_sec_table cls)) as [[level c]|]; [|discriminate].
    destruct (starred || (depth <? level)); [exact H | apply spec_obj_sub; exact H].
  - apply spec_obj_sub. exact H.
  - destruct rows; [discriminate|]. destruct (lookup_name n_equation (s_vals ss)); [|discriminate]. apply spec_rows_sub. exact H.
  - apply spec_obj_sub. exact H.
  - destruct (lookup_name env (s_envs ss)) as [[c|]|]; [apply spec_obj_sub; exact H | exact H | discriminate].
  - destruct (Nat.leb (length (enumerate :: s_lists ss)) 4 && Nat.leb (count_true (enumerate :: s_lists ss)) 4 &&
              Nat.leb (length (enumerate :: s_lists ss) - count_true (enumerate :: s_lists ss)) 4) eqn:E; [|discriminate].
    apply andb_true_iff in E. destruct E as [E E3]. apply andb_true_iff in E. destruct E as [E1 E2].
    apply Nat.leb_le in E1. assert (X : Nat.leb (length (enumerate :: s_lists ss)) 6 = true) by (apply Nat.leb_le; lia).
    rewrite X, E2, E3. exact H.
  - destruct (s_lists ss) as [|[|] rest]; [discriminate | | exact H].
    destruct (nth_error enum_names (count_true (true :: rest) - 1)); [apply spec_obj_sub; exact H | discriminate].
  - destruct (lookup_name c (s_vals ss)) as [v|]; [|discriminate]. destruct (enum_ok c (s_lists ss)); [|discriminate].
    destruct r0 as [r'|]; [exact H|]. destruct (the_in true ss c) as [t|] eqn:E; [|discriminate].
    unfold the_in in *. rewrite (spec_the_sub _ _ _ _ _ E). exact H.
Qed.

(* every document of the strict domain is a document of the Spec, with the same meaning *)
Theorem spec_strict_sub : forall cls depth es r, spec_doc true cls depth es = Some r -> spec_doc false cls depth es = Some r.
Proof.
  intros cls depth es r H. unfold spec_doc in *. destruct (spec_init cls) as [ss0|]; [|discriminate].
  destruct ((if cls =? 0 then 0 else -1) <=? depth); [|discriminate].
  revert H. generalize ss0 ([] : list out). induction es as [|e es IH]; intros ss acc H; [exact H|].
  cbn [spec_events] in *. destruct (spec_event true cls depth e ss) as [[ss1 o]|] eqn:E; [|discriminate].
  rewrite (spec_event_sub _ _ _ _ _ E). apply IH. exact H.
Qed.

Definition deep_list_doc : list event :=
  [EBeginList false; EBeginList false; EBeginList false; EBeginList false; EBeginList true; EItem; EItem; EEndList;
   EEndList; EEndList; EEndList; EEndList].

(* known finding C08-deep-lists: LaTeX numbers the items of the innermost (fifth-level) enumerate 1, 2; plasTeX 1, 2 only by
   accident of an empty outer list -- with one \item in the first itemize they come out as 2, 3 *)
Definition deep_list_doc2 : list event :=
  [EBeginList false; EItem; EBeginList false; EBeginList false; EBeginList false; EBeginList true; EItem; EItem; EEndList;
   EEndList; EEndList; EEndList; EEndList].

Theorem number_doc_spec_refuted_deep_lists : ~ numbering_correct false 0 2 deep_list_doc2.
Proof.
  intro H. destruct (spec_doc false 0 2 deep_list_doc2) as [[ss so]|] eqn:E; [|vm_compute in E; discriminate].
  destruct (H ss so E) as (ms & mo & Em & Ho & _).
  vm_compute in E. injection E as <- <-. vm_compute in Em. injection Em as <- <-. vm_compute in Ho. discriminate.
Qed.

(* known finding C08-appendix-chapter0: book, \appendix then an equation before the first appendix chapter: "Z.1", LaTeX "1" *)
Theorem number_doc_spec_refuted_appendix : ~ numbering_correct false 1 2 [EAppendix; EEquation].
Proof.
  intro H. destruct (spec_doc false 1 2 [EAppendix; EEquation]) as [[ss so]|] eqn:E; [|vm_compute in E; discriminate].
  destruct (H ss so E) as (ms & mo & Em & Ho & _).
  vm_compute in E. injection E as <- <-. vm_compute in Em. injection Em as <- <-. vm_compute in Ho. discriminate.
Qed.

(* ---------------------------------------------------------------------------------------------- *)
(** * M4: starred forms, \nonumber and too-deep objects print no number and do not disturb later numbers *)

Lemma run_events_acc : forall cls depth es ms acc,
  run_events cls depth es ms acc = (do (ms', o) <- run_events cls depth es ms []; Ok (ms', acc ++ o)).
Proof.
  intros cls depth. induction es as [|e es IH]; intros ms acc; cbn [run_events].
  - cbn [bind]. rewrite app_nil_r. reflexivity.
  - destruct (run_event cls depth e ms) as [[ms1 o]| |]; cbn [bind]; [|reflexivity|reflexivity].
    rewrite (IH ms1 (acc ++ o)), (IH ms1 ([] ++ o)). cbn [app].
    destruct (run_events cls depth es ms1 []) as [[ms2 o2]| |]; cbn [bind]; [|reflexivity|reflexivity].
    rewrite app_assoc. reflexivity.
Qed.

(* a starred sectioning command: an unnumbered observation, the interpreter state untouched -- so everything after it is
   numbered exactly as if it were not there *)
Theorem starred_no_effect : forall cls depth macro level c es ms acc,
  lookup_name macro gen_sec_table = Some (level, c) ->
  run_events cls depth (ESec macro true :: es) ms acc = run_events cls depth es ms (acc ++ [(k_sec, None)]).
Proof. intros cls depth macro level c es ms acc H. cbn [run_events run_event]. rewrite H. reflexivity. Qed.

(* a sectioning command deeper than the numbering depth: the same *)
Theorem too_deep_no_effect : forall cls depth macro level c es ms acc,
  lookup_name macro gen_sec_table = Some (level, c) -> numbered depth level = false ->
  run_events cls depth (ESec macro false :: es) ms acc = run_events cls depth es ms (acc ++ [(k_sec, None)]).
Proof.
  intros cls depth macro level c es ms acc H Hn. cbn [run_events run_event]. rewrite H.
  rewrite (macro_number_skip_deep depth c level ms Hn). reflexivity.
Qed.

Lemma store_ext : forall a b, shape a = shape b -> NoDup (keys a) -> (forall n, value_of n a = value_of n b) -> a = b.
Proof.
  induction a as [|[n c] a IH]; destruct b as [|[n' c'] b]; cbn [shape map]; intros Sh ND Hv; try discriminate; [reflexivity|].
  injection Sh as E1 E2 E3. cbn [fst snd] in *. subst n'.
  inversion ND as [|? ? Hn ND']; subst.
  assert (Hc : c = c').
  { specialize (Hv n). unfold value_of in Hv. cbn [lookup] in Hv. rewrite name_eqb_refl in Hv.
    destruct c, c'; cbn in *; congruence. }
  subst c'. f_equal. apply IH; [exact E3 | exact ND'|].
  intro m. destruct (name_eq_dec m n) as [->|Hne].
  - assert (Hb : ~ In n (keys b)) by (rewrite <- (keys_shape a b E3); exact Hn).
    unfold value_of. apply lookup_none in Hn. apply lookup_none in Hb. rewrite Hn, Hb. reflexivity.
  - specialize (Hv m). unfold value_of in *. cbn [lookup] in Hv. apply name_eqb_neq in Hne. rewrite Hne in Hv. exact Hv.
Qed.

(* \nonumber's addtocounter(-1) followed by the \\ step gives back the very same store, when every counter within the
   stepped one is 0 (as it is inside an eqnarray, whose \begin has just stepped equation) *)
Lemma step_after_decrement : forall mc c,
  NoDup (keys mc) -> acyclic mc -> In c (keys mc) ->
  (forall n, desc (parent mc) n c -> value_of n mc = 0) ->
  stepcounter c (addtocounter c (-1) mc) = Some mc.
Proof.
  intros mc c ND AC Hc Hz.
  destruct (addtocounter_spec mc c (-1)) as (Sh1 & V1 & O1). rewrite (ensure_in c mc Hc) in Sh1.
  set (mc1 := addtocounter c (-1) mc) in *.
  assert (K1 : keys mc1 = keys mc) by (apply keys_shape; exact Sh1).
  assert (P1 : forall n, parent mc1 n = parent mc n) by (intro; apply parent_shape; exact Sh1).
  assert (ND1 : NoDup (keys mc1)) by (rewrite K1; exact ND).
  assert (AC1 : acyclic mc1) by (eapply acyclic_shape; [|exact AC]; intro; symmetry; apply P1).
  destruct (step_resets_transitively mc1 c ND1 AC1) as (st' & E & Sh & Vc & D & U & _).
  rewrite (ensure_in c mc1) in Sh by (rewrite K1; exact Hc).
  rewrite E. f_equal. apply store_ext.
  - rewrite Sh. exact Sh1.
  - rewrite (keys_shape _ _ Sh). exact ND1.
  - intro n. destruct (name_eq_dec n c) as [->|Hne].
    + rewrite Vc, V1. lia.
    + assert (Hdec : desc (parent mc) n c \/ ~ desc (parent mc) n c).
      { destruct (desc_b (parent mc) (Datatypes.S (length (keys mc))) n c) eqn:Eb.
        - left. apply desc_b_sound in Eb. exact Eb.
        - right. intro Hd. apply (desc_b_iff (parent mc) (keys mc) n c AC (parent_in_keys mc)) in Hd. congruence. }
      destruct Hdec as [Hd|Hd].
      * rewrite D by (eapply desc_ext; [|exact Hd]; intro; symmetry; apply P1). symmetry. apply Hz. exact Hd.
      * rewrite U; [apply O1; exact Hne | exact Hne |]. intro H. apply Hd. eapply desc_ext; [|exact H]. exact P1.
Qed.

Lemma with_counters_twice : forall ms a b, with_counters (with_counters ms a) b = with_counters ms b.
Proof. reflexivity. Qed.

(* a row marked \nonumber in the middle of an eqnarray prints no number; the state and the number pending for the next row
   are exactly what they were before the row *)
Theorem nonumber_row_no_effect : forall depth ms t b' rest acc,
  NoDup (keys (m_counters ms)) -> acyclic (m_counters ms) -> In gen_equation_counter (keys (m_counters ms)) ->
  (forall n, desc (parent (m_counters ms)) n gen_equation_counter -> value_of n (m_counters ms) = 0) ->
  the_of ms gen_equation_counter = Ok t ->
  eqn_rows depth (true :: b' :: rest) (Some t) ms acc = eqn_rows depth (b' :: rest) (Some t) ms (acc ++ [(k_row, None)]).
Proof.
  intros depth ms t b' rest acc ND AC Hk Hz Ht. rewrite eqn_rows_more_true.
  rewrite (macro_number_step depth gen_endrow_counter gen_command_level
             (with_counters ms (addtocounter gen_equation_counter (-1) (m_counters ms))) (m_counters ms) t).
  - cbn [bind]. rewrite with_counters_twice, with_counters_id. reflexivity.
  - discriminate.
  - apply numbered_high. reflexivity.
  - cbn [with_counters m_counters]. change gen_endrow_counter with gen_equation_counter. apply step_after_decrement; assumption.
  - rewrite with_counters_twice, with_counters_id. exact Ht.
Qed.

(* ---------------------------------------------------------------------------------------------- *)
(** * M5: enumerate items count 1, 2, 3, ... within their list and restart in every nested list *)

Inductive lev := LBegin | LEnd | LItem.
Definition lev_event (l : lev) : event := match l with LBegin => EBeginList true | LEnd => EEndList | LItem => EItem end.

(* the numbers a reader expects: one running count per open list, a new list starts from 0; None: ill-nested or deeper than 4 *)
Fixpoint expected (ls : list lev) (counts : list Z) : option (list Z) :=
  match ls with
  | [] => Some []
  | LBegin :: r => if Nat.ltb (length counts) 4 then expected r (0 :: counts) else None
  | LEnd :: r => match counts with _ :: s => expected r s | [] => None end
  | LItem :: r => match counts with
                  | c :: s => match expected r ((c + 1) :: s) with Some l => Some ((c + 1) :: l) | None => None end
                  | [] => None
                  end
  end.

Fixpoint cnt_rel (vals : list (name * Z)) (cs : list Z) : Prop :=
  match cs with
  | [] => True
  | c :: r => sval (enum_nth (length cs)) vals = c /\ cnt_rel vals r
  end.

Lemma cnt_rel_ext : forall vals vals' cs,
  (forall j, (1 <= j <= length cs)%nat -> sval (enum_nth j) vals' = sval (enum_nth j) vals) -> cnt_rel vals cs -> cnt_rel vals' cs.
Proof.
  induction cs as [|c r IH]; intros H HR; [exact I|]. cbn [cnt_rel] in *. destruct HR as [H1 H2]. split.
  - rewrite H by (cbn [length]; lia). exact H1.
  - apply IH; [|exact H2]. intros j Hj. apply H. cbn [length]. lia.
Qed.

Lemma count_true_all : forall (cs : list Z), count_true (map (fun _ => true) cs) = length cs.
Proof. unfold count_true. induction cs as [|c r IH]; [reflexivity|]. cbn [map filter length]. f_equal. exact IH. Qed.

Lemma outs_agree_eq : forall s m, (forall k r, In (k, r) s -> k <> k_bullet) -> outs_agree s m = true -> s = m.
Proof.
  induction s as [|[k r] s IH]; intros [|[k' r'] m] Hk H; cbn [outs_agree] in H; try discriminate; [reflexivity|].
  assert (Hne : k <> k_bullet) by (eapply Hk; left; reflexivity).
  destruct (k =? k_bullet) eqn:E; [apply Z.eqb_eq in E; contradiction|].
  apply andb_true_iff in H. destruct H as [H1 H2]. apply andb_true_iff in H1. destruct H1 as [H1 H3].
  apply Z.eqb_eq in H1. subst k'.
  assert (r = r').
  { destruct r, r'; cbn in H3; try discriminate; [apply str_eqb_eq in H3; congruence | reflexivity]. }
  subst r'. f_equal. apply IH; [|exact H2]. intros k2 r2 Hin. eapply Hk. right. exact Hin.
Qed.

Lemma enum_the_vals : forall cls ms ss c v vals', sim cls ms ss -> is_enum c = true -> lookup_name c vals' = Some v ->
  the_in true (with_vals ss vals') c = Some (arabic v).
Proof.
  intros cls ms ss c v vals' Sm He Hv. apply is_enum_In in He. destruct (sim_fmt_enum _ _ _ Sm c He) as [_ Hs].
  unfold the_in. cbn [with_vals s_the s_vals spec_the]. rewrite Hs. rewrite spec_pieces_cons. rewrite Hv.
  cbn [spec_repr spec_pieces]. rewrite app_nil_r. reflexivity.
Qed.

Definition item_outs (nums : list Z) : list out := map (fun k => (k_item, Some (arabic k))) nums.

Lemma lists_spec : forall cls depth, (cls = 0 \/ cls = 1) -> dmin cls <= depth ->
  forall ls ms ss cs nums acc,
    sim cls ms ss -> s_lists ss = map (fun _ => true) cs -> cnt_rel (s_vals ss) cs ->
    expected ls cs = Some nums ->
    exists ss1, spec_events true cls depth (map lev_event ls) ss acc = Some (ss1, acc ++ item_outs nums).
Proof.
  intros cls depth Hc Hd. induction ls as [|l ls IH]; intros ms ss cs nums acc Sm Hst HR He.
  - cbn in He. injection He as <-. exists ss. cbn. rewrite app_nil_r. reflexivity.
  - cbn [map spec_events]. destruct l; cbn [lev_event expected] in *.
    + (* \begin{enumerate} *)
      destruct (Nat.ltb (length cs) 4) eqn:E4; [|discriminate]. apply Nat.ltb_lt in E4.
      assert (Hev : exists ss', spec_event true cls depth (EBeginList true) ss = Some (ss', []) /\
                s_lists ss' = map (fun _ => true) (0 :: cs) /\ cnt_rel (s_vals ss') (0 :: cs)).
      { cbn [spec_event]. rewrite Hst. change (true :: map (fun _ : Z => true) cs) with (map (fun _ : Z => true) (0 :: cs)).
        rewrite count_true_all, map_length. cbn [length].
        assert (X1 : Nat.leb (Datatypes.S (length cs)) 4 = true) by (apply Nat.leb_le; lia). rewrite X1.
        rewrite Nat.sub_diag. cbn [Nat.leb andb].
        rewrite (nth_error_enum (Datatypes.S (length cs))) by lia.
        eexists. split; [reflexivity|]. cbn [s_lists s_vals]. split; [reflexivity|]. cbn [cnt_rel length]. split.
        - unfold sval. rewrite spec_set_same; [reflexivity|]. apply (sim_enum_dom _ _ _ Sm). apply enum_nth_In. lia.
        - eapply cnt_rel_ext; [|exact HR]. intros j Hj. unfold sval. rewrite spec_set_other; [reflexivity|].
          intro X. apply enum_nth_inj in X; lia. }
      destruct Hev as (ss' & Ee & Hst' & HR').
      destruct (all_events_sim cls depth Hc Hd _ ms ss ss' [] Sm Ee) as (ms' & mo & _ & _ & Sm').
      rewrite Ee. rewrite app_nil_r. apply (IH ms' ss' (0 :: cs) nums acc Sm' Hst' HR' He).
    + (* \end{enumerate} *)
      destruct cs as [|c cs']; [discriminate|].
      assert (Hev : spec_event true cls depth EEndList ss = Some (mkss (s_vals ss) (s_within ss) (s_the ss) (s_envs ss) (map (fun _ => true) cs'), [])).
      { cbn [spec_event]. rewrite Hst. reflexivity. }
      destruct (all_events_sim cls depth Hc Hd _ ms ss _ [] Sm Hev) as (ms' & mo & _ & _ & Sm').
      rewrite Hev. rewrite app_nil_r. cbn [cnt_rel] in HR. destruct HR as [_ HR].
      apply (IH ms' _ cs' nums acc Sm' eq_refl HR He).
    + (* \item *)
      destruct cs as [|c cs']; [discriminate|].
      destruct (expected ls ((c + 1) :: cs')) as [l|] eqn:El; [|discriminate]. injection He as <-.
      set (L := length (c :: cs')).
      pose proof (sim_depth4 _ _ _ Sm) as H4. rewrite Hst, map_length in H4. fold L in H4.
      assert (HL : (1 <= L <= 4)%nat) by (unfold L in *; cbn [length] in *; lia).
      cbn [cnt_rel] in HR. destruct HR as [Hhead Htail]. fold L in Hhead.
      assert (Hdom : In (enum_nth L) (dom ss)) by (apply (sim_enum_dom _ _ _ Sm); apply enum_nth_In; exact HL).
      destruct (lookup_name_some _ _ (s_vals ss) Hdom) as (v & Ev).
      assert (Hvc : v = c) by (unfold sval in Hhead; rewrite Ev in Hhead; exact Hhead). subst v.
      set (ss' := with_vals ss (spec_step (enum_nth L) (s_within ss) (s_vals ss))).
      assert (Ev' : lookup_name (enum_nth L) (s_vals ss') = Some (c + 1)).
      { unfold ss'. cbn [with_vals s_vals]. rewrite (spec_step_enum cls ms ss _ _ Sm (enum_nth_enum L HL)), Ev, name_eqb_refl. reflexivity. }
      unfold ss' in Ev'. cbn [with_vals s_vals] in Ev'.
      assert (Hev : spec_event true cls depth EItem ss = Some (ss', [(k_item, Some (arabic (c + 1)))])).
      { cbn [spec_event]. rewrite Hst. cbn [map].
        change (true :: map (fun _ : Z => true) cs') with (map (fun _ : Z => true) (c :: cs')). rewrite count_true_all. fold L.
        rewrite (nth_error_enum L HL). unfold spec_obj. rewrite Ev. unfold ss'.
        rewrite (enum_the_vals cls ms ss _ _ _ Sm (enum_nth_enum L HL) Ev'). reflexivity. }
      destruct (all_events_sim cls depth Hc Hd _ ms ss _ _ Sm Hev) as (ms' & mo & _ & _ & Sm').
      rewrite Hev.
      destruct (IH ms' ss' ((c + 1) :: cs') l (acc ++ [(k_item, Some (arabic (c + 1)))]) Sm') as (ss1 & E1).
      * unfold ss'. cbn [with_vals s_lists]. exact Hst.
      * cbn [cnt_rel]. change (length ((c + 1) :: cs')) with L. split.
        -- unfold ss', sval. cbn [with_vals s_vals]. rewrite Ev'. reflexivity.
        -- eapply cnt_rel_ext; [|exact Htail]. intros j Hj. unfold ss', sval. cbn [with_vals s_vals].
           rewrite (spec_step_enum cls ms ss _ _ Sm (enum_nth_enum L HL)).
           destruct (lookup_name (enum_nth j) (s_vals ss)); [|reflexivity].
           assert (X : name_eqb (enum_nth j) (enum_nth L) = false).
           { apply name_eqb_neq. intro X. apply enum_nth_inj in X; unfold L in *; cbn [length] in *; lia. }
           rewrite X. reflexivity.
      * exact El.
      * exists ss1. rewrite E1. unfold item_outs. cbn [map]. rewrite <- app_assoc. reflexivity.
Qed.

(* M5.  For every well-nested sequence of \begin{enumerate} / \item / \end{enumerate} (any length, nesting up to four),
   in both classes, plasTeX numbers the items of each list 1, 2, 3, ... and starts again from 1 in every nested list. *)
Theorem enumerate_items_count : forall cls depth ls nums,
  (cls = 0 \/ cls = 1) -> dmin cls <= depth -> expected ls [] = Some nums ->
  exists ms, number_doc cls depth (map lev_event ls) = Ok (ms, item_outs nums).
Proof.
  intros cls depth ls nums Hc Hd He.
  assert (Hi : exists ss0, spec_init cls = Some ss0 /\ s_lists ss0 = []).
  { destruct Hc as [-> | ->]; eexists; split; reflexivity. }
  destruct Hi as (ss0 & Hi & Hl0).
  pose proof (init_sim cls ss0 Hi) as Sm0.
  destruct (lists_spec cls depth Hc Hd ls (init_state cls) ss0 [] nums [] Sm0 Hl0 I He) as (ss1 & Es).
  destruct (events_sim cls depth Hc Hd _ (init_state cls) ss0 [] [] ss1 _ Sm0 eq_refl Es) as (ms1 & mo & Em & Ho & _).
  exists ms1. unfold number_doc. rewrite Em. f_equal. f_equal. symmetry. apply outs_agree_eq; [|exact Ho].
  intros k r Hin. cbn [app] in Hin. unfold item_outs in Hin. apply in_map_iff in Hin. destruct Hin as (x & Hx & _). injection Hx as <- _. discriminate.
Qed.

(* ---------------------------------------------------------------------------------------------- *)
(** * The format strings of the shipped classes (re-proved against the regenerated table) *)

(* the Model's scanner parses every format string of article / report / book (and of their \appendix) to what Python's re
   -- applied by the translator exactly as TheCounter.invoke applies it -- makes of it *)
Theorem class_formats_parse : forall s f, In (s, f) gen_format_strings -> parse_format s = f.
Proof.
  assert (H : forallb (fun p => fmt_eqb (parse_format (fst p)) (snd p)) gen_format_strings = true) by (vm_compute; reflexivity).
  intros s f Hin. apply fmt_eqb_eq. exact (forallb_In _ _ _ _ H Hin).
Qed.

(* ... and every \the<counter> of a freshly loaded class carries the parse of one of these strings *)
Theorem class_thes_from_source : forall cls k f t, (cls = 0 \/ cls = 1 \/ cls = 2) ->
  In (k, (f, t)) (m_thes (init_state cls)) -> exists s, In (s, f) gen_format_strings /\ parse_format s = f.
Proof.
  intros cls k f t Hc Hin.
  assert (H : forall c, (c = 0 \/ c = 1 \/ c = 2) ->
            forallb (fun e => existsb (fun p => fmt_eqb (snd p) (fst (snd e))) gen_format_strings) (m_thes (init_state c)) = true).
  { intros c [-> | [-> | ->]]; vm_compute; reflexivity. }
  pose proof (forallb_In _ _ _ _ (H cls Hc) Hin) as Hx. cbn [fst snd] in Hx. apply existsb_exists in Hx.
  destruct Hx as ([s g] & Hg & E). cbn [snd] in E. apply fmt_eqb_eq in E. subst g. exists s. split; [exact Hg | apply class_formats_parse; exact Hg].
Qed.
