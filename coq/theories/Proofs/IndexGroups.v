(* C18 (M5): the letter groups are a partition of the top-level entries into runs with the same heading, and the
   column split of every group is an order-preserving partition into exactly index-columns columns. *)
From Coq Require Import List ZArith Bool Arith Lia.
Import ListNotations.
From Verif Require Import Val Index IndexOrder.
Local Open Scope Z_scope.

Lemma concat_filter_nonempty {A} : forall l : list (list A), concat (filter nonempty l) = concat l.
Proof. induction l as [|x l IH]; simpl; auto. destruct x; simpl; [exact IH | rewrite IH; reflexivity]. Qed.
Lemma concat_repeat_nil {A} : forall n, concat (repeat (@nil A) n) = [].
Proof. induction n; simpl; auto. Qed.

Lemma filter_len {A} (f : A -> bool) : forall l, (length (filter f l) <= length l)%nat.
Proof. induction l as [|x l IH]; simpl; auto. destruct (f x); simpl; lia. Qed.

Section Columns.
  Context {A : Type}.

  Lemma fill_concat cols coltotal : forall (ents : list (Z * A)) current c cs,
    concat (fill cols coltotal ents current c cs) = rev (map snd ents) ++ concat (c :: cs).
  Proof.
    induction ents as [|[num item] rest IH]; intros current c cs; [reflexivity|].
    cbn [fill map snd rev].
    destruct (Z.of_nat (length (c :: cs)) >=? cols); [|destruct (current + num >? coltotal); [|destruct (current + num =? coltotal)]];
      rewrite IH, <- app_assoc; reflexivity.
  Qed.

  Lemma fill_length cols coltotal : forall (ents : list (Z * A)) current c cs,
    1 <= cols -> Z.of_nat (length (c :: cs)) <= cols ->
    Z.of_nat (length (fill cols coltotal ents current c cs)) <= cols.
  Proof.
    induction ents as [|[num item] rest IH]; intros current c cs C L; [exact L|].
    cbn [fill].
    destruct (Z.of_nat (length (c :: cs)) >=? cols) eqn:E.
    - apply IH; auto.
    - assert (L2 : Z.of_nat (length (c :: cs)) < cols) by lia.
      destruct (current + num >? coltotal); [|destruct (current + num =? coltotal)]; apply IH; auto;
        cbn [length] in *; lia.
  Qed.

  (* M5: the columns of a group *)
  Theorem columns_partition (size : A -> Z) (items : list A) (cols : Z) :
    1 <= cols ->
    exists cs, split_columns size items cols = Some cs /\ concat cs = items /\ Z.of_nat (length cs) = cols.
  Proof.
    intro C. unfold split_columns. destruct (cols =? 0) eqn:E; [lia|].
    eexists. split; [reflexivity|].
    set (ents := rev (map (fun it => (size it, it)) items)).
    set (coltotal := Z.quot _ cols).
    pose proof (fill_length cols coltotal ents 0 [] [] C ltac:(simpl; lia)) as L.
    pose proof (fill_concat cols coltotal ents 0 [] []) as Cc.
    set (out := filter nonempty (fill cols coltotal ents 0 [] [])).
    assert (Lo : Z.of_nat (length out) <= cols).
    { unfold out. pose proof (filter_len nonempty (fill cols coltotal ents 0 [] [])). lia. }
    split.
    - rewrite concat_app, concat_repeat_nil, app_nil_r. unfold out. rewrite concat_filter_nonempty, Cc.
      simpl. rewrite app_nil_r. unfold ents. rewrite map_rev, rev_involutive, map_map. simpl. apply map_id.
    - rewrite app_length, repeat_length. lia.
  Qed.

  Theorem columns_zero (size : A -> Z) (items : list A) : split_columns size items 0 = None.
  Proof. reflexivity. Qed.
End Columns.

Fixpoint adj_diff (l : list str) : Prop :=
  match l with
  | a :: r => match r with b :: _ => a <> b /\ adj_diff r | [] => True end
  | [] => True
  end.

Lemma adj_snoc : forall l b a, adj_diff (l ++ [b]) -> b <> a -> adj_diff (l ++ [b; a]).
Proof.
  induction l as [|x l IH]; intros b a H N.
  - simpl. auto.
  - destruct l as [|y l].
    + simpl in *. destruct H as [H _]. auto.
    + change (adj_diff (x :: y :: (l ++ [b]))) in H. change (adj_diff (x :: y :: (l ++ [b; a]))).
      cbn [adj_diff] in H |- *. destruct H as [H1 H2]. split; [exact H1|]. apply (IH b a); auto.
Qed.
Lemma adj_diff_rev : forall l, adj_diff l -> adj_diff (rev l).
Proof.
  induction l as [|a l IH]; intro H; [exact I|].
  destruct l as [|b l]; [exact I|].
  cbn [adj_diff] in H. destruct H as [H1 H2].
  change (rev (a :: b :: l)) with ((rev l ++ [b]) ++ [a]). rewrite <- app_assoc. cbn [app].
  apply adj_snoc; [apply (IH H2) | congruence].
Qed.

Section Groups.
  Context (ud : Z -> str) (letters : str).
  Context {A : Type} (titlef : A -> str).

  Definition ginv (current : str) (bs : list (str * list A)) : Prop :=
    match bs with [] => True | (t, _) :: _ => t = current end /\
    Forall (fun g => snd g <> [] /\ Forall (fun it => titlef it = fst g) (snd g)) bs /\
    adj_diff (map fst bs).

  Definition ungroup (bs : list (str * list A)) : list A := concat (map (fun g => rev (snd g)) (rev bs)).

  Lemma batch_spec : forall items current bs,
    ginv current bs -> (bs = [] -> forall it, In it items -> titlef it <> current) ->
    exists bs', batch titlef items current bs = Some bs' /\
      (exists cur', ginv cur' bs') /\ ungroup bs' = ungroup bs ++ items.
  Proof.
    induction items as [|it rest IH]; intros current bs G N.
    - exists bs. split; [reflexivity|]. split; [exists current; exact G | rewrite app_nil_r; reflexivity].
    - cbn [batch]. destruct (str_eqb current (titlef it)) eqn:E; cbn [negb].
      + apply str_eqb_eq in E. destruct bs as [|[t0 l] bs'].
        { exfalso. apply (N eq_refl it); [left; reflexivity | congruence]. }
        destruct G as (G1 & G2 & G3). subst t0.
        destruct (IH (titlef it) ((current, it :: l) :: bs')) as (r & Er & Gr & Ur).
        * unfold ginv. split; [exact E|]. split; [|exact G3].
          apply Forall_cons_iff in G2. destruct G2 as [[Ga Gb] G2']. simpl in Gb. constructor; [|exact G2'].
          simpl. split; [discriminate|]. constructor; [symmetry; exact E | exact Gb].
        * discriminate.
        * exists r. split; [exact Er|]. split; [exact Gr|]. rewrite Ur. unfold ungroup. simpl.
          rewrite !map_app, !concat_app. simpl. rewrite !app_nil_r, <- !app_assoc. reflexivity.
      + assert (Ne : current <> titlef it) by (intro Q; apply str_eqb_eq in Q; congruence).
        destruct (IH (titlef it) ((titlef it, [it]) :: bs)) as (r & Er & Gr & Ur).
        * destruct G as (G1 & G2 & G3). unfold ginv. split; [reflexivity|]. split.
          { constructor; [|exact G2]. split; [discriminate|]. constructor; auto. }
          { cbn [map fst]. destruct bs as [|[t0 l] bs']; [exact I|]. split; [|exact G3]. simpl in G1. subst t0. simpl. congruence. }
        * discriminate.
        * exists r. split; [exact Er|]. split; [exact Gr|]. rewrite Ur. unfold ungroup. simpl.
          rewrite !map_app, !concat_app. simpl. rewrite ?app_nil_r, <- ?app_assoc. reflexivity.
  Qed.
End Groups.

Section GroupsTop.
  Context (ud : Z -> str) (letters : str).
  Context {A : Type} (skey : A -> str) (size : A -> Z).

  Lemma title_of_nonempty s : title_of ud letters s <> [].
  Proof.
    unfold title_of. destruct s as [|c s]; [discriminate|].
    destruct ((length (ud c) =? 1)%nat && infix_b (ud c) letters) eqn:E.
    - apply andb_true_iff in E. destruct E as [E _]. apply Nat.eqb_eq in E. destruct (ud c); [discriminate E | discriminate].
    - destruct (str_eqb (ud c) [95]); discriminate.
  Qed.

  Lemma infix_single x : forall l, infix_b [x] l = true <-> In x l.
  Proof.
    induction l as [|y l IH]; simpl.
    - split; [discriminate | intros []].
    - rewrite orb_true_iff, andb_true_r, Z.eqb_eq, IH. split; intros [E | E]; auto.
  Qed.

  (* the heading is a single letter (the transliteration of the initial of the sort key), or one of the two symbol headings *)
  Theorem title_of_cases s :
    title_of ud letters s = s_symbols \/ title_of ud letters s = s_underscore \/
    exists c r x, s = c :: r /\ ud c = [x] /\ In x letters /\ title_of ud letters s = [x].
  Proof.
    unfold title_of. destruct s as [|c r]; auto.
    destruct ((length (ud c) =? 1)%nat && infix_b (ud c) letters) eqn:E.
    - right. right. apply andb_true_iff in E. destruct E as [E1 E2]. apply Nat.eqb_eq in E1.
      destruct (ud c) as [|x [|y t]] eqn:U; try discriminate E1.
      exists c, r, x. repeat split; auto. apply infix_single. exact E2.
    - destruct (str_eqb (ud c) [95]); auto.
  Qed.

  Lemma mapM_o_spec {B C} (f : B -> option C) (h : B -> C) : forall l,
    (forall x, In x l -> f x = Some (h x)) -> mapM_o f l = Some (map h l).
  Proof.
    induction l as [|x l IH]; intro Hf; simpl; auto.
    rewrite (Hf x (or_introl eq_refl)), IH; auto. intros y Hy. apply Hf. right. exact Hy.
  Qed.

  (* M5: the groups *)
  Theorem groups_partition (items : list A) (cols : Z) :
    1 <= cols ->
    exists gs, groups ud letters skey size items cols = Some gs /\
      concat (map (fun g => concat (snd g)) gs) = items /\
      Forall (fun g => Z.of_nat (length (snd g)) = cols /\ concat (snd g) <> [] /\
                       Forall (fun it => title_of ud letters (skey it) = fst g) (concat (snd g))) gs /\
      adj_diff (map fst gs).
  Proof.
    intro C. unfold groups.
    destruct (batch_spec (fun it => title_of ud letters (skey it)) items [] []) as (bs & E & [cur G] & U).
    { unfold ginv. simpl. auto. }
    { intros _ it _. apply title_of_nonempty. }
    rewrite E.
    set (h := fun g : str * list A => (fst g, match split_columns size (rev (snd g)) cols with Some cs => cs | None => [] end)).
    rewrite (mapM_o_spec _ h).
    2:{ intros g _. unfold h. destruct (columns_partition size (rev (snd g)) cols C) as (cs & Ec & _). rewrite Ec. reflexivity. }
    eexists. split; [reflexivity|].
    assert (Hh : forall g, concat (snd (h g)) = rev (snd g) /\ Z.of_nat (length (snd (h g))) = cols /\ fst (h g) = fst g).
    { intro g. unfold h. destruct (columns_partition size (rev (snd g)) cols C) as (cs & Ec & Cc & Lc). rewrite Ec. simpl. auto. }
    destruct G as (_ & G2 & G3). split; [|split].
    - rewrite map_map. unfold ungroup in U. simpl in U. rewrite <- U. f_equal. apply map_ext. intro g. apply Hh.
    - rewrite Forall_forall. intros g' Hg'. apply in_map_iff in Hg'. destruct Hg' as (g0 & Eg & Ig). subst g'.
      destruct (Hh g0) as (H1 & H2 & H3). rewrite H1, H3. apply in_rev in Ig.
      rewrite Forall_forall in G2. destruct (G2 g0 Ig) as [Ga Gb]. split; [exact H2|]. split.
      + intro Q. apply Ga. apply (f_equal (@rev A)) in Q. rewrite rev_involutive in Q. exact Q.
      + rewrite Forall_forall in *. intros it Hit. apply Gb. apply in_rev. exact Hit.
    - rewrite map_map. replace (map (fun x => fst (h x)) (rev bs)) with (rev (map fst bs)).
      2:{ rewrite map_rev. f_equal. }
      apply adj_diff_rev. exact G3.
  Qed.
End GroupsTop.
