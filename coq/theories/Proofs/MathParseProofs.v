(* Proofs for C11, part 3: the parser Model (Model/MathParse.v) keeps every token -- the nodes it builds stand, blanks aside,
   for exactly the tokens it was given -- and, composed with part 2, parsing a formula, printing the nodes' source and
   tokenizing it again gives the author's tokens back. *)
From Coq Require Import List NArith ZArith Bool Arith Lia.
Import ListNotations.
From Verif Require Import Val Catcodes Tokenizer Lexer Verbatim Source Verb MathParse TokenizerProofs VerbatimProofs SourceProofs.
Local Open Scope N_scope.

Notation dcode := (which_code default_table).
Notation T := (flat_map (node_toks default_table)).
Notation S_ := strip_blanks.

Lemma S_app a b : S_ (a ++ b) = S_ a ++ S_ b.
Proof. apply filter_app. Qed.
Lemma S_cons t l : S_ (t :: l) = S_ [t] ++ S_ l.
Proof. change (t :: l) with ([t] ++ l). apply S_app. Qed.
Lemma T_app a b : T (a ++ b) = T a ++ T b.
Proof. apply flat_map_app. Qed.

(* ---- the scanner ---- *)
Lemma split_app up down stop : forall s lv a c b, split up down stop lv s = (a, c, b) -> s = a ++ otok c ++ b.
Proof.
  induction s as [|t r IH]; intros lv a c b H; cbn [split] in H.
  - inversion H; subst. reflexivity.
  - destruct (stop t && (lv =? 0)%nat).
    + inversion H; subst. reflexivity.
    + destruct (split up down stop (if up t then S lv else if down t then Nat.pred lv else lv) r) as [[a' c'] b'] eqn:E.
      inversion H; subst. cbn [app]. f_equal. eapply IH. eassumption.
Qed.

Lemma split_stop up down stop : forall s lv a b t, split up down stop lv s = (a, Some t, b) -> stop t = true.
Proof.
  induction s as [|x r IH]; intros lv a b t H; cbn [split] in H; [discriminate|].
  destruct (stop x && (lv =? 0)%nat) eqn:Es.
  - inversion H; subst. apply andb_prop in Es. tauto.
  - destruct (split up down stop (if up x then S lv else if down x then Nat.pred lv else lv) r) as [[a' c'] b'] eqn:E.
    inversion H; subst. eapply IH; eassumption.
Qed.

Lemma canon_app a b : forallb canon (a ++ b) = forallb canon a && forallb canon b.
Proof. apply forallb_app. Qed.

Lemma split_canon up down stop s lv a c b : split up down stop lv s = (a, c, b) -> forallb canon s = true ->
  forallb canon a = true /\ forallb canon (otok c) = true /\ forallb canon b = true.
Proof.
  intros H Hc. apply split_app in H. subst s. rewrite !canon_app in Hc. apply andb_prop in Hc. destruct Hc as [H1 H2].
  apply andb_prop in H2. tauto.
Qed.

Lemma skip_spaces_S s : S_ (skip_spaces s) = S_ s.
Proof.
  induction s as [|[k x] r IH]; [reflexivity|]. cbn [skip_spaces tcat]. destruct (k =? CC_SPACE) eqn:E; [|reflexivity].
  rewrite IH. rewrite (S_cons (Tok k x) r). unfold strip_blanks at 2. cbn [filter is_blank]. rewrite E. reflexivity.
Qed.
Lemma skip_spaces_canon s : forallb canon s = true -> forallb canon (skip_spaces s) = true.
Proof.
  induction s as [|t r IH]; intros H; [reflexivity|]. cbn [skip_spaces]. destruct (tcat t =? CC_SPACE); [|assumption].
  cbn [forallb] in H. apply andb_prop in H. now apply IH.
Qed.

(* ---- single tokens ---- *)
Lemma default_facts :
  dcode 92 = CC_ESCAPE /\ dcode 32 = CC_SPACE /\ dcode 123 = CC_BGROUP /\ dcode 125 = CC_EGROUP /\ dcode 36 = CC_MATH.
Proof. repeat split; reflexivity. Qed.

Lemma esc_name_toks txt : canon (Tok CC_ESCAPE txt) = true -> name_toks default_table txt = [Tok CC_ESCAPE txt].
Proof.
  unfold canon, name_toks. cbn [N.eqb CC_ESCAPE]. destruct (active_char txt) as [c|] eqn:E; [|reflexivity].
  intros H. apply N.eqb_eq in H. apply active_char_some in E. subst txt. unfold char_toks. rewrite H. reflexivity.
Qed.

Lemma char_canon k c : k <> CC_ESCAPE -> canon (Tok k [c]) = true ->
  k = dcode c /\ In k [1; 2; 3; 4; 6; 7; 8; 10; 11; 12] /\ char_toks default_table c = S_ [Tok k [c]].
Proof.
  intros Hk H. unfold canon in H. replace (k =? CC_ESCAPE) with false in H by (symmetry; now apply N.eqb_neq).
  repeat (apply andb_prop in H; destruct H as [H ?]). apply N.eqb_eq in H. subst k. split; [reflexivity|].
  assert (Hin : In (dcode c) [1; 2; 3; 4; 6; 7; 8; 10; 11; 12]) by now apply in_cats_cases.
  split; [assumption|]. unfold char_toks, strip_blanks. cbn [filter is_blank].
  cbn [In] in Hin. repeat (destruct Hin as [Hin|Hin]); try contradiction; rewrite <- Hin; reflexivity.
Qed.

Lemma canon_shape t : canon t = true -> tcat t = CC_ESCAPE \/ (tcat t <> CC_ESCAPE /\ ttext t = [tchar t]).
Proof.
  destruct t as [k txt]. cbn [tcat ttext tchar]. unfold canon. destruct (k =? CC_ESCAPE) eqn:E.
  - left. now apply N.eqb_eq.
  - intros H. right. split; [now apply N.eqb_neq|]. destruct txt as [|c [|]]; try discriminate. reflexivity.
Qed.

Lemma raw_node_toks t : canon t = true -> node_toks default_table (raw_node t) = S_ [t].
Proof.
  destruct t as [k txt]. intros H. unfold raw_node. cbn [tcat ttext tchar]. destruct (k =? CC_ESCAPE) eqn:E.
  - apply N.eqb_eq in E. subst k. cbn [node_toks]. now apply esc_name_toks.
  - apply N.eqb_neq in E. assert (Hs : exists c, txt = [c]).
    { unfold canon in H. replace (k =? CC_ESCAPE) with false in H by (symmetry; now apply N.eqb_neq).
      destruct txt as [|c [|]]; try discriminate. now exists c. }
    destruct Hs as (c & ->). change (char_toks default_table c = S_ [Tok k [c]]). now destruct (char_canon k c E H) as (_ & _ & ->).
Qed.

Lemma raw_nodes_toks l : forallb canon l = true -> T (map raw_node l) = S_ l.
Proof.
  induction l as [|t l IH]; intros H; [reflexivity|]. cbn [forallb] in H. apply andb_prop in H. destruct H as [Ht Hl].
  cbn [map flat_map]. rewrite (raw_node_toks t Ht), (IH Hl). symmetry. apply S_cons.
Qed.

(* a token of a given category is that token *)
Lemma cat_tok k c t : canon t = true -> tcat t = k -> k <> CC_ESCAPE -> k <> CC_SPACE ->
  (forall x, canon (Tok k [x]) = true -> x = c) -> t = Tok k [c] /\ S_ [t] = [Tok k [c]].
Proof.
  destruct t as [k' txt]. cbn [tcat]. intros H -> Hne Hns Hc.
  assert (Hs : exists x, txt = [x]).
  { unfold canon in H. replace (k =? CC_ESCAPE) with false in H by (symmetry; now apply N.eqb_neq).
    destruct txt as [|x [|]]; try discriminate. now exists x. }
  destruct Hs as (x & ->). rewrite (Hc x H). split; [reflexivity|]. unfold strip_blanks. cbn [filter is_blank].
  replace (k =? CC_SPACE) with false by (symmetry; now apply N.eqb_neq). reflexivity.
Qed.

Lemma canon_lb x : canon (Tok CC_BGROUP [x]) = true -> x = 123.
Proof. unfold canon. cbn [N.eqb CC_BGROUP CC_ESCAPE Pos.eqb]. intros H. repeat (apply andb_prop in H; destruct H as [H ?]).
  match goal with H : implb true (x =? 123) = true |- _ => cbn in H; now apply N.eqb_eq end. Qed.
Lemma canon_rb x : canon (Tok CC_EGROUP [x]) = true -> x = 125.
Proof. unfold canon. cbn [N.eqb CC_EGROUP CC_ESCAPE Pos.eqb]. intros H. repeat (apply andb_prop in H; destruct H as [H ?]).
  match goal with H : implb true (x =? 125) = true |- _ => cbn in H; now apply N.eqb_eq end. Qed.
Lemma canon_math x : canon (Tok CC_MATH [x]) = true -> x = 36.
Proof. unfold canon. cbn [N.eqb CC_MATH CC_ESCAPE Pos.eqb]. intros H. repeat (apply andb_prop in H; destruct H as [H ?]).
  match goal with H : implb true (x =? 36) = true |- _ => cbn in H; now apply N.eqb_eq end. Qed.

Lemma esc_tok name t : is_esc name t = true -> t = Tok CC_ESCAPE name.
Proof.
  destruct t as [k txt]. unfold is_esc. cbn [tcat ttext]. intros H. apply andb_prop in H. destruct H as [H1 H2].
  apply N.eqb_eq in H1. apply nlist_eqb_true in H2. now subst.
Qed.

(* ---- arguments ---- *)
Definition PH (P : bool -> list tok -> option (list node * bool)) : Prop :=
  forall mm s ns, forallb canon s = true -> P mm s = Some (ns, true) -> T ns = S_ s.

Lemma group_piece P mm t r inner c rest ns : PH P -> forallb canon (t :: r) = true -> r = inner ++ otok c ++ rest ->
  P mm inner = Some (ns, true) ->
  T (raw_node t :: ns ++ map raw_node (otok c)) ++ S_ rest = S_ (t :: r) /\ forallb canon rest = true.
Proof.
  intros HP Hc -> Hin. cbn [forallb] in Hc. apply andb_prop in Hc. destruct Hc as [Ht Hr].
  rewrite !canon_app in Hr. apply andb_prop in Hr. destruct Hr as [Hi Hr]. apply andb_prop in Hr. destruct Hr as [Hcl Hrest].
  split; [|assumption]. cbn [flat_map]. rewrite T_app. rewrite (raw_node_toks t Ht), (HP mm inner ns Hi Hin), (raw_nodes_toks _ Hcl).
  rewrite (S_cons t (inner ++ otok c ++ rest)). rewrite !S_app. now rewrite <- !app_assoc.
Qed.

Lemma andb3 a b : a && b = true -> a = true /\ b = true.
Proof. apply andb_prop. Qed.

Lemma read_arg_spec P a mm s pcs content rest : PH P -> forallb canon s = true ->
  read_arg P a mm s = Some (pcs, content, rest, true) -> T pcs ++ S_ rest = S_ s /\ forallb canon rest = true.
Proof.
  intros HP Hc0 H. unfold read_arg in H. rewrite <- (skip_spaces_S s). pose proof (skip_spaces_canon s Hc0) as Hc.
  destruct (skip_spaces s) as [|t r] eqn:Es.
  { destruct a; inversion H; subst; split; reflexivity. }
  assert (Ht : canon t = true) by (cbn [forallb] in Hc; apply andb_prop in Hc; tauto).
  assert (Hr : forallb canon r = true) by (cbn [forallb] in Hc; apply andb_prop in Hc; tauto).
  destruct a.
  - (* star *)
    destruct (nlist_eqb (ttext t) [42]); injection H as <- <- <-.
    + split; [|assumption]. cbn [flat_map]. rewrite (raw_node_toks t Ht). rewrite app_nil_r. symmetry. apply S_cons.
    + split; [reflexivity | assumption].
  - (* optional bracket *)
    destruct (is_chr 91 t).
    + destruct (split_bracket r) as [[inner c] rest'] eqn:E. destruct (P mm inner) as [[ns ok]|] eqn:EP; [|discriminate].
      injection H as <- <- <- Hok. apply andb3 in Hok. destruct Hok as [-> _]. apply split_app in E.
      exact (group_piece P mm t r inner c rest' ns HP Hc E EP).
    + injection H as <- <- <-. split; [reflexivity | assumption].
  - (* one token or group, expanded *)
    destruct (tcat t =? CC_BGROUP).
    + destruct (split_group r) as [[inner c] rest'] eqn:E. destruct (P mm inner) as [[ns ok]|] eqn:EP; [|discriminate].
      injection H as <- <- <- Hok. apply andb3 in Hok. destruct Hok as [-> _]. apply split_app in E.
      exact (group_piece P mm t r inner c rest' ns HP Hc E EP).
    + destruct (P mm [t]) as [[ns ok]|] eqn:EP; [|discriminate]. injection H as <- <- <- Hok. apply andb3 in Hok. destruct Hok as [-> _].
      split; [|assumption]. rewrite (HP mm [t] _ ltac:(cbn; now rewrite Ht) EP). symmetry. apply S_cons.
  - destruct (tcat t =? CC_BGROUP).
    + destruct (split_group r) as [[inner c] rest'] eqn:E. destruct (P mm inner) as [[ns ok]|] eqn:EP; [|discriminate].
      injection H as <- <- <- Hok. apply andb3 in Hok. destruct Hok as [-> _]. apply split_app in E.
      exact (group_piece P mm t r inner c rest' ns HP Hc E EP).
    + destruct (P mm [t]) as [[ns ok]|] eqn:EP; [|discriminate]. injection H as <- <- <- Hok. apply andb3 in Hok. destruct Hok as [-> _].
      split; [|assumption]. rewrite (HP mm [t] _ ltac:(cbn; now rewrite Ht) EP). symmetry. apply S_cons.
  - (* not expanded *)
    destruct (tcat t =? CC_BGROUP).
    + destruct (split_group r) as [[inner c] rest'] eqn:E. injection H as <- <- <- Hok. apply split_app in E. subst r.
      rewrite !canon_app in Hr. apply andb_prop in Hr. destruct Hr as [Hi Hr]. apply andb_prop in Hr. destruct Hr as [Hcl Hrest].
      split; [|assumption]. cbn [flat_map]. rewrite T_app. rewrite (raw_node_toks t Ht), !raw_nodes_toks by assumption.
      rewrite (S_cons t (inner ++ otok c ++ rest')). rewrite !S_app. now rewrite <- !app_assoc.
    + injection H as <- <- <- Hok. split; [|assumption]. cbn [flat_map]. rewrite (raw_node_toks t Ht). rewrite app_nil_r. symmetry. apply S_cons.
Qed.

Lemma read_args_spec P : PH P -> forall l mm s pcs kids self rest, forallb canon s = true ->
  read_args P l mm s = Some (pcs, kids, self, rest, true) ->
  T pcs ++ S_ rest = S_ s /\ forallb canon rest = true /\ (self = false -> kids = []).
Proof.
  intros HP. induction l as [|a l IH]; intros mm s pcs kids self rest Hc H; cbn [read_args] in H.
  - inversion H; subst. repeat split; assumption.
  - destruct (read_arg P a mm s) as [[[[p1 c1] r1] ok1]|] eqn:E1; [|discriminate].
    destruct (read_args P l mm r1) as [[[[[p2 k2] s2] r2] ok2]|] eqn:E2; [|discriminate].
    injection H as <- <- <- <- Hok. apply andb3 in Hok. destruct Hok as [-> ->].
    destruct (read_arg_spec P a mm s p1 c1 r1 HP Hc E1) as (A1 & C1).
    destruct (IH mm r1 p2 k2 s2 r2 C1 E2) as (A2 & C2 & K2).
    split; [|split; [assumption|]].
    + rewrite T_app, <- app_assoc, A2. exact A1.
    + intros Hs. apply orb_false_elim in Hs. destruct Hs as [Ha Hs2]. rewrite (K2 Hs2). destruct a; try discriminate; reflexivity.
Qed.

(* ---- the parser keeps every token ---- *)
Lemma group_toks e body : e = true ->
  node_toks default_table (NGroup e body) = [Tok CC_BGROUP [123]] ++ T body ++ [Tok CC_EGROUP [125]].
Proof. intros ->. cbn [node_toks]. destruct body; reflexivity. Qed.
Lemma math_toks body : is_nil body = false ->
  node_toks default_table (NMath body) = [Tok CC_MATH [36]] ++ T body ++ [Tok CC_MATH [36]].
Proof. intros H. cbn [node_toks]. rewrite H. reflexivity. Qed.
Lemma display_toks body : is_nil body = false ->
  node_toks default_table (NDisplay MNone body) = [Tok CC_ESCAPE [91]] ++ T body ++ [Tok CC_ESCAPE [93]].
Proof. intros H. cbn [node_toks]. rewrite H. reflexivity. Qed.

Lemma S_esc name : S_ [Tok CC_ESCAPE name] = [Tok CC_ESCAPE name].
Proof. reflexivity. Qed.

Lemma env_name_toks nm : forallb canon nm = true -> env_name_ok nm = true -> chars_toks default_table (map tchar nm) = S_ nm.
Proof.
  induction nm as [|t nm IH]; intros Hc Hn; [reflexivity|].
  cbn [forallb env_name_ok] in *. apply andb_prop in Hc. destruct Hc as [Ht Hc]. apply andb_prop in Hn. destruct Hn as [Hn1 Hn].
  apply andb_prop in Hn1. destruct Hn1 as [Hk Htx]. apply nlist_eqb_true in Htx.
  destruct t as [k txt]. cbn [tcat ttext tchar] in *.
  destruct txt as [|c [|? ?]]; cbn [hd] in Htx; try discriminate Htx.
  assert (Hne : k <> CC_ESCAPE). { intros ->. cbn in Hk. discriminate. }
  cbn [map tchar ttext hd]. unfold chars_toks in *. cbn [flat_map]. rewrite (IH Hc Hn). rewrite (S_cons (Tok k [c]) nm). f_equal.
  now destruct (char_canon k c Hne Ht) as (_ & _ & ->).
Qed.

Lemma closer_tok k c (o : option tok) s lv up down a b :
  split up down (is_cat k) lv s = (a, o, b) -> is_some o = true -> forallb canon (otok o) = true ->
  k <> CC_ESCAPE -> k <> CC_SPACE -> (forall x, canon (Tok k [x]) = true -> x = c) -> S_ (otok o) = [Tok k [c]].
Proof.
  intros E Ho Hc Hne Hns Hx. destruct o as [ct|]; [|discriminate]. apply split_stop in E. unfold is_cat in E. apply N.eqb_eq in E.
  cbn [otok forallb] in *. rewrite andb_true_r in Hc. now destruct (cat_tok k c ct Hc E Hne Hns Hx) as (_ & ->).
Qed.

Lemma active_name_toks c k : k <> CC_ESCAPE -> canon (Tok k [c]) = true -> k <> CC_SPACE ->
  name_toks default_table (active_prefix ++ [c]) = S_ [Tok k [c]].
Proof.
  intros Hne Hc Hns. unfold name_toks. replace (active_char (active_prefix ++ [c])) with (Some c) by reflexivity.
  now destruct (char_canon k c Hne Hc) as (_ & _ & ->).
Qed.

Lemma tok_eta t : tcat t <> CC_ESCAPE -> canon t = true -> t = Tok (tcat t) [tchar t].
Proof.
  destruct t as [k txt]. cbn [tcat tchar ttext]. intros Hne H. unfold canon in H.
  replace (k =? CC_ESCAPE) with false in H by (symmetry; now apply N.eqb_neq). destruct txt as [|c [|]]; try discriminate. reflexivity.
Qed.

Lemma parse_spec : forall fuel, PH (parse fuel).
Proof.
  induction fuel as [|f IH]; intros mm s ns Hc H; [discriminate|].
  cbn [parse] in H. destruct s as [|t r]; [injection H as <-; reflexivity|].
  assert (Ht : canon t = true) by (cbn [forallb] in Hc; apply andb_prop in Hc; tauto).
  assert (Hr : forallb canon r = true) by (cbn [forallb] in Hc; apply andb_prop in Hc; tauto).
  assert (Hcont : forall n ok rest ns',
            match parse f mm rest with Some (ns0, ok') => Some (n :: ns0, ok && ok') | None => None end = Some (ns', true) ->
            forallb canon rest = true -> exists ns0, ns' = n :: ns0 /\ ok = true /\ T ns0 = S_ rest).
  { intros n ok rest ns' Hm Hcr. destruct (parse f mm rest) as [[ns0 ok']|] eqn:E; [|discriminate].
    injection Hm as <- Hok. apply andb3 in Hok. destruct Hok as [-> ->]. exists ns0. repeat split. eapply IH; eauto. }
  rewrite (S_cons t r).
  destruct (tcat t =? CC_BGROUP) eqn:Ek1.
  { (* a group *)
    apply N.eqb_eq in Ek1. destruct (split_group r) as [[inner c] rest] eqn:E.
    destruct (split_canon _ _ _ _ _ _ _ _ E Hr) as (Hci & Hcc & Hcr). pose proof (split_app _ _ _ _ _ _ _ _ E) as Er.
    destruct (parse f mm inner) as [[body ok]|] eqn:EP; [|discriminate].
    destruct (Hcont _ _ _ _ H Hcr) as (ns0 & -> & Hok & Hrest). apply andb3 in Hok. destruct Hok as [-> Hsc].
    cbn [flat_map]. rewrite (group_toks _ body Hsc), (IH mm inner body Hci EP), Hrest.
    destruct (cat_tok CC_BGROUP 123 t Ht Ek1 ltac:(discriminate) ltac:(discriminate) canon_lb) as (_ & ->).
    rewrite Er, !S_app. rewrite (closer_tok CC_EGROUP 125 c _ _ _ _ _ _ E Hsc Hcc ltac:(discriminate) ltac:(discriminate) canon_rb).
    now rewrite <- !app_assoc. }
  destruct (tcat t =? CC_MATH) eqn:Ek3.
  { (* a formula *)
    apply N.eqb_eq in Ek3. destruct (split_math r) as [[inner c] rest] eqn:E.
    destruct (split_canon _ _ _ _ _ _ _ _ E Hr) as (Hci & Hcc & Hcr). pose proof (split_app _ _ _ _ _ _ _ _ E) as Er.
    destruct (parse f true inner) as [[body ok]|] eqn:EP; [|discriminate].
    destruct (Hcont _ _ _ _ H Hcr) as (ns0 & -> & Hok & Hrest). apply andb3 in Hok. destruct Hok as [Hok Hnil].
    apply andb3 in Hok. destruct Hok as [-> Hsc]. apply negb_true_iff in Hnil.
    cbn [flat_map]. rewrite (math_toks body Hnil), (IH true inner body Hci EP), Hrest.
    destruct (cat_tok CC_MATH 36 t Ht Ek3 ltac:(discriminate) ltac:(discriminate) canon_math) as (_ & ->).
    rewrite Er, !S_app. rewrite (closer_tok CC_MATH 36 c _ _ _ _ _ _ E Hsc Hcc ltac:(discriminate) ltac:(discriminate) canon_math).
    now rewrite <- !app_assoc. }
  destruct (tcat t =? CC_ESCAPE) eqn:Ek0.
  { apply N.eqb_eq in Ek0. destruct t as [k name]. cbn [tcat ttext] in *. subst k.
    destruct (nlist_eqb name s_begin) eqn:Eb.
    { (* an environment *)
      apply nlist_eqb_true in Eb. subst name. rewrite <- (skip_spaces_S r). pose proof (skip_spaces_canon r Hr) as Hcs.
      destruct (skip_spaces r) as [|b r1]; [injection H; intros; discriminate|].
      assert (Hb : canon b = true) by (cbn [forallb] in Hcs; apply andb_prop in Hcs; tauto).
      assert (Hr1 : forallb canon r1 = true) by (cbn [forallb] in Hcs; apply andb_prop in Hcs; tauto).
      destruct (tcat b =? CC_BGROUP) eqn:Ebg.
      2:{ destruct (Hcont _ _ _ _ H Hcs) as (ns0 & _ & Hf & _). discriminate. }
      apply N.eqb_eq in Ebg. destruct (split_group r1) as [[nm c] r2] eqn:E1.
      destruct (split_canon _ _ _ _ _ _ _ _ E1 Hr1) as (Hcnm & Hcc & Hcr2). pose proof (split_app _ _ _ _ _ _ _ _ E1) as Er1.
      set (ename := map tchar nm) in *.
      set (mm' := match elookup ename esigs with Some e0 => match e_math e0 with Some m => m | None => mm end | None => mm end) in *.
      destruct (read_args (parse f) _ mm' r2) as [[[[[pcs k0] s0] r3] okA]|] eqn:EA; [|discriminate].
      destruct (split_env r3) as [[inner e] r4] eqn:E2.
      destruct (skip_spaces r4) as [|b2 r5] eqn:Esk2.
      { destruct (parse f mm' inner) as [[body okB]|]; [injection H; intros; discriminate | discriminate]. }
      destruct (split_group r5) as [[nm2 c2] r6] eqn:E3.
      destruct (parse f mm' inner) as [[body okB]|] eqn:EB; [|discriminate].
      (* everything that can be true is true *)
      assert (HokA : okA = true).
      { destruct (parse f mm r6) as [[x y]|]; [|discriminate]. injection H as _ Hok. destruct okA; [reflexivity|discriminate]. }
      subst okA. destruct (read_args_spec (parse f) IH _ mm' r2 pcs k0 s0 r3 Hcr2 EA) as (EAs & Hcr3 & _).
      destruct (split_canon _ _ _ _ _ _ _ _ E2 Hcr3) as (Hcin & Hce & Hcr4). pose proof (split_app _ _ _ _ _ _ _ _ E2) as Er3.
      pose proof (skip_spaces_canon r4 Hcr4) as Hcs4. rewrite Esk2 in Hcs4.
      assert (Hb2 : canon b2 = true) by (cbn [forallb] in Hcs4; apply andb_prop in Hcs4; tauto).
      assert (Hr5 : forallb canon r5 = true) by (cbn [forallb] in Hcs4; apply andb_prop in Hcs4; tauto).
      destruct (split_canon _ _ _ _ _ _ _ _ E3 Hr5) as (Hcnm2 & Hcc2 & Hcr6). pose proof (split_app _ _ _ _ _ _ _ _ E3) as Er5.
      destruct (Hcont _ _ _ _ H Hcr6) as (ns0 & -> & Hok & Hrest).
      repeat (apply andb3 in Hok; let X := fresh "Hk" in destruct Hok as [Hok X]). subst okB.
      (* name the facts *)
      apply negb_true_iff in Hk1. apply nlist_eqb_true in Hk3. apply N.eqb_eq in Hk5.
      cbn [flat_map]. cbn [node_toks]. rewrite Hk1. unfold t_begin, t_end.
      assert (En1 : chars_toks default_table ename = S_ nm) by (apply env_name_toks; assumption).
      assert (En2 : chars_toks default_table ename = S_ nm2). { rewrite <- Hk3. now apply env_name_toks. }
      rewrite (IH mm' inner body Hcin EB), Hrest.
      destruct (cat_tok CC_BGROUP 123 b Hb Ebg ltac:(discriminate) ltac:(discriminate) canon_lb) as (_ & Sb).
      destruct (cat_tok CC_BGROUP 123 b2 Hb2 Hk5 ltac:(discriminate) ltac:(discriminate) canon_lb) as (_ & Sb2).
      pose proof (closer_tok CC_EGROUP 125 c _ _ _ _ _ _ E1 Hk8 Hcc ltac:(discriminate) ltac:(discriminate) canon_rb) as Sc.
      pose proof (closer_tok CC_EGROUP 125 c2 _ _ _ _ _ _ E3 Hk6 Hcc2 ltac:(discriminate) ltac:(discriminate) canon_rb) as Sc2.
      assert (Se : S_ (otok e) = [Tok CC_ESCAPE s_end]).
      { destruct e as [ee|]; [|discriminate Hk7]. apply split_stop in E2. apply esc_tok in E2. subst ee. reflexivity. }
      rewrite (S_cons b r1), Sb, Er1, !S_app, Sc, <- En1, <- EAs, Er3, !S_app, Se, <- (skip_spaces_S r4), Esk2, (S_cons b2 r5), Sb2, Er5, !S_app, Sc2, <- En2.
      rewrite S_esc. repeat (progress (cbn [app]; rewrite <- ?app_assoc)). reflexivity. }
    destruct (nlist_eqb name [91]) eqn:Ed.
    { (* \[ ... \] *)
      apply nlist_eqb_true in Ed. subst name. destruct (split_display r) as [[inner c] rest] eqn:E.
      destruct (split_canon _ _ _ _ _ _ _ _ E Hr) as (Hci & Hcc & Hcr). pose proof (split_app _ _ _ _ _ _ _ _ E) as Er.
      destruct (parse f true inner) as [[body ok]|] eqn:EP; [|discriminate].
      destruct (Hcont _ _ _ _ H Hcr) as (ns0 & -> & Hok & Hrest). apply andb3 in Hok. destruct Hok as [Hok Hnil].
      apply andb3 in Hok. destruct Hok as [-> Hsc]. apply negb_true_iff in Hnil.
      cbn [flat_map]. rewrite (display_toks body Hnil), (IH true inner body Hci EP), Hrest.
      assert (Se : S_ (otok c) = [Tok CC_ESCAPE [93]]).
      { destruct c as [ee|]; [|discriminate Hsc]. apply split_stop in E. apply esc_tok in E. subst ee. reflexivity. }
      rewrite Er, !S_app, Se. now rewrite <- !app_assoc. }
    (* a command *)
    destruct (read_args (parse f) _ _ r) as [[[[[pcs kids] self] rest] ok]|] eqn:EA; [|discriminate].
    assert (Hok1 : ok = true).
    { destruct (parse f mm rest) as [[x y]|]; [|discriminate]. injection H as _ Hok. destruct ok; [reflexivity|discriminate]. }
    subst ok. destruct (read_args_spec (parse f) IH _ _ r pcs kids self rest Hr EA) as (EAs & Hcr & Hself).
    destruct (Hcont _ _ _ _ H Hcr) as (ns0 & -> & _ & Hrest).
    cbn [flat_map node_toks]. rewrite (esc_name_toks name Ht), Hrest, <- EAs.
    destruct self; [now rewrite <- !app_assoc|]. rewrite (Hself eq_refl). cbn [flat_map]. now rewrite <- !app_assoc. }
  apply N.eqb_neq in Ek0.
  destruct (((tcat t =? CC_SUPER) || (tcat t =? CC_SUB)) && mm) eqn:Ess.
  { (* a script in math mode *)
    destruct (read_args (parse f) [ASelf] mm r) as [[[[[pcs kids] self] rest] ok]|] eqn:EA; [|discriminate].
    assert (Hok1 : ok = true).
    { destruct (parse f mm rest) as [[x y]|]; [|discriminate]. injection H as _ Hok. destruct ok; [reflexivity|discriminate]. }
    subst ok. destruct (read_args_spec (parse f) IH _ _ r pcs kids self rest Hr EA) as (EAs & Hcr & Hself).
    destruct (Hcont _ _ _ _ H Hcr) as (ns0 & -> & _ & Hrest).
    assert (Hsp : tcat t <> CC_SPACE).
    { apply andb3 in Ess. destruct Ess as [Ess _]. apply orb_prop in Ess. destruct Ess as [E|E]; apply N.eqb_eq in E; rewrite E; discriminate. }
    assert (Hcan : canon (Tok (tcat t) [tchar t]) = true) by (rewrite <- (tok_eta t Ek0 Ht); exact Ht).
    pose proof (active_name_toks (tchar t) (tcat t) Ek0 Hcan Hsp) as En. rewrite <- (tok_eta t Ek0 Ht) in En.
    cbn [flat_map node_toks]. rewrite En, Hrest, <- EAs. destruct self; [now rewrite <- !app_assoc|]. rewrite (Hself eq_refl). cbn [flat_map]. now rewrite <- !app_assoc. }
  destruct (tcat t =? CC_ALIGN) eqn:Eal.
  { apply N.eqb_eq in Eal. destruct (Hcont _ _ _ _ H Hr) as (ns0 & -> & _ & Hrest).
    assert (Hcan : canon (Tok (tcat t) [tchar t]) = true) by (rewrite <- (tok_eta t Ek0 Ht); exact Ht).
    assert (Hsp : tcat t <> CC_SPACE) by (rewrite Eal; discriminate).
    pose proof (active_name_toks (tchar t) (tcat t) Ek0 Hcan Hsp) as En. rewrite <- (tok_eta t Ek0 Ht) in En.
    cbn [flat_map node_toks]. rewrite En, Hrest. cbn [flat_map app]. now rewrite !app_nil_r. }
  destruct (Hcont _ _ _ _ H Hr) as (ns0 & -> & _ & Hrest).
  cbn [flat_map]. rewrite Hrest. f_equal. rewrite <- (raw_node_toks t Ht).
  unfold raw_node. replace (tcat t =? CC_ESCAPE) with false by (symmetry; now apply N.eqb_neq). reflexivity.
Qed.

(* ---- end to end: parse, print, tokenize again ---- *)
Theorem formula_roundtrip (mm : bool) (ts : list tok) (nodes : list node) :
  forallb canon ts = true -> parse_formula mm ts = Some (nodes, true) -> forallb (wf default_table) nodes = true ->
  T nodes = S_ ts /\
  exists l, tokenize default_table (src_list nodes) = RToks l /\ S_ l = S_ ts.
Proof.
  intros Hc Hp Hw. pose proof (parse_spec _ mm ts nodes Hc Hp) as HT. split; [assumption|].
  destruct (print_tokenize_list nodes Hw) as (l & Hl & E). exists l. split; [assumption|]. now rewrite E.
Qed.

Theorem parse_keeps_tokens (fuel : nat) (mm : bool) (ts : list tok) (nodes : list node) :
  forallb canon ts = true -> parse fuel mm ts = Some (nodes, true) -> T nodes = S_ ts.
Proof. intros Hc Hp. exact (parse_spec fuel mm ts nodes Hc Hp). Qed.

(* non-vacuity:  $x^{2}_\alpha\frac ab\left(\text{a $y$}\right]\begin{array}{c}1&2\\ 3\end{array}$  as characters *)
Definition example_formula : list N :=
  [36;120;94;123;50;125;95;92;97;108;112;104;97;32;92;102;114;97;99;32;97;98;92;108;101;102;116;40;
   92;116;101;120;116;123;97;32;36;121;36;125;92;114;105;103;104;116;93;
   92;98;101;103;105;110;123;97;114;114;97;121;125;123;99;125;49;38;50;92;92;32;51;92;101;110;100;123;97;114;114;97;121;125;36].
Example formula_example :
  exists ts nodes, tokenize default_table example_formula = RToks ts /\ forallb canon ts = true /\
    parse_formula false ts = Some (nodes, true) /\ forallb (wf default_table) nodes = true /\ (length nodes = 1)%nat.
Proof. eexists. eexists. vm_compute. repeat split. Qed.

(* ---- termination ---- *)
(* the fuel parse_formula gives itself always suffices *)
Lemma split_len up down stop s lv a c b : split up down stop lv s = (a, c, b) ->
  (length a <= length s /\ length b <= length s)%nat.
Proof. intros H. apply split_app in H. subst s. rewrite !app_length. lia. Qed.

Lemma skip_spaces_len s : (length (skip_spaces s) <= length s)%nat.
Proof. induction s as [|t r IH]; [cbn; lia|]. cbn [skip_spaces]. destruct (tcat t =? CC_SPACE); cbn [length]; lia. Qed.

Definition PT (P : bool -> list tok -> option (list node * bool)) (n : nat) : Prop :=
  forall mm s, (length s <= n)%nat -> exists r, P mm s = Some r.

Lemma read_arg_total P n a mm s : PT P n -> (length s <= n)%nat -> (1 <= n)%nat ->
  exists pcs content rest ok, read_arg P a mm s = Some (pcs, content, rest, ok) /\ (length rest <= length s)%nat.
Proof.
  intros HP Hs Hn. unfold read_arg. pose proof (skip_spaces_len s) as Hk. destruct (skip_spaces s) as [|t r] eqn:E.
  { destruct a; repeat eexists; cbn; lia. }
  cbn [length] in Hk.
  assert (Hg : forall (sp : list tok -> list tok * option tok * list tok) up down stop lv,
            sp = split up down stop lv ->
            exists pcs content rest ok,
              (let '(inner, c, rest) := sp r in
               match P mm inner with
               | Some (ns, ok) => Some (raw_node t :: ns ++ map raw_node (otok c), ns, rest, ok && is_some c)
               | None => None
               end) = Some (pcs, content, rest, ok) /\ (length rest <= length s)%nat).
  { intros sp up down stop lv ->. destruct (split up down stop lv r) as [[inner c] rest] eqn:Es.
    destruct (split_len _ _ _ _ _ _ _ _ Es) as (Hi & Hr). destruct (HP mm inner ltac:(lia)) as ([ns ok] & ->).
    repeat eexists. lia. }
  destruct a.
  - destruct (nlist_eqb (ttext t) [42]); repeat eexists; cbn [length]; lia.
  - destruct (is_chr 91 t); [exact (Hg _ _ _ _ _ eq_refl)|]. repeat eexists. cbn [length]; lia.
  - destruct (tcat t =? CC_BGROUP); [exact (Hg _ _ _ _ _ eq_refl)|].
    destruct (HP mm [t] ltac:(cbn; lia)) as ([ns ok] & ->). repeat eexists. lia.
  - destruct (tcat t =? CC_BGROUP); [exact (Hg _ _ _ _ _ eq_refl)|].
    destruct (HP mm [t] ltac:(cbn; lia)) as ([ns ok] & ->). repeat eexists. lia.
  - destruct (tcat t =? CC_BGROUP).
    + destruct (split_group r) as [[inner c] rest] eqn:Es. destruct (split_len _ _ _ _ _ _ _ _ Es) as (Hi & Hr).
      repeat eexists. lia.
    + repeat eexists. lia.
Qed.

Lemma read_args_total P n : PT P n -> (1 <= n)%nat -> forall l mm s, (length s <= n)%nat ->
  exists pcs kids self rest ok, read_args P l mm s = Some (pcs, kids, self, rest, ok) /\ (length rest <= length s)%nat.
Proof.
  intros HP Hn. induction l as [|a l IH]; intros mm s Hs; cbn [read_args].
  - repeat eexists. lia.
  - destruct (read_arg_total P n a mm s HP Hs Hn) as (p1 & c1 & r1 & o1 & -> & L1).
    destruct (IH mm r1 ltac:(lia)) as (p2 & k2 & s2 & r2 & o2 & -> & L2). repeat eexists. lia.
Qed.

Lemma parse_total : forall f mm s, (length s <= f)%nat -> exists r, parse (S f) mm s = Some r.
Proof.
  induction f as [|f IH]; intros mm s Hs.
  { destruct s; [eexists; reflexivity | cbn in Hs; lia]. }
  destruct s as [|t r]; [eexists; reflexivity|]. cbn [length] in Hs.
  assert (HP : PT (parse (S f)) f) by (intros m x Hx; now apply IH).
  assert (Hcont : forall n ok rest, (length rest <= length r)%nat ->
            exists x, match parse (S f) mm rest with Some (ns, ok') => Some (n :: ns, ok && ok') | None => None end = Some x).
  { intros n ok rest Hl. destruct (IH mm rest ltac:(lia)) as ([ns ok'] & ->). eexists. reflexivity. }
  remember (S f) as f1 eqn:Ef1. cbn [parse]. subst f1.
  destruct (tcat t =? CC_BGROUP).
  { destruct (split_group r) as [[inner c] rest] eqn:E. destruct (split_len _ _ _ _ _ _ _ _ E) as (Hi & Hr).
    destruct (IH mm inner ltac:(lia)) as ([body ok] & ->). now apply Hcont. }
  destruct (tcat t =? CC_MATH).
  { destruct (split_math r) as [[inner c] rest] eqn:E. destruct (split_len _ _ _ _ _ _ _ _ E) as (Hi & Hr).
    destruct (IH true inner ltac:(lia)) as ([body ok] & ->). now apply Hcont. }
  destruct (tcat t =? CC_ESCAPE).
  { destruct (nlist_eqb (ttext t) s_begin).
    { pose proof (skip_spaces_len r) as Hk. destruct (skip_spaces r) as [|b r1] eqn:Es; [eexists; reflexivity|]. cbn [length] in Hk.
      destruct (tcat b =? CC_BGROUP); [|apply Hcont; cbn [length]; lia].
      destruct (split_group r1) as [[nm c] r2] eqn:E1. destruct (split_len _ _ _ _ _ _ _ _ E1) as (_ & L2).
      destruct f as [|f0]; [cbn in *; lia|].
      destruct (read_args_total (parse (S (S f0))) (S f0) HP ltac:(lia) (match elookup (map tchar nm) esigs with Some e => e_args e | None => [] end)
                  (match elookup (map tchar nm) esigs with Some e0 => match e_math e0 with Some m => m | None => mm end | None => mm end) r2 ltac:(lia))
        as (pcs & k0 & s0 & r3 & okA & -> & L3).
      destruct (split_env r3) as [[inner e] r4] eqn:E2. destruct (split_len _ _ _ _ _ _ _ _ E2) as (Li & L4).
      pose proof (skip_spaces_len r4) as Hk4. destruct (skip_spaces r4) as [|b2 r5] eqn:Es4.
      { destruct (IH (match elookup (map tchar nm) esigs with Some e0 => match e_math e0 with Some m => m | None => mm end | None => mm end) inner ltac:(lia)) as ([body okB] & ->). eexists. reflexivity. }
      cbn [length] in Hk4. destruct (split_group r5) as [[nm2 c2] r6] eqn:E3. destruct (split_len _ _ _ _ _ _ _ _ E3) as (_ & L6).
      destruct (IH (match elookup (map tchar nm) esigs with Some e0 => match e_math e0 with Some m => m | None => mm end | None => mm end) inner ltac:(lia)) as ([body okB] & ->).
      apply Hcont. lia. }
    destruct (nlist_eqb (ttext t) [91]).
    { destruct (split_display r) as [[inner c] rest] eqn:E. destruct (split_len _ _ _ _ _ _ _ _ E) as (Hi & Hr).
      destruct (IH true inner ltac:(lia)) as ([body ok] & ->). now apply Hcont. }
    destruct f as [|f0].
    { destruct r; [|cbn in Hs; lia]. destruct (match lookup (ttext t) sigs with Some g => s_args g | None => [] end) as [|a l] eqn:El.
      - cbn [read_args]. apply Hcont. lia.
      - (* arguments read from an empty stream *)
        assert (Hra : forall l mm0, exists pcs kids self ok, read_args (parse 1) l mm0 [] = Some (pcs, kids, self, [], ok)).
        { clear. induction l as [|a l IHl]; intros mm0; cbn [read_args]; [repeat eexists|].
          assert (Ha : exists p c o, read_arg (parse 1) a mm0 [] = Some (p, c, [], o)) by (destruct a; repeat eexists).
          destruct Ha as (p & c & o & ->). destruct (IHl mm0) as (p2 & k2 & s2 & o2 & ->). repeat eexists. }
        destruct (Hra (a :: l) (match lookup (ttext t) sigs with Some g => if s_text g then false else mm | None => mm end)) as (pcs & kids & self & ok & ->).
        apply Hcont. lia. }
    destruct (read_args_total (parse (S (S f0))) (S f0) HP ltac:(lia) (match lookup (ttext t) sigs with Some g => s_args g | None => [] end)
                (match lookup (ttext t) sigs with Some g => if s_text g then false else mm | None => mm end) r ltac:(lia))
      as (pcs & kids & self & rest & ok & -> & L). now apply Hcont. }
  destruct (((tcat t =? CC_SUPER) || (tcat t =? CC_SUB)) && mm).
  { destruct f as [|f0].
    { destruct r; [|cbn in Hs; lia]. cbn [read_args read_arg skip_spaces]. apply Hcont. lia. }
    destruct (read_args_total (parse (S (S f0))) (S f0) HP ltac:(lia) [ASelf] mm r ltac:(lia)) as (pcs & kids & self & rest & ok & -> & L).
    now apply Hcont. }
  destruct (tcat t =? CC_ALIGN); apply Hcont; lia.
Qed.

Theorem parse_formula_total mm s : exists nodes ok, parse_formula mm s = Some (nodes, ok).
Proof. unfold parse_formula. destruct (parse_total (length s) mm s (le_n _)) as ([nodes ok] & H). now exists nodes, ok. Qed.
