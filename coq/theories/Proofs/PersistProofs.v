(* Proofs about Model/Persist.v (property C20). *)
From Coq Require Import List ZArith Bool Lia.
Import ListNotations.
From Verif Require Import Val Persist.
Local Open Scope Z_scope.

(* ================================================================ Spec-side definitions *)

(* what a \ref can read from a restored node must be what getattr gave on the saved node *)
Definition same_attrs (n : snode) (n' : rnode) : Prop :=
  forall name, In name refAttributes -> rget n' name = sget n name.

(* saved label (key, node)  ~  restored label (key', node') *)
Definition same_label (kn : str * snode) (kn' : pyobj * rnode) : Prop :=
  fst kn' = PStr (fst kn) /\ same_attrs (snd kn) (snd kn').

(* the file-side form of a set of labels *)
Definition enc (PL : list (str * snode)) : dict := map (fun kn => (PStr (fst kn), macro_persist (snd kn))) PL.

(* the class a saved node is restored as *)
Definition class_of (n : snode) : str := match sget n s_macroName with PStr s => s | _ => s_Macro end.

(* Well-formed saved node: what the id setter and Python class names guarantee for every node a document can hold, and
   the class it is restored as can be instantiated and has no read-only property among the six storage names. *)
Definition storage_names : list str := [s_macroName; s_ref; 64 :: s_title; 64 :: s_captionName; s_id; s_urloverride; s_title; s_captionName].

Definition wf_snode (new_raises : str -> bool) (setattr_raises : str -> str -> bool) (n : snode) : Prop :=
  (is_none (sget n s_id) = false -> truthy (sget n s_id) = true) /\
  match sget n s_macroName with PNone => True | PStr s => existsb (Z.eqb 0) s = false | _ => False end /\
  new_raises (class_of n) = false /\
  (forall a, In a storage_names -> setattr_raises (class_of n) a = false).

(* ================================================================ strings, dictionaries *)

Lemma str_eqb_refl s : str_eqb s s = true.
Proof. induction s as [|x s IH]; simpl; auto. rewrite Z.eqb_refl. exact IH. Qed.

Lemma str_eqb_eq a b : str_eqb a b = true <-> a = b.
Proof.
  split.
  - revert b. induction a as [|x a IH]; destruct b as [|y b]; simpl; intros H; try discriminate; auto.
    apply andb_true_iff in H. destruct H as [H1 H2]. apply Z.eqb_eq in H1. subst. f_equal. auto.
  - intros ->. apply str_eqb_refl.
Qed.

Lemma str_eqb_neq a b : a <> b -> str_eqb a b = false.
Proof. intros H. destruct (str_eqb a b) eqn:E; auto. apply str_eqb_eq in E. contradiction. Qed.

Lemma str_eqb_sym a b : str_eqb a b = str_eqb b a.
Proof.
  destruct (str_eqb a b) eqn:E.
  - apply str_eqb_eq in E. subst. symmetry. apply str_eqb_refl.
  - symmetry. apply str_eqb_neq. intros ->. rewrite str_eqb_refl in E. discriminate.
Qed.

Lemma key_is_true s k : key_is s k = true -> k = PStr s.
Proof. destruct k; simpl; try discriminate. intros H. apply str_eqb_eq in H. subst. reflexivity. Qed.

Lemma dict_get_set_same s v d : dict_get s (dict_set s v d) = Some v.
Proof.
  induction d as [|[k v0] d IH]; simpl.
  - rewrite str_eqb_refl. reflexivity.
  - destruct (key_is s k) eqn:E; simpl; rewrite E; auto.
Qed.

Lemma dict_get_set_other s s' v d : s <> s' -> dict_get s' (dict_set s v d) = dict_get s' d.
Proof.
  intros Hne. induction d as [|[k v0] d IH]; simpl.
  - rewrite (str_eqb_neq s' s); auto.
  - destruct (key_is s k) eqn:E; simpl.
    + apply key_is_true in E. subst k. simpl. rewrite (str_eqb_neq s' s); auto.
    + destruct (key_is s' k); auto.
Qed.

Lemma dict_set_fresh s v d : dict_get s d = None -> dict_set s v d = d ++ [(PStr s, v)].
Proof.
  induction d as [|[k v0] d IH]; simpl; auto.
  destruct (key_is s k); try discriminate. intros H. rewrite IH; auto.
Qed.

Lemma dict_get_app_none s d d' : dict_get s d = None -> dict_get s (d ++ d') = dict_get s d'.
Proof. induction d as [|[k v0] d IH]; simpl; auto. destruct (key_is s k); try discriminate. auto. Qed.

Lemma existsb_key_get s d : existsb (key_is s) (map fst d) = true <-> exists v, dict_get s d = Some v.
Proof.
  induction d as [|[k v0] d IH]; simpl.
  - split; [discriminate | intros [v H]; discriminate].
  - destruct (key_is s k); simpl.
    + split; eauto.
    + exact IH.
Qed.

(* ================================================================ Context.persist *)

Lemma store_labels_spec PL : forall sec,
  exists sec', store_labels PL (PDict sec) = inr (PDict sec') /\
    (forall key, ~ In key (map fst PL) -> dict_get key sec' = dict_get key sec) /\
    (NoDup (map fst PL) -> forall key n, In (key, n) PL -> dict_get key sec' = Some (macro_persist n)).
Proof.
  induction PL as [|[k n] PL IH]; intros sec; simpl.
  - exists sec. repeat split; auto. intros _ key n [].
  - destruct (IH (dict_set k (macro_persist n) sec)) as [sec' [H1 [H2 H3]]].
    exists sec'. split; [exact H1|]. split.
    + intros key Hnot. rewrite H2 by tauto. apply dict_get_set_other. intros ->. tauto.
    + intros Hnd key n0 [Heq | Hin].
      * inversion Heq; subst. inversion Hnd; subst. rewrite H2 by assumption. apply dict_get_set_same.
      * inversion Hnd; subst. eauto.
Qed.

Lemma store_labels_fresh PL : forall sec,
  NoDup (map fst PL) -> (forall key, In key (map fst PL) -> dict_get key sec = None) ->
  store_labels PL (PDict sec) = inr (PDict (sec ++ enc PL)).
Proof.
  induction PL as [|[k n] PL IH]; intros sec Hnd Hfresh; simpl.
  - rewrite app_nil_r. reflexivity.
  - inversion Hnd; subst. rewrite dict_set_fresh by (apply Hfresh; simpl; auto).
    rewrite IH; auto.
    + rewrite <- app_assoc. reflexivity.
    + intros key Hin. rewrite dict_get_app_none by (apply Hfresh; simpl; auto). simpl.
      rewrite str_eqb_neq; auto. intros ->. contradiction.
Qed.

Section WithPickle.
Context {bytes : Type} (pickle : pyobj -> bytes) (unpickle : bytes -> option pyobj).
(* the only thing assumed of the pickle module *)
Definition pickle_roundtrip : Prop := forall d, unpickle (pickle d) = Some d.

(* entries the previous file contributes for this renderer *)
Definition old_entries (f : file) (r : str) : dict :=
  match f with
  | Missing => []
  | Bytes b => match unpickle b with
               | Some (PDict kv) => match dict_get r kv with Some (PDict items) => items | _ => [] end
               | _ => []
               end
  end.

(* the dictionary the previous file holds (empty when it does not load to a dictionary) *)
Definition old_dict (f : file) : dict :=
  match f with
  | Missing => []
  | Bytes b => match unpickle b with Some (PDict kv) => kv | _ => [] end
  end.

Lemma reload_fixed_shape r f :
  exists d rm, reload unpickle true r f = (d, rm) /\ dict_get r d = Some (PDict (old_entries f r)) /\
               (forall r', r' <> r -> dict_get r' d = dict_get r' (old_dict f)).
Proof.
  destruct f as [|b]; simpl.
  - exists (fresh r), false. simpl. rewrite str_eqb_refl. repeat split; auto.
    intros r' Hne. rewrite (str_eqb_neq r' r); auto.
  - destruct (unpickle b) as [[| | | |kv|]|] eqn:E; simpl;
      try (exists (fresh r), true; simpl; rewrite str_eqb_refl; repeat split; auto;
           intros r' Hne; rewrite (str_eqb_neq r' r); auto; fail).
    destruct (dict_get r kv) as [[| | | |items|]|] eqn:G;
      try (exists (dict_set r (PDict []) kv), false; repeat split; auto;
           [apply dict_get_set_same | intros r' Hne; apply dict_get_set_other; auto]; fail).
    exists kv, false. repeat split; auto.
Qed.

Lemma persist_form fixed PL r f d rm sec :
  reload unpickle fixed r f = (d, rm) -> dict_get r d = Some (PDict sec) ->
  exists sec', store_labels PL (PDict sec) = inr (PDict sec') /\
    persist pickle unpickle fixed PL r f true = PSaved (Bytes (pickle (PDict (dict_set r (PDict sec') d)))).
Proof.
  intros Hr Hg. destruct (store_labels_spec PL sec) as [sec' [H1 _]].
  exists sec'. split; auto. unfold persist. rewrite Hr, Hg, H1. reflexivity.
Qed.

(* M4 *)
Theorem persist_total_proof : pickle_roundtrip -> forall PL r f,
  exists b d sec,
    persist pickle unpickle true PL r f true = PSaved (Bytes b) /\
    unpickle b = Some (PDict d) /\ dict_get r d = Some (PDict sec) /\
    (NoDup (map fst PL) -> forall key n, In (key, n) PL -> dict_get key sec = Some (macro_persist n)) /\
    (forall key, ~ In key (map fst PL) -> dict_get key sec = dict_get key (old_entries f r)) /\
    (forall r', r' <> r -> dict_get r' d = dict_get r' (old_dict f)).
Proof.
  intros Hp PL r f.
  destruct (reload_fixed_shape r f) as [d [rm [Hr [Hg Ho]]]].
  destruct (store_labels_spec PL (old_entries f r)) as [sec' [H1 [H2 H3]]].
  destruct (persist_form true PL r f d rm _ Hr Hg) as [sec'' [H1' Hper]].
  rewrite H1 in H1'. inversion H1'; subst sec''.
  exists (pickle (PDict (dict_set r (PDict sec') d))), (dict_set r (PDict sec') d), sec'.
  split; [exact Hper|]. split; [apply Hp|]. split; [apply dict_get_set_same|].
  split; [exact H3|]. split; [exact H2|].
  intros r' Hne. rewrite dict_get_set_other by auto. apply Ho. exact Hne.
Qed.

Theorem persist_io_failure_proof : forall PL r f,
  persist pickle unpickle true PL r f false = PSaved f \/ persist pickle unpickle true PL r f false = PSaved Missing.
Proof.
  intros PL r f.
  destruct (reload_fixed_shape r f) as [d [rm [Hr [Hg _]]]].
  destruct (store_labels_spec PL (old_entries f r)) as [sec' [H1 _]].
  unfold persist. rewrite Hr, Hg, H1. destruct rm; auto.
Qed.

(* the unchanged tree: the update is outside the guard *)
Theorem persist_orig_refuted_proof : pickle_roundtrip ->
  exists PL r f, persist pickle unpickle false PL r f true = PCrash EType.
Proof.
  intros Hp. exists [([115], [])], [72], (Bytes (pickle (PDict [(PStr [72], PList [])]))).
  unfold persist, reload. rewrite Hp. reflexivity.
Qed.

(* ... and coincides with the repaired one whenever the renderer's entry of the previous file, if any, is a dictionary *)
Theorem persist_orig_partial_proof : forall PL r f io,
  (forall b kv v, f = Bytes b -> unpickle b = Some (PDict kv) -> dict_get r kv = Some v -> exists items, v = PDict items) ->
  persist pickle unpickle false PL r f io = persist pickle unpickle true PL r f io.
Proof.
  intros PL r f io H. unfold persist.
  assert (E : reload unpickle false r f = reload unpickle true r f).
  { destruct f as [|b]; simpl; auto.
    destruct (unpickle b) as [[| | | |kv|]|] eqn:U; auto.
    destruct (dict_get r kv) as [v|] eqn:G.
    - destruct (H b kv v eq_refl U G) as [items ->].
      assert (X : existsb (key_is r) (map fst kv) = true) by (apply existsb_key_get; eauto).
      rewrite X. reflexivity.
    - destruct (existsb (key_is r) (map fst kv)) eqn:X; auto.
      apply existsb_key_get in X. destruct X as [v X]. congruence. }
  rewrite E. reflexivity.
Qed.

End WithPickle.

(* ================================================================ Macro.persist / Macro.restore round trip *)

Lemma is_none_true v : is_none v = true -> v = PNone.
Proof. destruct v; simpl; congruence. Qed.

Section WithClasses.
Context (new_raises : str -> bool) (setattr_raises : str -> str -> bool).

Local Notation wf := (wf_snode new_raises setattr_raises).

Lemma setattr_plain c vs name v :
  setattr_raises c name = false -> str_eqb name s_id = false -> existsb (str_eqb name) at_setters = false ->
  str_eqb name s_tagName || str_eqb name s_nodeName = false ->
  setattr setattr_raises (mkR c vs) name v = inr (mkR c (vars_set name v vs)).
Proof. intros H1 H2 H3 H4. unfold setattr. simpl r_cls. rewrite H1, H2, H3, H4. reflexivity. Qed.

Lemma setattr_at c vs name v :
  setattr_raises c name = false -> str_eqb name s_id = false -> existsb (str_eqb name) at_setters = true ->
  setattr setattr_raises (mkR c vs) name v = inr (mkR c (vars_set (64 :: name) v vs)).
Proof. intros H1 H2 H3. unfold setattr. simpl r_cls. rewrite H1, H2, H3. reflexivity. Qed.

Lemma setattr_id c vs v :
  setattr_raises c s_id = false -> truthy v = true ->
  setattr setattr_raises (mkR c vs) s_id v = inr (mkR c (vars_set s_at_id v vs)).
Proof. intros H1 H2. unfold setattr. simpl r_cls. rewrite H1, H2. reflexivity. Qed.

Ltac restore_steps A1 A2 A5 A6 A7 A8 Hid :=
  cbn [macro_restore attr_name str_eqb s_macroName s_ref s_title s_captionName s_id s_url Z.eqb Pos.eqb andb];
  repeat first
    [ rewrite (setattr_plain _ _ s_macroName _ A1 eq_refl eq_refl eq_refl)
    | rewrite (setattr_plain _ _ s_ref _ A2 eq_refl eq_refl eq_refl)
    | rewrite (setattr_plain _ _ s_urloverride _ A6 eq_refl eq_refl eq_refl)
    | rewrite (setattr_at _ _ s_title _ A7 eq_refl eq_refl)
    | rewrite (setattr_at _ _ s_captionName _ A8 eq_refl eq_refl)
    | rewrite (setattr_id _ _ _ A5 Hid) ].

Lemma macro_roundtrip n : wf n ->
  exists n',
    match new_node new_raises (match dict_get s_macroName (macro_persist_attrs n) with Some v => v | None => PStr s_Macro end) with
    | inr n0 => macro_restore setattr_raises n0 (macro_persist_attrs n) = inr n'
    | inl _ => False
    end /\ same_attrs n n'.
Proof.
  intros [Hid [Hmac [Hnew Hset]]].
  unfold same_attrs, macro_persist_attrs, refAttributes, class_of in *.
  cbn [fold_left].
  assert (A1 := Hset s_macroName ltac:(simpl; tauto)).
  assert (A2 := Hset s_ref ltac:(simpl; tauto)).
  assert (A5 := Hset s_id ltac:(simpl; tauto)).
  assert (A6 := Hset s_urloverride ltac:(simpl; tauto)).
  assert (A7 := Hset s_title ltac:(simpl; tauto)).
  assert (A8 := Hset s_captionName ltac:(simpl; tauto)).
  clear Hset.
  remember (sget n s_macroName) as v1 eqn:E1.
  remember (sget n s_ref) as v2 eqn:E2.
  remember (sget n s_title) as v3 eqn:E3.
  remember (sget n s_captionName) as v4 eqn:E4.
  remember (sget n s_id) as v5 eqn:E5.
  remember (sget n s_url) as v6 eqn:E6.
  destruct v1 as [| |s| | |]; try contradiction.
  - (* macroName None *)
    cbn [is_none].
    destruct (is_none v2) eqn:N2; destruct (is_none v3) eqn:N3; destruct (is_none v4) eqn:N4;
    destruct (is_none v5) eqn:N5; destruct (is_none v6) eqn:N6.
    all: try specialize (Hid eq_refl).
    all: cbn [dict_set dict_get key_is str_eqb s_macroName s_ref s_title s_captionName s_id s_url Z.eqb Pos.eqb andb].
    all: cbn [new_node s_Macro existsb Z.eqb orb]; rewrite Hnew.
    all: restore_steps A1 A2 A5 A6 A7 A8 Hid.
    all: eexists; split; [reflexivity|].
    all: intros name Hin; simpl in Hin.
    all: try apply is_none_true in N2; try apply is_none_true in N3; try apply is_none_true in N4;
         try apply is_none_true in N5; try apply is_none_true in N6.
    all: try rewrite N2 in E2; try rewrite N3 in E3; try rewrite N4 in E4; try rewrite N5 in E5; try rewrite N6 in E6.
    all: repeat (destruct Hin as [<- | Hin]; [rewrite <- ?E1, <- ?E2, <- ?E3, <- ?E4, <- ?E5, <- ?E6; try reflexivity|]).
    all: contradiction.
  - (* macroName is a string *)
    cbn [is_none].
    destruct (is_none v2) eqn:N2; destruct (is_none v3) eqn:N3; destruct (is_none v4) eqn:N4;
    destruct (is_none v5) eqn:N5; destruct (is_none v6) eqn:N6.
    all: try specialize (Hid eq_refl).
    all: cbn [dict_set dict_get key_is str_eqb s_macroName s_ref s_title s_captionName s_id s_url Z.eqb Pos.eqb andb].
    all: cbn [new_node]; rewrite Hmac, Hnew.
    all: restore_steps A1 A2 A5 A6 A7 A8 Hid.
    all: eexists; split; [reflexivity|].
    all: intros name Hin; simpl in Hin.
    all: try apply is_none_true in N2; try apply is_none_true in N3; try apply is_none_true in N4;
         try apply is_none_true in N5; try apply is_none_true in N6.
    all: try rewrite N2 in E2; try rewrite N3 in E3; try rewrite N4 in E4; try rewrite N5 in E5; try rewrite N6 in E6.
    all: repeat (destruct Hin as [<- | Hin]; [rewrite <- ?E1, <- ?E2, <- ?E3, <- ?E4, <- ?E5, <- ?E6; try reflexivity|]).
    all: contradiction.
Qed.

(* ---------------------------------------------------------------- context.labels *)
Lemma labels_set_fresh k n L : (forall k0, In k0 (map fst L) -> key_eqb k k0 = false) -> labels_set k n L = L ++ [(k, n)].
Proof.
  induction L as [|[k0 n0] L IH]; simpl; intros H; auto.
  rewrite (H k0) by auto. rewrite IH; auto.
Qed.

Lemma labels_set_incl k n L : incl (map fst L) (map fst (labels_set k n L)).
Proof.
  induction L as [|[k0 n0] L IH]; simpl.
  - intros x [].
  - destruct (key_eqb k k0); simpl.
    + apply incl_refl.
    + intros x [<- | Hx]; [left; reflexivity | right; apply IH; exact Hx].
Qed.

Lemma labels_set_keeps k n L k0 n0 : In (k0, n0) L -> key_eqb k k0 = false -> In (k0, n0) (labels_set k n L).
Proof.
  induction L as [|[k1 n1] L IH]; simpl; intros Hin Hne; auto.
  destruct Hin as [Heq | Hin].
  - inversion Heq; subst. rewrite Hne. left; reflexivity.
  - destruct (key_eqb k k1); simpl; auto.
Qed.

(* ---------------------------------------------------------------- the restore loop *)
Lemma restore_loop_roundtrip PL : forall L,
  NoDup (map fst PL) -> Forall wf (map snd PL) ->
  (forall k, In k (map fst PL) -> forall k0, In k0 (map fst L) -> key_eqb (PStr k) k0 = false) ->
  exists T, restore_loop new_raises setattr_raises (enc PL) L = (L ++ T, None) /\ Forall2 same_label PL T.
Proof.
  induction PL as [|[k n] PL IH]; intros L Hnd Hwf Hfresh.
  - exists []. rewrite app_nil_r. split; [reflexivity | constructor].
  - simpl in Hnd, Hwf. inversion Hnd as [|? ? Hnotin Hnd']; subst. inversion Hwf as [|? ? Hwn Hwf']; subst.
    destruct (macro_roundtrip n Hwn) as [n' [Hres Hsame]].
    cbn [enc map fst snd restore_loop macro_persist].
    destruct (new_node new_raises
                (match dict_get s_macroName (macro_persist_attrs n) with Some v => v | None => PStr s_Macro end)) as [e|n0];
      [contradiction|].
    rewrite Hres.
    rewrite labels_set_fresh by (intros k0 Hk0; apply (Hfresh k); simpl; auto).
    destruct (IH (L ++ [(PStr k, n')]) Hnd' Hwf') as [T [HT HF]].
    { intros k2 Hk2 k0 Hk0. rewrite map_app in Hk0. apply in_app_or in Hk0. destruct Hk0 as [Hk0 | Hk0].
      - apply (Hfresh k2); simpl; auto.
      - simpl in Hk0. destruct Hk0 as [<- | []]. simpl. apply str_eqb_neq. intros ->. contradiction. }
    exists ((PStr k, n') :: T). split.
    + fold (enc PL). rewrite HT. rewrite <- app_assoc. reflexivity.
    + constructor; auto. split; auto.
Qed.

Lemma restore_loop_keeps items : forall L L1 e,
  restore_loop new_raises setattr_raises items L = (L1, e) ->
  incl (map fst L) (map fst L1) /\
  (forall k n, In (k, n) L -> (forall k', In k' (map fst items) -> key_eqb k' k = false) -> In (k, n) L1) /\
  (items = [] -> L1 = L).
Proof.
  induction items as [|[key value] items IH]; intros L L1 e H; simpl in H.
  - inversion H; subst. split; [apply incl_refl|]. split; auto.
  - assert (Triv : incl (map fst L) (map fst L) /\
                   (forall k n, In (k, n) L -> (forall k', In k' (map fst ((key, value) :: items)) -> key_eqb k' k = false) -> In (k, n) L) /\
                   ((key, value) :: items = [] -> L = L)).
    { split; [apply incl_refl|]. split; auto. }
    destruct value as [| | | |attrs|]; try (inversion H; subst; exact Triv).
    destruct (new_node new_raises _) as [e0|n0]; [inversion H; subst; exact Triv|].
    destruct (macro_restore setattr_raises n0 attrs) as [e0|n']; [inversion H; subst; exact Triv|].
    destruct (IH _ _ _ H) as [I1 [I2 _]].
    split; [|split].
    + eapply incl_tran; [apply labels_set_incl | exact I1].
    + intros k n Hin Hne. apply I2.
      * apply labels_set_keeps; auto. apply Hne. simpl; auto.
      * intros k' Hk'. apply Hne. simpl; auto.
    + discriminate.
Qed.

End WithClasses.

(* ================================================================ Context.restore and the round trip *)
Section All.
Context (new_raises : str -> bool) (setattr_raises : str -> str -> bool)
        {bytes : Type} (pickle : pyobj -> bytes) (unpickle : bytes -> option pyobj).

Local Notation wf := (wf_snode new_raises setattr_raises).
Local Notation restore' := (restore new_raises setattr_raises unpickle).
Local Notation persist' := (persist pickle unpickle).
Local Notation proundtrip := (pickle_roundtrip pickle unpickle).

(* M3 *)
Theorem restore_total_proof : forall f r L wou,
  exists L' wou',
    restore' f r L wou = RDone L' wou' /\
    incl (map fst L) (map fst L') /\
    (forall k n, In (k, n) L -> (forall k', In k' (map fst (old_entries unpickle f r)) -> key_eqb k' k = false) -> In (k, n) L') /\
    (old_entries unpickle f r = [] -> L' = L) /\
    (wou' = wou \/ wou' = false).
Proof.
  intros f r L wou.
  unfold restore, old_entries. destruct f as [|b].
  - exists L, wou. repeat split; auto. apply incl_refl.
  - destruct (unpickle b) as [d|].
    2:{ exists L, wou. simpl. repeat split; auto. apply incl_refl. }
    destruct d as [| | | |kv|]; simpl;
      try (exists L, wou; repeat split; auto; apply incl_refl).
    destruct (dict_get r kv) as [data|]; simpl.
    2:{ exists L, wou. repeat split; auto. apply incl_refl. }
    destruct data as [| | | |items|];
      try (exists L, false; repeat split; auto; apply incl_refl).
    destruct (restore_loop new_raises setattr_raises items L) as [L1 e] eqn:E.
    destruct (restore_loop_keeps _ _ _ _ _ _ E) as [I1 [I2 I3]].
    destruct e as [e|]; [exists L1, false | exists L1, wou]; repeat split; auto.
Qed.

Lemma restore_section b d r PL wou :
  unpickle b = Some (PDict d) -> dict_get r d = Some (PDict (enc PL)) ->
  NoDup (map fst PL) -> Forall wf (map snd PL) ->
  exists T, restore' (Bytes b) r [] wou = RDone T wou /\ Forall2 same_label PL T.
Proof.
  intros Hu Hg Hnd Hwf.
  destruct (restore_loop_roundtrip new_raises setattr_raises PL [] Hnd Hwf) as [T [HT HF]].
  { intros k _ k0 []. }
  exists T. split; auto. unfold restore. rewrite Hu. simpl. rewrite Hg, HT. reflexivity.
Qed.

(* when the previous file contributes nothing for this renderer, the saved section is exactly the current labels *)
Lemma persist_fresh_section : proundtrip -> forall PL r f,
  old_entries unpickle f r = [] -> NoDup (map fst PL) ->
  exists b d, persist' true PL r f true = PSaved (Bytes b) /\ unpickle b = Some (PDict d) /\
              dict_get r d = Some (PDict (enc PL)) /\
              (forall r', r' <> r -> dict_get r' d = dict_get r' (old_dict unpickle f)).
Proof.
  intros Hp PL r f Hold Hnd.
  destruct (reload_fixed_shape unpickle r f) as [d [rm [Hr [Hg Ho]]]].
  rewrite Hold in Hg.
  destruct (persist_form pickle unpickle true PL r f d rm _ Hr Hg) as [sec' [H1 Hper]].
  rewrite (store_labels_fresh PL [] Hnd) in H1 by (intros; reflexivity). simpl in H1. inversion H1; subst sec'.
  exists (pickle (PDict (dict_set r (PDict (enc PL)) d))), (dict_set r (PDict (enc PL)) d).
  split; [exact Hper|]. split; [apply Hp|]. split; [apply dict_get_set_same|].
  intros r' Hne. rewrite dict_get_set_other by auto. apply Ho. exact Hne.
Qed.

(* M1 (holds for the unchanged and for the repaired persist alike: nothing is reloaded) *)
Theorem roundtrip_proof : proundtrip -> forall fixed PL r wou,
  NoDup (map fst PL) -> Forall wf (map snd PL) ->
  exists b T, persist' fixed PL r Missing true = PSaved (Bytes b) /\
              restore' (Bytes b) r [] wou = RDone T wou /\ Forall2 same_label PL T.
Proof.
  intros Hp fixed PL r wou Hnd Hwf.
  assert (Hg : dict_get r (fresh r) = Some (PDict [])) by (simpl; rewrite str_eqb_refl; reflexivity).
  assert (Hr : reload unpickle fixed r Missing = (fresh r, false)) by reflexivity.
  destruct (persist_form pickle unpickle fixed PL r Missing _ _ _ Hr Hg) as [sec' [H1 Hper]].
  rewrite (store_labels_fresh PL [] Hnd) in H1 by (intros; reflexivity). simpl in H1. inversion H1; subst sec'.
  destruct (restore_section (pickle (PDict (dict_set r (PDict (enc PL)) (fresh r)))) _ r PL wou (Hp _)
              (dict_get_set_same _ _ _) Hnd Hwf) as [T [HT HF]].
  eauto.
Qed.

(* M2 *)
Theorem other_renderer_sees_nothing_proof : proundtrip -> forall fixed PL r r' L wou, r' <> r ->
  exists b, persist' fixed PL r Missing true = PSaved (Bytes b) /\ restore' (Bytes b) r' L wou = RDone L wou.
Proof.
  intros Hp fixed PL r r' L wou Hne.
  assert (Hg : dict_get r (fresh r) = Some (PDict [])) by (simpl; rewrite str_eqb_refl; reflexivity).
  assert (Hr : reload unpickle fixed r Missing = (fresh r, false)) by reflexivity.
  destruct (persist_form pickle unpickle fixed PL r Missing _ _ _ Hr Hg) as [sec' [H1 Hper]].
  assert (G : dict_get r' (dict_set r (PDict sec') (fresh r)) = None).
  { rewrite dict_get_set_other by auto. simpl. rewrite (str_eqb_neq r' r) by auto. reflexivity. }
  eexists. split; [exact Hper|].
  unfold restore, getitem. rewrite Hp, G. reflexivity.
Qed.

Theorem two_renderers_proof : proundtrip -> forall PL1 PL2 r1 r2 wou, r1 <> r2 ->
  NoDup (map fst PL1) -> Forall wf (map snd PL1) -> NoDup (map fst PL2) -> Forall wf (map snd PL2) ->
  exists b1 b2 T1 T2,
    persist' true PL1 r1 Missing true = PSaved (Bytes b1) /\
    persist' true PL2 r2 (Bytes b1) true = PSaved (Bytes b2) /\
    restore' (Bytes b2) r1 [] wou = RDone T1 wou /\ Forall2 same_label PL1 T1 /\
    restore' (Bytes b2) r2 [] wou = RDone T2 wou /\ Forall2 same_label PL2 T2.
Proof.
  intros Hp PL1 PL2 r1 r2 wou Hne Hnd1 Hwf1 Hnd2 Hwf2.
  destruct (persist_fresh_section Hp PL1 r1 Missing eq_refl Hnd1) as [b1 [d1 [P1 [U1 [G1 O1]]]]].
  assert (Hold : old_entries unpickle (Bytes b1) r2 = []).
  { unfold old_entries. rewrite U1. rewrite (O1 r2) by auto. reflexivity. }
  destruct (persist_fresh_section Hp PL2 r2 (Bytes b1) Hold Hnd2) as [b2 [d2 [P2 [U2 [G2 O2]]]]].
  assert (G21 : dict_get r1 d2 = Some (PDict (enc PL1))).
  { rewrite O2 by auto. unfold old_dict. rewrite U1. exact G1. }
  destruct (restore_section b2 d2 r1 PL1 wou U2 G21 Hnd1 Hwf1) as [T1 [R1 F1]].
  destruct (restore_section b2 d2 r2 PL2 wou U2 G2 Hnd2 Hwf2) as [T2 [R2 F2]].
  exists b1, b2, T1, T2. auto 10.
Qed.

(* "the next save produces a complete, loadable file again": whatever the damaged file was, provided it contributes no
   entries of its own for this renderer (it does not load, is not a dictionary, lacks the renderer, or the renderer's
   entry is not a dictionary or is empty), the file written next restores to exactly the current labels *)
Theorem resave_complete_proof : proundtrip -> forall PL r f wou,
  old_entries unpickle f r = [] -> NoDup (map fst PL) -> Forall wf (map snd PL) ->
  exists b T, persist' true PL r f true = PSaved (Bytes b) /\
              restore' (Bytes b) r [] wou = RDone T wou /\ Forall2 same_label PL T.
Proof.
  intros Hp PL r f wou Hold Hnd Hwf.
  destruct (persist_fresh_section Hp PL r f Hold Hnd) as [b [d [P [U [G _]]]]].
  destruct (restore_section b d r PL wou U G Hnd Hwf) as [T [R F]].
  eauto.
Qed.

(* observation: an entry of the old file that is not a dictionary survives the save and stops the restore loop *)
Theorem resave_stale_entry_refuted_proof : proundtrip ->
  exists PL r f b, PL <> [] /\ persist' true PL r f true = PSaved (Bytes b) /\ restore' (Bytes b) r [] true = RDone [] false.
Proof.
  intros Hp.
  exists [([97], [(s_id, PStr [97])])], [72], (Bytes (pickle (PDict [(PStr [72], PDict [(PStr [120], PInt 5)])]))).
  eexists. split; [discriminate|].
  unfold persist, reload. rewrite Hp. simpl. split; [reflexivity|].
  unfold restore. rewrite Hp. reflexivity.
Qed.

(* ---------------------------------------------------------------- sequences of runs *)
Lemma persist_no_crash PL r f io : exists f', persist' true PL r f io = PSaved f'.
Proof.
  destruct (reload_fixed_shape unpickle r f) as [d [rm [Hr [Hg _]]]].
  destruct (store_labels_spec PL (old_entries unpickle f r)) as [sec' [H1 _]].
  unfold persist. rewrite Hr, Hg, H1. destruct io; eauto.
Qed.

Lemma restore_others_no_crash job r F : forall L wou,
  exists L' wou', restore_others new_raises setattr_raises unpickle job r F L wou = RDone L' wou' /\ incl (map fst L) (map fst L').
Proof.
  induction F as [|[j f] F IH]; intros L wou; simpl.
  - exists L, wou. split; auto. apply incl_refl.
  - destruct (str_eqb job j); [apply IH|].
    destruct f as [|b]; [apply IH|].
    destruct (restore_total_proof (Bytes b) r L wou) as [L1 [w1 [H1 [I1 _]]]].
    rewrite H1. destruct (IH L1 w1) as [L2 [w2 [H2 I2]]].
    exists L2, w2. split; auto. eapply incl_tran; eauto.
Qed.

Definition is_crash (o : @obs bytes) : bool := match o with ObsCrash _ => true | _ => false end.

(* "never blocks processing", for every history: whatever is put in the directory between runs, no run crashes *)
Theorem runs_never_crash_proof : forall ops F,
  existsb is_crash (run_ops new_raises setattr_raises pickle unpickle true ops F) = false.
Proof.
  induction ops as [|o ops IH]; intros F; simpl; auto.
  destruct (step new_raises setattr_raises pickle unpickle true o F) as [ob F'] eqn:E.
  simpl. rewrite IH. rewrite orb_false_r.
  destruct o as [job f | job r PL | job r pre]; simpl in E.
  - inversion E; reflexivity.
  - destruct (restore_others_no_crash job r F [] true) as [L' [w' [H _]]]. rewrite H in E.
    destruct (persist_no_crash PL r (fs_get job F) true) as [f' Hf]. rewrite Hf in E. inversion E; reflexivity.
  - destruct (restore_total_proof (fs_get job F) r pre true) as [L' [w' [H _]]]. rewrite H in E. inversion E; reflexivity.
Qed.

Lemma fs_get_set job (f : @file bytes) F : fs_get job (fs_set job f F) = f.
Proof.
  induction F as [|[j f0] F IH]; simpl.
  - rewrite str_eqb_refl. reflexivity.
  - destruct (str_eqb job j) eqn:E; simpl; rewrite E; auto.
Qed.

(* ... and every run leaves its own file loadable and complete *)
Theorem run_leaves_complete_file_proof : proundtrip -> forall job r PL F,
  exists L wou b d sec F',
    step new_raises setattr_raises pickle unpickle true (ORun job r PL) F = (ObsRun L wou (Bytes b), F') /\
    fs_get job F' = Bytes b /\ unpickle b = Some (PDict d) /\ dict_get r d = Some (PDict sec) /\
    (NoDup (map fst PL) -> forall key n, In (key, n) PL -> dict_get key sec = Some (macro_persist n)).
Proof.
  intros Hp job r PL F. simpl.
  destruct (restore_others_no_crash job r F [] true) as [L' [w' [H _]]]. rewrite H.
  destruct (persist_total_proof pickle unpickle Hp PL r (fs_get job F)) as [b [d [sec [P [U [G [C _]]]]]]].
  rewrite P. exists L', w', b, d, sec, (fs_set job (Bytes b) F).
  split; [reflexivity|]. split; [apply fs_get_set|]. auto.
Qed.

End All.
