(* Proofs for C06: the heap Model of plasTeX.DOM keeps the tree invariant and refines the plain list model. *)
From Coq Require Import List ZArith Bool Arith Lia.
Import ListNotations.
From Verif Require Import Dom DomSpec.

(* ====================================================================================================== *)
(* A. heap basics *)

Lemma set_nth_length : forall A (l : list A) n x, length (set_nth l n x) = length l.
Proof. induction l; destruct n; simpl; intros; auto. Qed.

Lemma nth_error_set_nth_eq : forall A (l : list A) n x, n < length l -> nth_error (set_nth l n x) n = Some x.
Proof. induction l; destruct n; simpl; intros; try lia; auto. apply IHl. lia. Qed.

Lemma nth_error_set_nth_neq : forall A (l : list A) n m x, m <> n -> nth_error (set_nth l n x) m = nth_error l m.
Proof. induction l; destruct n; destruct m; simpl; intros; auto; try congruence. Qed.

Lemma upd_length : forall h n f, length (upd h n f) = length h.
Proof. intros. unfold upd. destruct (get h n); auto. apply set_nth_length. Qed.

Lemma get_upd_eq : forall h n f, get (upd h n f) n = match get h n with Some nd => Some (f nd) | None => None end.
Proof.
  intros. unfold upd. destruct (get h n) eqn:E; auto.
  unfold get. apply nth_error_set_nth_eq. apply nth_error_Some. unfold get in E. congruence.
Qed.

Lemma get_upd_neq : forall h n m f, m <> n -> get (upd h n f) m = get h m.
Proof. intros. unfold upd. destruct (get h n); auto. unfold get. apply nth_error_set_nth_neq; auto. Qed.

Lemma get_valid : forall h n, n < length h <-> get h n <> None.
Proof. intros. unfold get. symmetry. apply nth_error_Some. Qed.

Lemma valid_lt : forall h n, valid h n = true <-> n < length h.
Proof. intros. unfold valid. apply Nat.ltb_lt. Qed.

(* what a record update leaves alone *)
Definition same_but_children (f : node -> node) := forall nd, nkind (f nd) = nkind nd /\ nparent (f nd) = nparent nd /\ nowner (f nd) = nowner nd /\ nattrs (f nd) = nattrs nd /\ ncreator (f nd) = ncreator nd.

Ltac acc_upd h n m :=
  destruct (Nat.eq_dec m n) as [->|?];
  [ rewrite get_upd_eq; destruct (get h n); simpl; auto | rewrite get_upd_neq by auto; auto ].

Lemma kind_of_upd : forall h n f m, (forall nd, nkind (f nd) = nkind nd) -> kind_of (upd h n f) m = kind_of h m.
Proof. intros. unfold kind_of. acc_upd h n m. rewrite H. auto. Qed.

Lemma creator_upd : forall h n f m, (forall nd, ncreator (f nd) = ncreator nd) -> creator (upd h n f) m = creator h m.
Proof. intros. unfold creator. acc_upd h n m. Qed.

Lemma attrs_upd : forall h n f m, (forall nd, nattrs (f nd) = nattrs nd) -> attrs (upd h n f) m = attrs h m.
Proof. intros. unfold attrs. acc_upd h n m. Qed.

Lemma children_upd_other : forall h n f m, (forall nd, nchildren (f nd) = nchildren nd) -> children (upd h n f) m = children h m.
Proof. intros. unfold children. acc_upd h n m. Qed.

Lemma parent_upd_other : forall h n f m, (forall nd, nparent (f nd) = nparent nd) -> parent (upd h n f) m = parent h m.
Proof. intros. unfold parent. acc_upd h n m. Qed.

Lemma owner_upd_other : forall h n f m, (forall nd, nowner (f nd) = nowner nd) -> owner (upd h n f) m = owner h m.
Proof. intros. unfold owner. acc_upd h n m. Qed.

(* kinds *)
Lemma is_frag_upd : forall h n f m, (forall nd, nkind (f nd) = nkind nd) -> is_frag (upd h n f) m = is_frag h m.
Proof. intros. unfold is_frag. rewrite kind_of_upd; auto. Qed.
Lemma is_doc_upd : forall h n f m, (forall nd, nkind (f nd) = nkind nd) -> is_doc (upd h n f) m = is_doc h m.
Proof. intros. unfold is_doc. rewrite kind_of_upd; auto. Qed.
Lemma is_tree_upd : forall h n f m, (forall nd, nkind (f nd) = nkind nd) -> is_tree (upd h n f) m = is_tree h m.
Proof. intros. unfold is_tree. rewrite kind_of_upd; auto. Qed.
Lemma is_elem_upd : forall h n f m, (forall nd, nkind (f nd) = nkind nd) -> is_elem (upd h n f) m = is_elem h m.
Proof. intros. unfold is_elem. rewrite kind_of_upd; auto. Qed.
Lemma is_text_upd : forall h n f m, (forall nd, nkind (f nd) = nkind nd) -> is_text (upd h n f) m = is_text h m.
Proof. intros. unfold is_text. rewrite kind_of_upd; auto. Qed.

(* set_children *)
Lemma children_set_children : forall h n l m,
  children (set_children h n l) m = if Nat.eqb m n then (if valid h n then l else []) else children h m.
Proof.
  intros. unfold children, set_children. destruct (Nat.eqb_spec m n) as [->|N].
  - rewrite get_upd_eq. unfold valid. destruct (get h n) eqn:E; simpl.
    + assert (n < length h) by (apply get_valid; congruence). apply Nat.ltb_lt in H. rewrite H. auto.
    + assert (~ n < length h) by (rewrite get_valid; tauto). apply Nat.ltb_nlt in H. rewrite H. auto.
  - rewrite get_upd_neq; auto.
Qed.

Lemma parent_set_parent : forall h n p m,
  parent (set_parent h n p) m = if Nat.eqb m n then (if valid h n then p else None) else parent h m.
Proof.
  intros. unfold parent, set_parent. destruct (Nat.eqb_spec m n) as [->|N].
  - rewrite get_upd_eq. unfold valid. destruct (get h n) eqn:E; simpl.
    + assert (n < length h) by (apply get_valid; congruence). apply Nat.ltb_lt in H. rewrite H. auto.
    + assert (~ n < length h) by (rewrite get_valid; tauto). apply Nat.ltb_nlt in H. rewrite H. auto.
  - rewrite get_upd_neq; auto.
Qed.

Lemma owner_set_owner : forall h n o m,
  owner (set_owner h n o) m = if Nat.eqb m n then (if valid h n then o else None) else owner h m.
Proof.
  intros. unfold owner, set_owner. destruct (Nat.eqb_spec m n) as [->|N].
  - rewrite get_upd_eq. unfold valid. destruct (get h n) eqn:E; simpl.
    + assert (n < length h) by (apply get_valid; congruence). apply Nat.ltb_lt in H. rewrite H. auto.
    + assert (~ n < length h) by (rewrite get_valid; tauto). apply Nat.ltb_nlt in H. rewrite H. auto.
  - rewrite get_upd_neq; auto.
Qed.

(* a uniform rewriting base for "accessor of an update" *)
Lemma with_children_kind : forall l nd, nkind (with_children l nd) = nkind nd. Proof. auto. Qed.
Lemma with_parent_kind : forall l nd, nkind (with_parent l nd) = nkind nd. Proof. auto. Qed.
Lemma with_owner_kind : forall l nd, nkind (with_owner l nd) = nkind nd. Proof. auto. Qed.

Lemma valid_upd : forall h n f m, valid (upd h n f) m = valid h m.
Proof. intros. unfold valid. rewrite upd_length. auto. Qed.

Ltac frame_simpl :=
  unfold set_children, set_parent, set_owner, set_attrs in *;
  repeat (first
    [ rewrite upd_length | rewrite valid_upd
    | rewrite kind_of_upd by (intros; reflexivity) | rewrite creator_upd by (intros; reflexivity)
    | rewrite attrs_upd by (intros; reflexivity)
    | rewrite is_frag_upd by (intros; reflexivity) | rewrite is_doc_upd by (intros; reflexivity)
    | rewrite is_tree_upd by (intros; reflexivity) | rewrite is_elem_upd by (intros; reflexivity)
    | rewrite is_text_upd by (intros; reflexivity)
    | rewrite children_upd_other by (intros; reflexivity)
    | rewrite parent_upd_other by (intros; reflexivity)
    | rewrite owner_upd_other by (intros; reflexivity) ]).

(* ====================================================================================================== *)
(* B. lists *)

Lemma mem_In : forall x l, mem x l = true <-> In x l.
Proof.
  intros. unfold mem. rewrite existsb_exists. split.
  - intros [y [Hy E]]. apply Nat.eqb_eq in E. subst. auto.
  - intros. exists x. split; auto. apply Nat.eqb_refl.
Qed.

Lemma mem_false : forall x l, mem x l = false <-> ~ In x l.
Proof. intros. rewrite <- mem_In. destruct (mem x l); split; intros; congruence. Qed.

Lemma nodup_b_NoDup : forall l, nodup_b l = true <-> NoDup l.
Proof.
  induction l; simpl.
  - split; auto. constructor.
  - rewrite andb_true_iff, negb_true_iff, mem_false, IHl. split.
    + intros [A B]. constructor; auto.
    + intros H. inversion H; auto.
Qed.

Lemma index_of_Some : forall x l k, index_of x l = Some k -> nth_error l k = Some x /\ k < length l /\ ~ In x (firstn k l).
Proof.
  induction l; simpl; intros; try discriminate.
  destruct (Nat.eqb_spec a x).
  - inversion H; subst. simpl. repeat split; auto. lia.
  - destruct (index_of x l) eqn:E; try discriminate. inversion H; subst.
    destruct (IHl n0 eq_refl) as [A [B C]]. simpl. repeat split; auto; try lia. intros [D|D]; auto.
Qed.

Lemma index_of_None : forall x l, index_of x l = None <-> ~ In x l.
Proof.
  induction l as [|a l IH]; simpl.
  - split; auto.
  - destruct (Nat.eqb_spec a x).
    + split; try discriminate. intros H. exfalso. apply H; auto.
    + destruct (index_of x l) eqn:E.
      * split; try discriminate. intros H. exfalso.
        assert (In x l). { destruct (in_dec Nat.eq_dec x l); auto. apply IH in n1. discriminate. }
        apply H; auto.
      * split; auto. intros _ [D|D]; auto. destruct IH as [A _]. apply A; auto.
Qed.
Lemma nth_error_decomp : forall (l : list nat) k c, nth_error l k = Some c -> l = firstn k l ++ c :: skipn (S k) l.
Proof.
  induction l; destruct k; simpl; intros; try discriminate.
  - inversion H; auto.
  - f_equal. apply IHl; auto.
Qed.

Lemma In_firstn : forall (l : list nat) k x, In x (firstn k l) -> In x l.
Proof. intros. rewrite <- (firstn_skipn k l). apply in_app_iff. auto. Qed.
Lemma In_skipn : forall (l : list nat) k x, In x (skipn k l) -> In x l.
Proof. intros. rewrite <- (firstn_skipn k l). apply in_app_iff. auto. Qed.

Lemma In_insert_at : forall k c l x, In x (insert_at k c l) <-> x = c \/ In x l.
Proof.
  intros. unfold insert_at. rewrite in_app_iff. simpl. split.
  - intros [H|[H|H]]; auto. right. eapply In_firstn; eauto. right. eapply In_skipn; eauto.
  - intros [H|H]; auto. rewrite <- (firstn_skipn k l) in H. apply in_app_iff in H. tauto.
Qed.

Lemma NoDup_insert_at : forall k c l, NoDup l -> ~ In c l -> NoDup (insert_at k c l).
Proof.
  intros. unfold insert_at. apply (NoDup_Add (a:=c) (l:=firstn k l ++ skipn k l)).
  - apply Add_app.
  - rewrite firstn_skipn. auto.
Qed.

Lemma In_remove_at : forall k l x, In x (remove_at k l) -> In x l.
Proof.
  intros. unfold remove_at in H. apply in_app_iff in H. destruct H.
  - eapply In_firstn; eauto.
  - eapply In_skipn; eauto.
Qed.

Lemma NoDup_remove_at : forall k l, NoDup l -> NoDup (remove_at k l).
Proof.
  intros. unfold remove_at. destruct (nth_error l k) eqn:E.
  - rewrite (nth_error_decomp _ _ _ E) in H. apply NoDup_remove_1 in H. auto.
  - apply nth_error_None in E. rewrite skipn_all2 by lia. rewrite firstn_all2 by lia. rewrite app_nil_r. auto.
Qed.

Lemma remove_at_not_In : forall k l c, NoDup l -> nth_error l k = Some c -> ~ In c (remove_at k l).
Proof.
  intros. unfold remove_at. rewrite (nth_error_decomp _ _ _ H0) in H. apply NoDup_remove_2 in H. auto.
Qed.

Lemma In_remove_at_other : forall k l c x, In x l -> nth_error l k = Some c -> x <> c -> In x (remove_at k l).
Proof.
  intros. unfold remove_at. rewrite (nth_error_decomp _ _ _ H0) in H. apply in_app_iff in H. apply in_app_iff.
  destruct H as [H|[H|H]]; auto. congruence.
Qed.

Lemma insert_at_length : forall k c l, length (insert_at k c l) = S (length l).
Proof.
  intros. unfold insert_at. rewrite app_length. simpl. rewrite <- (firstn_skipn k l) at 3. rewrite app_length. lia.
Qed.

Lemma mem_iff : forall x l l', (In x l' <-> In x l) -> mem x l' = mem x l.
Proof.
  intros. destruct (mem x l) eqn:E.
  - apply mem_In. apply H. apply mem_In. auto.
  - apply mem_false. rewrite H. apply mem_false. auto.
Qed.

(* ====================================================================================================== *)
(* C. the invariant as a proposition; tree edges *)

Definition grounded (h : heap) (n : nat) : Prop := exists fuel, rooted fuel h n = true.

Record wf (h : heap) : Prop := mk_wf {
  wf_children : forall n c, In c (children h n) -> c < length h /\ is_frag h c = false /\ is_doc h c = false /\ creator h c = creator h n;
  wf_parent : forall n c, is_tree h n = true -> In c (children h n) -> parent h c = Some n;
  wf_nodup : forall n, is_tree h n = true -> NoDup (children h n);
  wf_owner : forall n, n < length h -> owner h n = Some (creator h n) /\ is_doc h (creator h n) = true;
  wf_acyclic : forall n, n < length h -> grounded h n;
  wf_leaf : forall n, is_text h n = true -> children h n = []
}.

Lemma up_Some : forall h n p, up h n = Some p -> parent h n = Some p /\ is_tree h p = true /\ In n (children h p).
Proof.
  unfold up. intros. destruct (parent h n) eqn:E; try discriminate.
  destruct (is_tree h n0 && mem n (children h n0)) eqn:F; try discriminate.
  inversion H; subst. apply andb_true_iff in F. destruct F. rewrite mem_In in H1. auto.
Qed.

Lemma up_intro : forall h n p, parent h n = Some p -> is_tree h p = true -> In n (children h p) -> up h n = Some p.
Proof. unfold up. intros. rewrite H, H0. apply mem_In in H1. rewrite H1. auto. Qed.

Lemma up_lists : forall h p c, wf h -> is_tree h p = true -> In c (children h p) -> up h c = Some p.
Proof. intros. apply up_intro; auto. eapply wf_parent; eauto. Qed.

Lemma is_tree_valid : forall h p, is_tree h p = true -> p < length h.
Proof.
  unfold is_tree, kind_of. intros. apply get_valid. destruct (get h p); congruence.
Qed.

Lemma up_valid : forall h n p, up h n = Some p -> p < length h.
Proof. intros. apply up_Some in H. apply is_tree_valid. tauto. Qed.

Lemma up_None_not_listed : forall h c q, wf h -> up h c = None -> is_tree h q = true -> ~ In c (children h q).
Proof. intros. intro. erewrite up_lists in H0; eauto. discriminate. Qed.

(* when does an update leave an edge alone *)
Lemma up_congr : forall h h' x,
  parent h' x = parent h x ->
  (forall p, parent h x = Some p -> is_tree h' p = is_tree h p /\ (In x (children h' p) <-> In x (children h p))) ->
  up h' x = up h x.
Proof.
  intros. unfold up. rewrite H. destruct (parent h x) eqn:E; auto.
  destruct (H0 n eq_refl) as [A B]. rewrite A. rewrite (mem_iff _ _ _ B). auto.
Qed.

Lemma rooted_mono : forall h f g n, f <= g -> rooted f h n = true -> rooted g h n = true.
Proof.
  induction f; simpl; intros; try discriminate.
  destruct g; try lia. simpl. destruct (up h n); auto. apply IHf; auto; lia.
Qed.

Lemma rooted_ext : forall h h', (forall x, up h' x = up h x) -> forall f n, rooted f h' n = rooted f h n.
Proof. induction f; simpl; intros; auto. rewrite H. destruct (up h n); auto. Qed.

Lemma chain_ext : forall h h', (forall x, up h' x = up h x) -> forall f n, chain f h' n = chain f h n.
Proof. induction f; simpl; intros; auto. rewrite H. destruct (up h n); auto. rewrite IHf. auto. Qed.

Lemma chain_avoid : forall h h' c, (forall x, x <> c -> up h' x = up h x) ->
  forall f n, ~ In c (chain f h n) -> chain f h' n = chain f h n.
Proof.
  induction f; simpl; intros; auto.
  assert (n <> c) by tauto. rewrite H by auto. destruct (up h n); auto. rewrite IHf; auto.
Qed.

Lemma rooted_avoid : forall h h' c, (forall x, x <> c -> up h' x = up h x) ->
  forall f n, ~ In c (chain f h n) -> rooted f h n = true -> rooted f h' n = true.
Proof.
  induction f; simpl; intros; auto.
  assert (n <> c) by tauto. rewrite H by auto. destruct (up h n); auto; apply IHf; auto; tauto.
Qed.

Lemma grounded_attach : forall h h' c p,
  (forall x, x <> c -> up h' x = up h x) -> up h' c = Some p ->
  (forall f, ~ In c (chain f h p)) -> grounded h p ->
  forall n, grounded h n -> grounded h' n.
Proof.
  intros h h' c p Hx Hc Hav [fp Hp] n [f Hf].
  assert (Gc : grounded h' c).
  { exists (S fp). simpl. rewrite Hc. eapply rooted_avoid; eauto. }
  revert n Hf. induction f; simpl; intros; try discriminate.
  destruct (Nat.eq_dec n c) as [->|N]; auto.
  destruct (up h n) eqn:E.
  - destruct (IHf _ Hf) as [g Hg]. exists (S g). simpl. rewrite Hx, E; auto.
  - exists 1. simpl. rewrite Hx, E; auto.
Qed.

Lemma grounded_detach : forall h h' c,
  (forall x, x <> c -> up h' x = up h x) -> up h' c = None ->
  forall n, grounded h n -> grounded h' n.
Proof.
  intros h h' c Hx Hc n [f Hf]. revert n Hf. induction f; simpl; intros; try discriminate.
  destruct (Nat.eq_dec n c) as [->|N].
  - exists 1. simpl. rewrite Hc. auto.
  - destruct (up h n) eqn:E.
    + destruct (IHf _ Hf) as [g Hg]. exists (S g). simpl. rewrite Hx, E; auto.
    + exists 1. simpl. rewrite Hx, E; auto.
Qed.

Lemma grounded_same : forall h h', (forall x, up h' x = up h x) -> forall n, grounded h n -> grounded h' n.
Proof. intros h h' Hx n [f Hf]. exists f. rewrite (rooted_ext h h'); auto. Qed.

Lemma chain_incl_detach : forall h h' c, (forall x, x <> c -> up h' x = up h x) -> up h' c = None ->
  forall f n, incl (chain f h' n) (chain f h n).
Proof.
  induction f; simpl; intros; auto. apply incl_refl.
  destruct (Nat.eq_dec n c) as [->|N].
  - rewrite H0. intros x [D|[]]. left; auto.
  - rewrite H by auto. destruct (up h n); try apply incl_refl.
    intros x [D|D]; [left; auto|right; apply IHf; auto].
Qed.

(* frames: what every operation leaves alone *)
Record edit (h h' : heap) : Prop := mk_edit {
  e_len : length h' = length h;
  e_kind : forall m, kind_of h' m = kind_of h m;
  e_creator : forall m, creator h' m = creator h m;
  e_attrs : forall m, attrs h' m = attrs h m
}.

Lemma edit_refl : forall h, edit h h.
Proof. intros. constructor; auto. Qed.

Lemma edit_trans : forall h1 h2 h3, edit h1 h2 -> edit h2 h3 -> edit h1 h3.
Proof.
  intros h1 h2 h3 [A B C D] [A' B' C' D']. constructor; intros; congruence.
Qed.

Section EditKinds.
  Context {h h' : heap} (E : edit h h').
  Lemma e_frag : forall m, is_frag h' m = is_frag h m. Proof. intros. unfold is_frag. rewrite (e_kind _ _ E). auto. Qed.
  Lemma e_doc : forall m, is_doc h' m = is_doc h m. Proof. intros. unfold is_doc. rewrite (e_kind _ _ E). auto. Qed.
  Lemma e_tree : forall m, is_tree h' m = is_tree h m. Proof. intros. unfold is_tree. rewrite (e_kind _ _ E). auto. Qed.
  Lemma e_elem : forall m, is_elem h' m = is_elem h m. Proof. intros. unfold is_elem. rewrite (e_kind _ _ E). auto. Qed.
  Lemma e_text : forall m, is_text h' m = is_text h m. Proof. intros. unfold is_text. rewrite (e_kind _ _ E). auto. Qed.
  Lemma e_receiver : forall m, receiver h' m = receiver h m. Proof. intros. unfold receiver. rewrite e_tree, e_frag. auto. Qed.
  Lemma e_valid : forall m, valid h' m = valid h m. Proof. intros. unfold valid. rewrite (e_len _ _ E). auto. Qed.
End EditKinds.

(* accessors of the four setters (generated uniformly) *)
Lemma kind_of_set_children : forall h n v m, kind_of (set_children h n v) m = kind_of h m.
Proof. intros. unfold set_children. apply kind_of_upd. intros; reflexivity. Qed.
Lemma creator_set_children : forall h n v m, creator (set_children h n v) m = creator h m.
Proof. intros. unfold set_children. apply creator_upd. intros; reflexivity. Qed.
Lemma attrs_set_children : forall h n v m, attrs (set_children h n v) m = attrs h m.
Proof. intros. unfold set_children. apply attrs_upd. intros; reflexivity. Qed.
Lemma is_frag_set_children : forall h n v m, is_frag (set_children h n v) m = is_frag h m.
Proof. intros. unfold set_children. apply is_frag_upd. intros; reflexivity. Qed.
Lemma is_doc_set_children : forall h n v m, is_doc (set_children h n v) m = is_doc h m.
Proof. intros. unfold set_children. apply is_doc_upd. intros; reflexivity. Qed.
Lemma is_tree_set_children : forall h n v m, is_tree (set_children h n v) m = is_tree h m.
Proof. intros. unfold set_children. apply is_tree_upd. intros; reflexivity. Qed.
Lemma is_elem_set_children : forall h n v m, is_elem (set_children h n v) m = is_elem h m.
Proof. intros. unfold set_children. apply is_elem_upd. intros; reflexivity. Qed.
Lemma is_text_set_children : forall h n v m, is_text (set_children h n v) m = is_text h m.
Proof. intros. unfold set_children. apply is_text_upd. intros; reflexivity. Qed.
Lemma parent_set_children : forall h n v m, parent (set_children h n v) m = parent h m.
Proof. intros. unfold set_children. apply parent_upd_other. intros; reflexivity. Qed.
Lemma owner_set_children : forall h n v m, owner (set_children h n v) m = owner h m.
Proof. intros. unfold set_children. apply owner_upd_other. intros; reflexivity. Qed.
Lemma length_set_children : forall h n v, length (set_children h n v) = length h.
Proof. intros. unfold set_children. apply upd_length. Qed.
Lemma valid_set_children : forall h n v m, valid (set_children h n v) m = valid h m.
Proof. intros. unfold set_children. apply valid_upd. Qed.
Lemma kind_of_set_parent : forall h n v m, kind_of (set_parent h n v) m = kind_of h m.
Proof. intros. unfold set_parent. apply kind_of_upd. intros; reflexivity. Qed.
Lemma creator_set_parent : forall h n v m, creator (set_parent h n v) m = creator h m.
Proof. intros. unfold set_parent. apply creator_upd. intros; reflexivity. Qed.
Lemma attrs_set_parent : forall h n v m, attrs (set_parent h n v) m = attrs h m.
Proof. intros. unfold set_parent. apply attrs_upd. intros; reflexivity. Qed.
Lemma is_frag_set_parent : forall h n v m, is_frag (set_parent h n v) m = is_frag h m.
Proof. intros. unfold set_parent. apply is_frag_upd. intros; reflexivity. Qed.
Lemma is_doc_set_parent : forall h n v m, is_doc (set_parent h n v) m = is_doc h m.
Proof. intros. unfold set_parent. apply is_doc_upd. intros; reflexivity. Qed.
Lemma is_tree_set_parent : forall h n v m, is_tree (set_parent h n v) m = is_tree h m.
Proof. intros. unfold set_parent. apply is_tree_upd. intros; reflexivity. Qed.
Lemma is_elem_set_parent : forall h n v m, is_elem (set_parent h n v) m = is_elem h m.
Proof. intros. unfold set_parent. apply is_elem_upd. intros; reflexivity. Qed.
Lemma is_text_set_parent : forall h n v m, is_text (set_parent h n v) m = is_text h m.
Proof. intros. unfold set_parent. apply is_text_upd. intros; reflexivity. Qed.
Lemma children_set_parent : forall h n v m, children (set_parent h n v) m = children h m.
Proof. intros. unfold set_parent. apply children_upd_other. intros; reflexivity. Qed.
Lemma owner_set_parent : forall h n v m, owner (set_parent h n v) m = owner h m.
Proof. intros. unfold set_parent. apply owner_upd_other. intros; reflexivity. Qed.
Lemma length_set_parent : forall h n v, length (set_parent h n v) = length h.
Proof. intros. unfold set_parent. apply upd_length. Qed.
Lemma valid_set_parent : forall h n v m, valid (set_parent h n v) m = valid h m.
Proof. intros. unfold set_parent. apply valid_upd. Qed.
Lemma kind_of_set_owner : forall h n v m, kind_of (set_owner h n v) m = kind_of h m.
Proof. intros. unfold set_owner. apply kind_of_upd. intros; reflexivity. Qed.
Lemma creator_set_owner : forall h n v m, creator (set_owner h n v) m = creator h m.
Proof. intros. unfold set_owner. apply creator_upd. intros; reflexivity. Qed.
Lemma attrs_set_owner : forall h n v m, attrs (set_owner h n v) m = attrs h m.
Proof. intros. unfold set_owner. apply attrs_upd. intros; reflexivity. Qed.
Lemma is_frag_set_owner : forall h n v m, is_frag (set_owner h n v) m = is_frag h m.
Proof. intros. unfold set_owner. apply is_frag_upd. intros; reflexivity. Qed.
Lemma is_doc_set_owner : forall h n v m, is_doc (set_owner h n v) m = is_doc h m.
Proof. intros. unfold set_owner. apply is_doc_upd. intros; reflexivity. Qed.
Lemma is_tree_set_owner : forall h n v m, is_tree (set_owner h n v) m = is_tree h m.
Proof. intros. unfold set_owner. apply is_tree_upd. intros; reflexivity. Qed.
Lemma is_elem_set_owner : forall h n v m, is_elem (set_owner h n v) m = is_elem h m.
Proof. intros. unfold set_owner. apply is_elem_upd. intros; reflexivity. Qed.
Lemma is_text_set_owner : forall h n v m, is_text (set_owner h n v) m = is_text h m.
Proof. intros. unfold set_owner. apply is_text_upd. intros; reflexivity. Qed.
Lemma children_set_owner : forall h n v m, children (set_owner h n v) m = children h m.
Proof. intros. unfold set_owner. apply children_upd_other. intros; reflexivity. Qed.
Lemma parent_set_owner : forall h n v m, parent (set_owner h n v) m = parent h m.
Proof. intros. unfold set_owner. apply parent_upd_other. intros; reflexivity. Qed.
Lemma length_set_owner : forall h n v, length (set_owner h n v) = length h.
Proof. intros. unfold set_owner. apply upd_length. Qed.
Lemma valid_set_owner : forall h n v m, valid (set_owner h n v) m = valid h m.
Proof. intros. unfold set_owner. apply valid_upd. Qed.
Lemma kind_of_set_attrs : forall h n v m, kind_of (set_attrs h n v) m = kind_of h m.
Proof. intros. unfold set_attrs. apply kind_of_upd. intros; reflexivity. Qed.
Lemma creator_set_attrs : forall h n v m, creator (set_attrs h n v) m = creator h m.
Proof. intros. unfold set_attrs. apply creator_upd. intros; reflexivity. Qed.
Lemma is_frag_set_attrs : forall h n v m, is_frag (set_attrs h n v) m = is_frag h m.
Proof. intros. unfold set_attrs. apply is_frag_upd. intros; reflexivity. Qed.
Lemma is_doc_set_attrs : forall h n v m, is_doc (set_attrs h n v) m = is_doc h m.
Proof. intros. unfold set_attrs. apply is_doc_upd. intros; reflexivity. Qed.
Lemma is_tree_set_attrs : forall h n v m, is_tree (set_attrs h n v) m = is_tree h m.
Proof. intros. unfold set_attrs. apply is_tree_upd. intros; reflexivity. Qed.
Lemma is_elem_set_attrs : forall h n v m, is_elem (set_attrs h n v) m = is_elem h m.
Proof. intros. unfold set_attrs. apply is_elem_upd. intros; reflexivity. Qed.
Lemma is_text_set_attrs : forall h n v m, is_text (set_attrs h n v) m = is_text h m.
Proof. intros. unfold set_attrs. apply is_text_upd. intros; reflexivity. Qed.
Lemma children_set_attrs : forall h n v m, children (set_attrs h n v) m = children h m.
Proof. intros. unfold set_attrs. apply children_upd_other. intros; reflexivity. Qed.
Lemma parent_set_attrs : forall h n v m, parent (set_attrs h n v) m = parent h m.
Proof. intros. unfold set_attrs. apply parent_upd_other. intros; reflexivity. Qed.
Lemma owner_set_attrs : forall h n v m, owner (set_attrs h n v) m = owner h m.
Proof. intros. unfold set_attrs. apply owner_upd_other. intros; reflexivity. Qed.
Lemma length_set_attrs : forall h n v, length (set_attrs h n v) = length h.
Proof. intros. unfold set_attrs. apply upd_length. Qed.
Lemma valid_set_attrs : forall h n v m, valid (set_attrs h n v) m = valid h m.
Proof. intros. unfold set_attrs. apply valid_upd. Qed.
Lemma receiver_upd : forall h n f m, (forall nd, nkind (f nd) = nkind nd) -> receiver (upd h n f) m = receiver h m.
Proof. intros. unfold receiver. rewrite is_tree_upd, is_frag_upd; auto. Qed.
Lemma receiver_set_children : forall h n v m, receiver (set_children h n v) m = receiver h m.
Proof. intros. unfold set_children. apply receiver_upd. intros; reflexivity. Qed.
Lemma receiver_set_parent : forall h n v m, receiver (set_parent h n v) m = receiver h m.
Proof. intros. unfold set_parent. apply receiver_upd. intros; reflexivity. Qed.
Lemma receiver_set_owner : forall h n v m, receiver (set_owner h n v) m = receiver h m.
Proof. intros. unfold set_owner. apply receiver_upd. intros; reflexivity. Qed.
Lemma receiver_set_attrs : forall h n v m, receiver (set_attrs h n v) m = receiver h m.
Proof. intros. unfold set_attrs. apply receiver_upd. intros; reflexivity. Qed.
Global Hint Rewrite kind_of_set_children creator_set_children attrs_set_children is_frag_set_children is_doc_set_children is_tree_set_children is_elem_set_children is_text_set_children parent_set_children owner_set_children length_set_children valid_set_children kind_of_set_parent creator_set_parent attrs_set_parent is_frag_set_parent is_doc_set_parent is_tree_set_parent is_elem_set_parent is_text_set_parent children_set_parent owner_set_parent length_set_parent valid_set_parent kind_of_set_owner creator_set_owner attrs_set_owner is_frag_set_owner is_doc_set_owner is_tree_set_owner is_elem_set_owner is_text_set_owner children_set_owner parent_set_owner length_set_owner valid_set_owner kind_of_set_attrs creator_set_attrs is_frag_set_attrs is_doc_set_attrs is_tree_set_attrs is_elem_set_attrs is_text_set_attrs children_set_attrs parent_set_attrs owner_set_attrs length_set_attrs valid_set_attrs receiver_set_children receiver_set_parent receiver_set_owner receiver_set_attrs : heap.

Lemma attrs_set_attrs : forall h n a m,
  attrs (set_attrs h n a) m = if Nat.eqb m n then (if valid h n then a else []) else attrs h m.
Proof.
  intros. unfold attrs, set_attrs. destruct (Nat.eqb_spec m n) as [->|N].
  - rewrite get_upd_eq. unfold valid. destruct (get h n) eqn:E; simpl.
    + assert (n < length h) by (apply get_valid; congruence). apply Nat.ltb_lt in H. rewrite H. auto.
    + assert (~ n < length h) by (rewrite get_valid; tauto). apply Nat.ltb_nlt in H. rewrite H. auto.
  - rewrite get_upd_neq; auto.
Qed.

(* ====================================================================================================== *)
(* D. attaching one free node *)

Definition free (h : heap) (p x : nat) : Prop :=
  x < length h /\ (is_elem h x = true \/ is_text h x = true) /\ creator h x = creator h p /\
  up h x = None /\ ~ In x (children h p) /\ forall f, ~ In x (chain f h p).

(* the heap after [c] went into the list of [p] at position [k] (the non-fragment branch of append / insert) *)
Record attached (h : heap) (p k c : nat) (h' : heap) : Prop := mk_attached {
  at_edit : edit h h';
  at_children : forall m, children h' m = if Nat.eqb m p then insert_at k c (children h p) else children h m;
  at_parent : forall m, parent h' m = if Nat.eqb m c then (if is_frag h p then parent h p else Some p) else parent h m;
  at_owner : forall m, owner h' m = if Nat.eqb m c then owner h p else owner h m
}.

Definition attach (h : heap) (p k c : nat) : heap * outcome :=
  set_position (set_children h p (insert_at k c (children h p))) p c.

Lemma receiver_valid : forall h p, receiver h p = true -> p < length h.
Proof.
  unfold receiver, is_tree, is_frag, kind_of. intros. apply get_valid. destruct (get h p); try congruence. discriminate.
Qed.

Lemma kind_flags : forall h x, (is_elem h x = true \/ is_text h x = true) -> is_frag h x = false /\ is_doc h x = false /\ is_tree h x = is_elem h x.
Proof.
  unfold is_elem, is_text, is_frag, is_doc, is_tree. intros. destruct (kind_of h x) as [[]|]; intuition discriminate.
Qed.

Lemma attach_attached : forall h p k c,
  receiver h p = true -> c < length h -> is_doc h c = false ->
  attached h p k c (fst (attach h p k c)) /\ snd (attach h p k c) = ROk (Some c).
Proof.
  intros h p k c Hp Hc Hd. unfold attach, set_position.
  assert (Vp : valid h p = true) by (apply valid_lt; apply receiver_valid; auto).
  assert (Vc : valid h c = true) by (apply valid_lt; auto).
  autorewrite with heap. rewrite Hd. simpl. split; auto.
  constructor.
  - constructor; intros; autorewrite with heap; auto.
  - intros. autorewrite with heap. rewrite children_set_children. rewrite Vp. auto.
  - intros. autorewrite with heap. rewrite parent_set_parent. autorewrite with heap. rewrite Vc. auto.
  - intros. rewrite owner_set_owner. autorewrite with heap. rewrite Vc. auto.
Qed.

Lemma tree_not_frag : forall h p, is_tree h p = true -> is_frag h p = false.
Proof. unfold is_tree, is_frag. intros. destruct (kind_of h p) as [[]|]; auto; discriminate. Qed.

Lemma receiver_cases : forall h p, receiver h p = true -> (is_tree h p = true /\ is_frag h p = false) \/ (is_tree h p = false /\ is_frag h p = true).
Proof. unfold receiver, is_tree, is_frag. intros. destruct (kind_of h p) as [[]|]; auto; discriminate. Qed.

Lemma free_neq : forall h p c, free h p c -> p <> c.
Proof. intros h p c (_ & _ & _ & _ & _ & Fa) ->. apply (Fa 1). simpl. auto. Qed.

Lemma attached_up : forall h p k c h', wf h -> receiver h p = true -> free h p c -> attached h p k c h' ->
  (forall x, x <> c -> up h' x = up h x) /\ up h' c = (if is_tree h p then Some p else None).
Proof.
  intros h p k c h' W Hp F A. pose proof (free_neq _ _ _ F) as Pc.
  destruct F as (Fv & Fk & Fc & Fu & Fn & Fa).
  pose proof (at_edit _ _ _ _ _ A) as E.
  split.
  - intros x Nx. apply up_congr.
    + rewrite (at_parent _ _ _ _ _ A). apply Nat.eqb_neq in Nx. rewrite Nx. auto.
    + intros q Hq. split. apply (e_tree E). rewrite (at_children _ _ _ _ _ A). destruct (Nat.eqb_spec q p).
      * subst. rewrite In_insert_at. intuition.
      * tauto.
  - unfold up. rewrite (at_parent _ _ _ _ _ A). rewrite Nat.eqb_refl.
    destruct (receiver_cases _ _ Hp) as [[T Fr]|[T Fr]]; rewrite T, Fr.
    + rewrite (e_tree E), T. rewrite (at_children _ _ _ _ _ A), Nat.eqb_refl.
      assert (M : mem c (insert_at k c (children h p)) = true) by (apply mem_In; apply In_insert_at; auto).
      rewrite M. auto.
    + destruct (parent h p) as [q|] eqn:Q; auto.
      rewrite (e_tree E). destruct (is_tree h q) eqn:Tq; auto.
      rewrite (at_children _ _ _ _ _ A). destruct (Nat.eqb_spec q p); [congruence|].
      assert (M : mem c (children h q) = false) by (apply mem_false; eapply up_None_not_listed; eauto).
      rewrite M. auto.
Qed.

Lemma attached_wf : forall h p k c h', wf h -> receiver h p = true -> free h p c -> attached h p k c h' -> wf h'.
Proof.
  intros h p k c h' W Hp F A. destruct (attached_up _ _ _ _ _ W Hp F A) as [U1 U2].
  pose proof (free_neq _ _ _ F) as Pc.
  destruct F as (Fv & Fk & Fc & Fu & Fn & Fa).
  pose proof (at_edit _ _ _ _ _ A) as E.
  pose proof (receiver_valid _ _ Hp) as Vp.
  constructor.
  - intros n x Hx. rewrite (at_children _ _ _ _ _ A) in Hx. rewrite (e_len _ _ E), (e_frag E), (e_doc E), !(e_creator _ _ E).
    destruct (Nat.eqb_spec n p).
    + subst n. apply In_insert_at in Hx. destruct Hx as [->|Hx].
      * apply kind_flags in Fk. destruct Fk as (K1 & K2 & _). auto.
      * eapply wf_children; eauto.
    + eapply wf_children; eauto.
  - intros n x Tn Hx. rewrite (e_tree E) in Tn. rewrite (at_children _ _ _ _ _ A) in Hx. rewrite (at_parent _ _ _ _ _ A).
    destruct (Nat.eqb_spec n p) as [->|Np].
    + apply In_insert_at in Hx. destruct Hx as [->|Hx].
      * rewrite Nat.eqb_refl. rewrite (tree_not_frag _ _ Tn). auto.
      * destruct (Nat.eqb_spec x c); [subst; tauto|]. eapply wf_parent; eauto.
    + destruct (Nat.eqb_spec x c).
      * subst. exfalso. eapply up_None_not_listed; eauto.
      * eapply wf_parent; eauto.
  - intros n Tn. rewrite (e_tree E) in Tn. rewrite (at_children _ _ _ _ _ A). destruct (Nat.eqb_spec n p).
    + subst. apply NoDup_insert_at; auto. eapply wf_nodup; eauto.
    + eapply wf_nodup; eauto.
  - intros n Hn. rewrite (e_len _ _ E) in Hn. rewrite (at_owner _ _ _ _ _ A), (e_creator _ _ E), (e_doc E).
    destruct (Nat.eqb_spec n c).
    + subst. rewrite Fc. apply wf_owner; auto.
    + apply wf_owner; auto.
  - intros n Hn. rewrite (e_len _ _ E) in Hn. destruct (is_tree h p) eqn:T.
    + eapply grounded_attach; eauto; apply wf_acyclic; auto.
    + eapply grounded_detach with (c:=c); eauto. apply wf_acyclic; auto.
  - intros n Tn. rewrite (e_text E) in Tn. rewrite (at_children _ _ _ _ _ A). destruct (Nat.eqb_spec n p).
    + subst. exfalso. unfold receiver, is_tree, is_frag, is_text in *. destruct (kind_of h p) as [[]|]; discriminate.
    + apply wf_leaf; auto.
Qed.

(* the other free nodes stay free *)
Lemma attached_free : forall h p k c h' x, wf h -> receiver h p = true -> free h p c -> attached h p k c h' ->
  free h p x -> x <> c -> free h' p x.
Proof.
  intros h p k c h' x W Hp F A Fx Nx. destruct (attached_up _ _ _ _ _ W Hp F A) as [U1 U2].
  destruct F as (Fv & Fk & Fc & Fu & Fn & Fa). destruct Fx as (Xv & Xk & Xc & Xu & Xn & Xa).
  pose proof (at_edit _ _ _ _ _ A) as E.
  unfold free. rewrite (e_len _ _ E), (e_elem E), (e_text E), !(e_creator _ _ E), U1 by auto.
  repeat split; auto.
  - rewrite (at_children _ _ _ _ _ A), Nat.eqb_refl. rewrite In_insert_at. tauto.
  - intros f. rewrite (chain_avoid h h' c); auto.
Qed.

(* ====================================================================================================== *)
(* E. detaching the child at one position *)

Record detached (h : heap) (p k : nat) (h' : heap) : Prop := mk_detached {
  dt_edit : edit h h';
  dt_children : forall m, children h' m = if Nat.eqb m p then remove_at k (children h p) else children h m;
  dt_parent : forall m, parent h' m = parent h m;
  dt_owner : forall m, owner h' m = owner h m
}.

Lemma py_index_Some : forall i n k, py_index i n = Some k -> k < n.
Proof.
  unfold py_index. intros. destruct (i <? 0)%Z eqn:E.
  - destruct ((0 <=? i + Z.of_nat n) && (i + Z.of_nat n <? Z.of_nat n))%Z eqn:F; try discriminate. inversion H. lia.
  - destruct ((0 <=? i) && (i <? Z.of_nat n))%Z eqn:F; try discriminate. inversion H. lia.
Qed.

Lemma py_index_nat : forall k n, k < n -> py_index (Z.of_nat k) n = Some k.
Proof.
  unfold py_index. intros. assert (Z.of_nat k <? 0 = false)%Z by lia. rewrite H0.
  assert ((0 <=? Z.of_nat k) && (Z.of_nat k <? Z.of_nat n) = true)%Z by lia. rewrite H1. rewrite Nat2Z.id. auto.
Qed.

Lemma pop_detached : forall h p i k, receiver h p = true -> py_index i (length (children h p)) = Some k ->
  exists c, nth_error (children h p) k = Some c /\ snd (pop_op h p i) = ROk (Some c) /\ detached h p k (fst (pop_op h p i)).
Proof.
  intros h p i k Hp Hk. unfold pop_op. rewrite Hk. pose proof (py_index_Some _ _ _ Hk) as Lk.
  destruct (nth_error (children h p) k) as [c|] eqn:E.
  2:{ apply nth_error_None in E. lia. }
  exists c. simpl. repeat split; auto; intros; autorewrite with heap; auto.
  rewrite children_set_children. assert (valid h p = true) by (apply valid_lt; apply receiver_valid; auto). rewrite H. auto.
Qed.

Lemma pop_crash : forall h p i, py_index i (length (children h p)) = None -> pop_op h p i = (h, RCrash E_INDEX).
Proof. intros. unfold pop_op. rewrite H. auto. Qed.

Lemma detached_up : forall h p k c h', wf h -> receiver h p = true -> nth_error (children h p) k = Some c -> detached h p k h' ->
  (forall x, x <> c -> up h' x = up h x) /\ (up h' c = None \/ forall x, up h' x = up h x).
Proof.
  intros h p k c h' W Hp Hc D. pose proof (dt_edit _ _ _ _ D) as E.
  assert (U1 : forall x, x <> c -> up h' x = up h x).
  { intros x Nx. apply up_congr.
    - apply (dt_parent _ _ _ _ D).
    - intros q Hq. split. apply (e_tree E). rewrite (dt_children _ _ _ _ D). destruct (Nat.eqb_spec q p); try tauto.
      subst. split. apply In_remove_at. intros. eapply In_remove_at_other; eauto. }
  split; auto.
  destruct (receiver_cases _ _ Hp) as [[T Fr]|[T Fr]].
  - left. unfold up. rewrite (dt_parent _ _ _ _ D).
    assert (In c (children h p)) by (eapply nth_error_In; eauto).
    rewrite (wf_parent _ W p c T H). rewrite (e_tree E), T. rewrite (dt_children _ _ _ _ D), Nat.eqb_refl.
    assert (M : mem c (remove_at k (children h p)) = false).
    { apply mem_false. apply remove_at_not_In; auto. eapply wf_nodup; eauto. }
    rewrite M. auto.
  - right. intros x. destruct (Nat.eq_dec x c) as [->|N]; auto.
    unfold up. rewrite (dt_parent _ _ _ _ D). destruct (parent h c) as [q|]; auto.
    rewrite (e_tree E). rewrite (dt_children _ _ _ _ D). destruct (Nat.eqb_spec q p); auto. subst. rewrite T. auto.
Qed.

Lemma detached_wf : forall h p k c h', wf h -> receiver h p = true -> nth_error (children h p) k = Some c -> detached h p k h' -> wf h'.
Proof.
  intros h p k c h' W Hp Hc D. destruct (detached_up _ _ _ _ _ W Hp Hc D) as [U1 U2].
  pose proof (dt_edit _ _ _ _ D) as E.
  constructor.
  - intros n x Hx. rewrite (dt_children _ _ _ _ D) in Hx. rewrite (e_len _ _ E), (e_frag E), (e_doc E), !(e_creator _ _ E).
    destruct (Nat.eqb_spec n p); [apply In_remove_at in Hx; subst|]; eapply wf_children; eauto.
  - intros n x Tn Hx. rewrite (e_tree E) in Tn. rewrite (dt_children _ _ _ _ D) in Hx. rewrite (dt_parent _ _ _ _ D).
    destruct (Nat.eqb_spec n p); [apply In_remove_at in Hx; subst|]; eapply wf_parent; eauto.
  - intros n Tn. rewrite (e_tree E) in Tn. rewrite (dt_children _ _ _ _ D).
    destruct (Nat.eqb_spec n p); [subst; apply NoDup_remove_at|]; eapply wf_nodup; eauto.
  - intros n Hn. rewrite (e_len _ _ E) in Hn. rewrite (dt_owner _ _ _ _ D), (e_creator _ _ E), (e_doc E). apply wf_owner; auto.
  - intros n Hn. rewrite (e_len _ _ E) in Hn. destruct U2 as [U2|U2].
    + eapply grounded_detach with (c:=c); eauto. apply wf_acyclic; auto.
    + eapply grounded_same; eauto. apply wf_acyclic; auto.
  - intros n Tn. rewrite (e_text E) in Tn. rewrite (dt_children _ _ _ _ D). destruct (Nat.eqb_spec n p).
    + subst. exfalso. unfold receiver, is_tree, is_frag, is_text in *. destruct (kind_of h p) as [[]|]; discriminate.
    + apply wf_leaf; auto.
Qed.

Lemma detached_free : forall h p k c h' x, wf h -> receiver h p = true -> nth_error (children h p) k = Some c -> detached h p k h' ->
  free h p x -> free h' p x.
Proof.
  intros h p k c h' x W Hp Hc D Fx. destruct (detached_up _ _ _ _ _ W Hp Hc D) as [U1 U2].
  destruct Fx as (Xv & Xk & Xc & Xu & Xn & Xa).
  pose proof (dt_edit _ _ _ _ D) as E.
  assert (Nx : x <> c). { intros ->. apply Xn. eapply nth_error_In; eauto. }
  unfold free. rewrite (e_len _ _ E), (e_elem E), (e_text E), !(e_creator _ _ E), U1 by auto.
  repeat split; auto.
  - rewrite (dt_children _ _ _ _ D), Nat.eqb_refl. intro. apply Xn. eapply In_remove_at; eauto.
  - intros f. destruct U2 as [U2|U2].
    + intro. apply (Xa f). eapply chain_incl_detach; eauto.
    + rewrite (chain_ext h h'); auto.
Qed.

(* ====================================================================================================== *)
(* F. loops that attach a list of free nodes *)

Lemma firstn_S_insert_at : forall k x l, k <= length l -> firstn (S k) (insert_at k x l) = firstn k l ++ [x].
Proof.
  intros. unfold insert_at. rewrite firstn_app. rewrite firstn_length_le by auto.
  rewrite firstn_all2 by (rewrite firstn_length_le; auto). replace (S k - k) with 1 by lia. auto.
Qed.

Lemma skipn_S_insert_at : forall k x l, k <= length l -> skipn (S k) (insert_at k x l) = skipn k l.
Proof.
  intros. unfold insert_at. rewrite skipn_app. rewrite firstn_length_le by auto.
  rewrite skipn_all2 by (rewrite firstn_length_le; auto). replace (S k - k) with 1 by lia. auto.
Qed.

Lemma insert_at_end : forall x l, insert_at (length l) x l = l ++ [x].
Proof. intros. unfold insert_at. rewrite firstn_all, skipn_all. auto. Qed.

Lemma free_not_frag : forall h p x, free h p x -> is_frag h x = false /\ is_doc h x = false /\ x < length h.
Proof. intros h p x (Xv & Xk & _). apply kind_flags in Xk. tauto. Qed.

Lemma insert_attach : forall f h p i x, is_frag h x = false ->
  insert_f (S f) h p i x = attach h p (py_insert_pos i (length (children h p))) x.
Proof. intros. simpl. rewrite H. auto. Qed.

Lemma append_attach : forall f h p x, is_frag h x = false ->
  append_f (S f) h p x = attach h p (length (children h p)) x.
Proof. intros. simpl. rewrite H. unfold attach. rewrite insert_at_end. auto. Qed.

Lemma py_insert_pos_nonneg : forall j n, (0 <= j)%Z -> py_insert_pos j n = Nat.min (Z.to_nat j) n.
Proof. intros. unfold py_insert_pos. assert (j <? 0 = false)%Z by lia. rewrite H0. auto. Qed.

(* the result of a loop that put [its] into the list of [p] at position [k] *)
Record spliced (h : heap) (p k : nat) (its : list nat) (h' : heap) : Prop := mk_spliced {
  sp_wf : wf h';
  sp_edit : edit h h';
  sp_children : forall m, children h' m = if Nat.eqb m p then firstn k (children h p) ++ its ++ skipn k (children h p) else children h m;
  sp_free : forall y, free h p y -> ~ In y its -> free h' p y
}.

Lemma insert_loop : forall f p its h j,
  wf h -> receiver h p = true -> (0 <= j)%Z -> NoDup its -> (forall x, In x its -> free h p x) ->
  let r := for_each_pos (fun h1 j x => insert_f (S f) h1 p j x) h j its in
  snd r = ROk None /\ spliced h p (Nat.min (Z.to_nat j) (length (children h p))) its (fst r).
Proof.
  induction its as [|x its IH]; intros h j W Hp Hj ND Fr; cbn [for_each_pos].
  - cbn [fst snd]. split; auto. constructor; auto. apply edit_refl.
    intros. cbn [app]. rewrite firstn_skipn. destruct (Nat.eqb_spec m p); subst; auto.
  - assert (Fx : free h p x) by (apply Fr; simpl; auto).
    destruct (free_not_frag _ _ _ Fx) as (Xf & Xd & Xv).
    set (k := Nat.min (Z.to_nat j) (length (children h p))).
    rewrite insert_attach by auto. rewrite py_insert_pos_nonneg by auto. fold k.
    destruct (attach_attached h p k x Hp Xv Xd) as [A O].
    destruct (attach h p k x) as [h1 o]. cbn [fst snd] in A, O. subst o. cbn [bind].
    pose proof (at_edit _ _ _ _ _ A) as E.
    assert (W1 : wf h1) by (eapply attached_wf; eauto).
    assert (Hp1 : receiver h1 p = true) by (rewrite (e_receiver E); auto).
    inversion ND; subst.
    assert (Fr1 : forall y, In y its -> free h1 p y).
    { intros y Hy. apply (attached_free h p k x h1 y W Hp Fx A); [apply Fr; simpl; auto | intros ->; auto]. }
    destruct (IH h1 (j + 1)%Z W1 Hp1 ltac:(lia) H2 Fr1) as [O1 S1].
    split; auto.
    assert (Kle : k <= length (children h p)) by (unfold k; lia).
    assert (L1 : children h1 p = insert_at k x (children h p)) by (rewrite (at_children _ _ _ _ _ A), Nat.eqb_refl; auto).
    assert (K1 : Nat.min (Z.to_nat (j + 1)) (length (children h1 p)) = S k).
    { rewrite L1, insert_at_length. unfold k. lia. }
    rewrite K1 in S1. destruct S1 as [Sw Se Sc Sf].
    constructor; auto.
    + eapply edit_trans; eauto.
    + intros m. rewrite Sc. destruct (Nat.eqb_spec m p).
      * rewrite L1. rewrite firstn_S_insert_at, skipn_S_insert_at by auto. rewrite <- app_assoc. auto.
      * rewrite (at_children _ _ _ _ _ A). apply Nat.eqb_neq in n. rewrite n. auto.
    + intros y Fy Ny. apply Sf; [apply (attached_free h p k x h1 y W Hp Fx A); auto; intros ->; apply Ny; simpl; auto | intro; apply Ny; simpl; auto].
Qed.

Lemma append_loop : forall f p its h,
  wf h -> receiver h p = true -> NoDup its -> (forall x, In x its -> free h p x) ->
  let r := for_each (fun h1 x => append_f (S f) h1 p x) h its in
  snd r = ROk None /\ spliced h p (length (children h p)) its (fst r).
Proof.
  induction its as [|x its IH]; intros h W Hp ND Fr; cbn [for_each].
  - cbn [fst snd]. split; auto. constructor; auto. apply edit_refl.
    intros. cbn [app]. rewrite firstn_skipn. destruct (Nat.eqb_spec m p); subst; auto.
  - assert (Fx : free h p x) by (apply Fr; simpl; auto).
    destruct (free_not_frag _ _ _ Fx) as (Xf & Xd & Xv).
    set (k := length (children h p)).
    rewrite append_attach by auto. fold k.
    destruct (attach_attached h p k x Hp Xv Xd) as [A O].
    destruct (attach h p k x) as [h1 o]. cbn [fst snd] in A, O. subst o. cbn [bind].
    pose proof (at_edit _ _ _ _ _ A) as E.
    assert (W1 : wf h1) by (eapply attached_wf; eauto).
    assert (Hp1 : receiver h1 p = true) by (rewrite (e_receiver E); auto).
    inversion ND; subst.
    assert (Fr1 : forall y, In y its -> free h1 p y).
    { intros y Hy. apply (attached_free h p k x h1 y W Hp Fx A); [apply Fr; simpl; auto | intros ->; auto]. }
    destruct (IH h1 W1 Hp1 H2 Fr1) as [O1 S1].
    split; auto.
    assert (L1 : children h1 p = insert_at k x (children h p)) by (rewrite (at_children _ _ _ _ _ A), Nat.eqb_refl; auto).
    assert (K1 : length (children h1 p) = S k) by (rewrite L1, insert_at_length; auto).
    rewrite K1 in S1. destruct S1 as [Sw Se Sc Sf].
    constructor; auto.
    + eapply edit_trans; eauto.
    + intros m. rewrite Sc. destruct (Nat.eqb_spec m p).
      * rewrite L1. rewrite firstn_S_insert_at, skipn_S_insert_at by (unfold k; auto). rewrite <- app_assoc. auto.
      * rewrite (at_children _ _ _ _ _ A). apply Nat.eqb_neq in n. rewrite n. auto.
    + intros y Fy Ny. apply Sf; [apply (attached_free h p k x h1 y W Hp Fx A); auto; intros ->; apply Ny; simpl; auto | intro; apply Ny; simpl; auto].
Qed.

(* ====================================================================================================== *)
(* G. the editing operations *)

Definition adm (h : heap) (p c : nat) : Prop :=
  receiver h p = true /\ c < length h /\ c <> p /\ (is_frag h c = true -> creator h c = creator h p) /\
  NoDup (items h c) /\ (forall x, In x (items h c) -> free h p x).

(* wf afterwards, nothing but the child list of [p] differs among the child lists, and that list is [l'] *)
Record result_ok (h : heap) (p : nat) (l' : list nat) (h' : heap) : Prop := mk_result_ok {
  ro_wf : wf h';
  ro_edit : edit h h';
  ro_children : forall m, children h' m = if Nat.eqb m p then l' else children h m
}.

Lemma frag_not_listed : forall h c q, wf h -> is_frag h c = true -> ~ In c (children h q).
Proof. intros h c q W Fc I. destruct (wf_children _ W _ _ I) as (_ & F & _). congruence. Qed.

Lemma frag_not_doc : forall h c, is_frag h c = true -> is_doc h c = false.
Proof. unfold is_frag, is_doc. intros. destruct (kind_of h c) as [[]|]; auto; discriminate. Qed.

Lemma set_position_frag : forall h p c,
  wf h -> receiver h p = true -> c < length h -> is_frag h c = true -> creator h c = creator h p ->
  snd (set_position h p c) = ROk (Some c) /\ wf (fst (set_position h p c)) /\ edit h (fst (set_position h p c)) /\
  (forall m, children (fst (set_position h p c)) m = children h m).
Proof.
  intros h p c W Hp Vc Fc Cc. unfold set_position. rewrite (frag_not_doc _ _ Fc). cbn [fst snd].
  set (par := if is_frag h p then parent h p else Some p).
  set (h' := set_owner (set_parent h c par) c (owner (set_parent h c par) p)).
  assert (E : edit h h') by (constructor; intros; unfold h'; autorewrite with heap; auto).
  assert (C : forall m, children h' m = children h m) by (intros; unfold h'; autorewrite with heap; auto).
  assert (P : forall m, m <> c -> parent h' m = parent h m).
  { intros. unfold h'. autorewrite with heap. rewrite parent_set_parent. apply Nat.eqb_neq in H. rewrite H. auto. }
  assert (O : forall m, owner h' m = if Nat.eqb m c then owner h p else owner h m).
  { intros. unfold h'. rewrite owner_set_owner. autorewrite with heap.
    assert (valid h c = true) by (apply valid_lt; auto). rewrite H. auto. }
  assert (NL : forall q, ~ In c (children h q)) by (intros; apply frag_not_listed; auto).
  assert (U : forall x, up h' x = up h x).
  { intros x. destruct (Nat.eq_dec x c) as [->|N].
    - unfold up. destruct (parent h' c) as [q|]; destruct (parent h c) as [q'|]; auto;
        repeat match goal with |- context [mem c (children ?H ?Q)] =>
          let M := fresh in assert (M : mem c (children H Q) = false) by (apply mem_false; try rewrite C; apply NL); rewrite M end;
        rewrite ?andb_false_r; auto.
    - apply up_congr; auto. intros q _. rewrite (e_tree E), C. tauto. }
  fold par. fold h'. split; [reflexivity|]. split; [|split; auto].
  constructor.
  - intros n x. rewrite C, (e_len _ _ E), (e_frag E), (e_doc E), !(e_creator _ _ E). apply (wf_children _ W).
  - intros n x. rewrite C, (e_tree E). intros. rewrite P. eapply wf_parent; eauto. intros ->. eapply NL; eauto.
  - intros n. rewrite C, (e_tree E). apply (wf_nodup _ W).
  - intros n. rewrite (e_len _ _ E), O, (e_creator _ _ E), (e_doc E). intros. destruct (Nat.eqb_spec n c).
    + subst. rewrite Cc. apply wf_owner; auto. apply receiver_valid; auto.
    + apply wf_owner; auto.
  - intros n. rewrite (e_len _ _ E). intros. eapply grounded_same; eauto. apply wf_acyclic; auto.
  - intros n. rewrite (e_text E), C. apply wf_leaf; auto.
Qed.

Lemma items_nonfrag : forall h c, is_frag h c = false -> items h c = [c].
Proof. intros. unfold items. rewrite H. auto. Qed.
Lemma items_frag : forall h c, is_frag h c = true -> items h c = children h c.
Proof. intros. unfold items. rewrite H. auto. Qed.

Lemma spliced_result : forall h p k its h', spliced h p k its h' -> result_ok h p (splice k 0 its (children h p)) h'.
Proof.
  intros h p k its h' [A B C D]. constructor; auto. intros. rewrite C. unfold splice. rewrite Nat.add_0_r. auto.
Qed.

Lemma result_ok_edit : forall h p l h1 h2, result_ok h p l h1 -> wf h2 -> edit h1 h2 -> (forall m, children h2 m = children h1 m) ->
  result_ok h p l h2.
Proof.
  intros h p l h1 h2 [A B C] W E Ch. constructor; auto. eapply edit_trans; eauto. intros. rewrite Ch. auto.
Qed.

(* position [k] for one node *)
Lemma attach_ok : forall h p k c, wf h -> receiver h p = true -> free h p c ->
  snd (attach h p k c) = ROk (Some c) /\ result_ok h p (splice k 0 [c] (children h p)) (fst (attach h p k c)).
Proof.
  intros h p k c W Hp F. destruct (free_not_frag _ _ _ F) as (Xf & Xd & Xv).
  destruct (attach_attached h p k c Hp Xv Xd) as [A O]. split; auto.
  constructor. eapply attached_wf; eauto. apply (at_edit _ _ _ _ _ A).
  intros. rewrite (at_children _ _ _ _ _ A). unfold splice, insert_at. rewrite Nat.add_0_r. auto.
Qed.

Lemma insert_f_S : forall f h self i c, insert_f (S f) h self i c =
      if is_frag h c then
        let i0 := if (i <? 0)%Z then Z.max (i + Z.of_nat (length (children h self))) 0 else i in
        if Nat.eqb c self && nonempty (children h c)
        then self_loop (for_each_pos (fun h1 j x => insert_f f h1 self j x) h i0
                          (firstn (Nat.max 1 (Nat.min (Z.to_nat i0) (length (children h c)))) (children h c)))
        else bind (for_each_pos (fun h1 j x => insert_f f h1 self j x) h i0 (children h c)) (fun h1 _ => set_position h1 self c)
      else set_position (set_children h self (py_insert i c (children h self))) self c.
Proof. reflexivity. Qed.

Lemma append_f_S : forall f h self c, append_f (S f) h self c =
      if is_frag h c then
        if Nat.eqb c self && nonempty (children h c)
        then self_loop (for_each (fun h1 x => append_f f h1 self x) h (children h c))
        else bind (for_each (fun h1 x => append_f f h1 self x) h (children h c)) (fun h1 _ => set_position h1 self c)
      else set_position (set_children h self (children h self ++ [c])) self c.
Proof. reflexivity. Qed.

Lemma insert_ok : forall h p i c, wf h -> adm h p c ->
  snd (insert_f fuel0 h p i c) = ROk (Some c) /\
  result_ok h p (l_insert i (children h p) (items h c)) (fst (insert_f fuel0 h p i c)).
Proof.
  intros h p i c W (Hp & Vc & Np & Cc & ND & Fr). unfold fuel0, l_insert.
  destruct (is_frag h c) eqn:Fc.
  - rewrite items_frag in * by auto. rewrite insert_f_S. rewrite Fc. cbv zeta.
    apply Nat.eqb_neq in Np. rewrite Np. cbn [andb].
    set (j := if (i <? 0)%Z then Z.max (i + Z.of_nat (length (children h p))) 0 else i).
    assert (Hj : (0 <= j)%Z) by (unfold j; destruct (i <? 0)%Z eqn:E; lia).
    destruct (insert_loop 6 p (children h c) h j W Hp Hj ND Fr) as [O S].
    assert (K : Nat.min (Z.to_nat j) (length (children h p)) = py_insert_pos i (length (children h p))).
    { unfold py_insert_pos, j. destruct (i <? 0)%Z eqn:E; auto. lia. }
    rewrite K in S.
    destruct (for_each_pos (fun h1 j0 x => insert_f 7 h1 p j0 x) h j (children h c)) as [h1 o]. cbn [fst snd] in O, S. subst o.
    cbn [bind]. pose proof (sp_edit _ _ _ _ _ S) as E.
    destruct (set_position_frag h1 p c (sp_wf _ _ _ _ _ S)) as (O2 & W2 & E2 & C2).
    + rewrite (e_receiver E); auto.
    + rewrite (e_len _ _ E); auto.
    + rewrite (e_frag E); auto.
    + rewrite !(e_creator _ _ E); auto.
    + split; auto. eapply result_ok_edit; eauto. apply spliced_result; auto.
  - rewrite items_nonfrag in * by auto. rewrite insert_attach by auto.
    apply attach_ok; auto. apply Fr. simpl; auto.
Qed.

Lemma append_ok : forall h p c, wf h -> adm h p c ->
  snd (append_f fuel0 h p c) = ROk (Some c) /\
  result_ok h p (children h p ++ items h c) (fst (append_f fuel0 h p c)).
Proof.
  intros h p c W (Hp & Vc & Np & Cc & ND & Fr). unfold fuel0.
  assert (SP : forall its, splice (length (children h p)) 0 its (children h p) = children h p ++ its).
  { intros. unfold splice. rewrite Nat.add_0_r, firstn_all, skipn_all, app_nil_r. auto. }
  destruct (is_frag h c) eqn:Fc.
  - rewrite items_frag in * by auto. rewrite append_f_S. rewrite Fc.
    apply Nat.eqb_neq in Np. rewrite Np. cbn [andb].
    destruct (append_loop 6 p (children h c) h W Hp ND Fr) as [O S].
    destruct (for_each (fun h1 x => append_f 7 h1 p x) h (children h c)) as [h1 o]. cbn [fst snd] in O, S. subst o.
    cbn [bind]. pose proof (sp_edit _ _ _ _ _ S) as E.
    destruct (set_position_frag h1 p c (sp_wf _ _ _ _ _ S)) as (O2 & W2 & E2 & C2).
    + rewrite (e_receiver E); auto.
    + rewrite (e_len _ _ E); auto.
    + rewrite (e_frag E); auto.
    + rewrite !(e_creator _ _ E); auto.
    + split; auto. eapply result_ok_edit; eauto. rewrite <- SP. apply spliced_result; auto.
  - rewrite items_nonfrag in * by auto. rewrite append_attach by auto. rewrite <- SP.
    apply attach_ok; auto. apply Fr. simpl; auto.
Qed.

(* list algebra of splices *)
Lemma splice_firstn : forall k (its l : list nat), k <= length l ->
  firstn (k + length its) (firstn k l ++ its ++ skipn k l) = firstn k l ++ its.
Proof.
  intros. rewrite app_assoc. rewrite firstn_app.
  assert (L : length (firstn k l ++ its) = k + length its) by (rewrite app_length, firstn_length_le; auto).
  rewrite L. rewrite firstn_all2 by lia. replace (k + length its - (k + length its)) with 0 by lia. simpl. apply app_nil_r.
Qed.

Lemma skipn_skipn_add : forall a b (l : list nat), skipn a (skipn b l) = skipn (b + a) l.
Proof.
  intros a b. revert a. induction b; intros; simpl; auto. destruct l; simpl; auto. destruct a; auto.
Qed.

Lemma splice_skipn : forall k d (its l : list nat), k <= length l ->
  skipn (k + length its + d) (firstn k l ++ its ++ skipn k l) = skipn (k + d) l.
Proof.
  intros. rewrite app_assoc. rewrite skipn_app.
  assert (L : length (firstn k l ++ its) = k + length its) by (rewrite app_length, firstn_length_le; auto).
  rewrite L. rewrite skipn_all2 by lia. replace (k + length its + d - (k + length its)) with d by lia. simpl.
  apply skipn_skipn_add.
Qed.

Lemma remove_at_splice : forall k (its l : list nat), k <= length l ->
  remove_at (k + length its) (firstn k l ++ its ++ skipn k l) = splice k 1 its l.
Proof.
  intros. unfold remove_at, splice. rewrite splice_firstn by auto.
  replace (S (k + length its)) with (k + length its + 1) by lia. rewrite splice_skipn by auto. rewrite <- app_assoc. auto.
Qed.

Lemma splice_remove_at : forall k (its l : list nat), k <= length l ->
  splice k 0 its (remove_at k l) = splice k 1 its l.
Proof.
  intros. unfold splice, remove_at. rewrite Nat.add_0_r.
  rewrite firstn_app, firstn_firstn, Nat.min_id. rewrite firstn_length_le by auto. rewrite Nat.sub_diag. simpl. rewrite app_nil_r.
  rewrite skipn_app. rewrite firstn_length_le by auto. rewrite Nat.sub_diag. simpl.
  rewrite skipn_all2 by (rewrite firstn_length_le; auto). simpl. rewrite Nat.add_1_r. auto.
Qed.

Lemma remove_at_splice0 : forall k (l : list nat), remove_at k l = splice k 1 [] l.
Proof. intros. unfold remove_at, splice. rewrite Nat.add_1_r. auto. Qed.

Lemma splice_length : forall k (its l : list nat), k <= length l -> length (firstn k l ++ its ++ skipn k l) = length l + length its.
Proof. intros. rewrite !app_length, firstn_length_le, skipn_length by auto. lia. Qed.

Lemma py_insert_pos_nat : forall k n, k <= n -> py_insert_pos (Z.of_nat k) n = k.
Proof. intros. rewrite py_insert_pos_nonneg by lia. rewrite Nat2Z.id. lia. Qed.

(* pop / removeChild *)
Lemma detached_result : forall h p k c h', wf h -> receiver h p = true -> nth_error (children h p) k = Some c -> detached h p k h' ->
  result_ok h p (splice k 1 [] (children h p)) h'.
Proof.
  intros. constructor. eapply detached_wf; eauto. apply (dt_edit _ _ _ _ H2).
  intros. rewrite (dt_children _ _ _ _ H2). rewrite remove_at_splice0. auto.
Qed.

Lemma pop_ok : forall h p i, wf h -> receiver h p = true ->
  match py_index i (length (children h p)) with
  | Some k => exists c, nth_error (children h p) k = Some c /\ snd (pop_op h p i) = ROk (Some c) /\
                        result_ok h p (splice k 1 [] (children h p)) (fst (pop_op h p i))
  | None => pop_op h p i = (h, RCrash E_INDEX)
  end.
Proof.
  intros h p i W Hp. destruct (py_index i (length (children h p))) as [k|] eqn:E.
  - destruct (pop_detached h p i k Hp E) as (c & Hc & O & D). exists c. split; [auto|split; [auto|]]. eapply detached_result; eauto.
  - apply pop_crash; auto.
Qed.

Lemma remove_child_ok : forall h p old, wf h -> receiver h p = true ->
  match index_of old (children h p) with
  | Some k => snd (remove_child h p old) = ROk (Some old) /\ result_ok h p (splice k 1 [] (children h p)) (fst (remove_child h p old))
  | None => remove_child h p old = (h, RCrash E_NOTFOUND)
  end.
Proof.
  intros h p old W Hp. unfold remove_child. destruct (index_of old (children h p)) as [k|] eqn:E; auto.
  destruct (index_of_Some _ _ _ E) as (N & L & _).
  pose proof (pop_ok h p (Z.of_nat k) W Hp) as P. rewrite py_index_nat in P by auto.
  destruct P as (c & Hc & O & R). rewrite N in Hc. inversion Hc; subst. auto.
Qed.

(* admissibility survives a detachment in the same receiver *)
Lemma adm_detached : forall h p c k old h', wf h -> adm h p c -> nth_error (children h p) k = Some old -> detached h p k h' -> adm h' p c.
Proof.
  intros h p c k old h' W (Hp & Vc & Np & Cc & ND & Fr) Ho D. pose proof (dt_edit _ _ _ _ D) as E.
  assert (I : items h' c = items h c).
  { unfold items. rewrite (e_frag E). rewrite (dt_children _ _ _ _ D). apply Nat.eqb_neq in Np. rewrite Np. auto. }
  unfold adm. rewrite I, (e_receiver E), (e_len _ _ E), (e_frag E), !(e_creator _ _ E).
  refine (conj _ (conj _ (conj _ (conj _ (conj _ _))))); auto.
  intros. eapply detached_free; eauto.
Qed.

Lemma adm_not_child : forall h p c, wf h -> adm h p c -> ~ In c (children h p).
Proof.
  intros h p c W (Hp & Vc & Np & Cc & ND & Fr). destruct (is_frag h c) eqn:Fc.
  - apply frag_not_listed; auto.
  - rewrite items_nonfrag in Fr by auto. destruct (Fr c) as (_ & _ & _ & _ & N & _); simpl; auto.
Qed.

Lemma try_remove_noop : forall h p c, wf h -> adm h p c -> try_remove h p c = (h, ROk None).
Proof.
  intros. unfold try_remove, remove_child. pose proof (adm_not_child _ _ _ H H0) as N.
  apply index_of_None in N. rewrite N. auto.
Qed.

Lemma insert_rel_ok : forall after h p c ref, wf h -> adm h p c ->
  match index_of ref (children h p) with
  | Some k => snd (insert_rel after h p c ref) = ROk (Some c) /\
              result_ok h p (splice (k + if after then 1 else 0) 0 (items h c) (children h p)) (fst (insert_rel after h p c ref))
  | None => insert_rel after h p c ref = (h, RCrash E_NOTFOUND)
  end.
Proof.
  intros after h p c ref W A. unfold insert_rel. rewrite try_remove_noop by auto. cbn [bind].
  destruct (index_of ref (children h p)) as [k|] eqn:E; auto.
  destruct (index_of_Some _ _ _ E) as (_ & L & _).
  set (j := if after then S k else k).
  destruct (insert_ok h p (Z.of_nat j) c W A) as [O R].
  destruct (insert_f fuel0 h p (Z.of_nat j) c) as [h1 o]. cbn [fst snd] in *. subst o. cbn [bind fst snd]. split; auto.
  unfold l_insert in R. rewrite py_insert_pos_nat in R by (unfold j; destruct after; lia).
  replace (k + (if after then 1 else 0)) with j by (unfold j; destruct after; lia). auto.
Qed.

Lemma replace_child_ok : forall h p c old, wf h -> adm h p c ->
  match index_of old (children h p) with
  | Some k => snd (replace_child h p c old) = ROk (Some old) /\
              result_ok h p (splice k 1 (items h c) (children h p)) (fst (replace_child h p c old))
  | None => replace_child h p c old = (h, RCrash E_NOTFOUND)
  end.
Proof.
  intros h p c old W A. unfold replace_child. rewrite try_remove_noop by auto. cbn [bind].
  destruct (index_of old (children h p)) as [k|] eqn:E; auto.
  destruct (index_of_Some _ _ _ E) as (N & L & _).
  assert (Hp : receiver h p = true) by (destruct A; auto).
  destruct (pop_detached h p (Z.of_nat k) k Hp (py_index_nat _ _ L)) as (c0 & Hc & O & D).
  destruct (pop_op h p (Z.of_nat k)) as [h2 o]. cbn [fst snd] in *. subst o. cbn [bind].
  pose proof (detached_wf _ _ _ _ _ W Hp Hc D) as W2.
  pose proof (adm_detached _ _ _ _ _ _ W A Hc D) as A2.
  destruct (insert_ok h2 p (Z.of_nat k) c W2 A2) as [O3 R3].
  destruct (insert_f fuel0 h2 p (Z.of_nat k) c) as [h3 o]. cbn [fst snd] in *. subst o. cbn [bind fst snd]. split; auto.
  pose proof (dt_edit _ _ _ _ D) as E2. destruct R3 as [W3 E3 C3].
  assert (I : items h2 c = items h c).
  { destruct A as (_ & _ & Np & _). unfold items. rewrite (e_frag E2). rewrite (dt_children _ _ _ _ D). apply Nat.eqb_neq in Np. rewrite Np. auto. }
  constructor; auto. eapply edit_trans; eauto.
  intros m. rewrite C3. destruct (Nat.eqb_spec m p) as [->|Nm].
  - rewrite (dt_children _ _ _ _ D), Nat.eqb_refl. unfold l_insert. rewrite I.
    assert (Lr : length (remove_at k (children h p)) = length (children h p) - 1).
    { unfold remove_at. rewrite app_length, firstn_length_le, skipn_length by lia. lia. }
    rewrite py_insert_pos_nat by lia. apply splice_remove_at. lia.
  - rewrite (dt_children _ _ _ _ D). apply Nat.eqb_neq in Nm. rewrite Nm. auto.
Qed.

Lemma pop_after_splice : forall h p k its h1, receiver h p = true ->
  wf h1 -> edit h h1 ->
  (forall m, children h1 m = if Nat.eqb m p then firstn k (children h p) ++ its ++ skipn k (children h p) else children h m) ->
  k < length (children h p) ->
  exists x, snd (pop_op h1 p (Z.of_nat (k + length its))) = ROk (Some x) /\
            result_ok h p (splice k 1 its (children h p)) (fst (pop_op h1 p (Z.of_nat (k + length its)))).
Proof.
  intros h p k its h1 Hp W1 E C L.
  assert (Hp1 : receiver h1 p = true) by (rewrite (e_receiver E); auto).
  assert (C1 : children h1 p = firstn k (children h p) ++ its ++ skipn k (children h p)) by (rewrite C, Nat.eqb_refl; auto).
  assert (L1 : k + length its < length (children h1 p)) by (rewrite C1, splice_length; lia).
  destruct (pop_detached h1 p _ _ Hp1 (py_index_nat _ _ L1)) as (x & Hx & O & D).
  exists x. split; auto. constructor.
  - eapply detached_wf; eauto.
  - eapply edit_trans; eauto. apply (dt_edit _ _ _ _ D).
  - intros m. rewrite (dt_children _ _ _ _ D). destruct (Nat.eqb_spec m p) as [->|Nm].
    + rewrite C1. apply remove_at_splice. lia.
    + rewrite C. apply Nat.eqb_neq in Nm. rewrite Nm. auto.
Qed.

Lemma set_item_ok : forall h p i c, wf h -> adm h p c ->
  match py_index i (length (children h p)) with
  | Some k => snd (set_item h p i c) = ROk None /\ result_ok h p (splice k 1 (items h c) (children h p)) (fst (set_item h p i c))
  | None => set_item h p i c = (h, RCrash E_INDEX)
  end.
Proof.
  intros h p i c W A. unfold set_item. destruct (py_index i (length (children h p))) as [k|] eqn:Ei; auto.
  pose proof (py_index_Some _ _ _ Ei) as L.
  pose proof A as (Hp & Vc & Np & Cc & ND & Fr).
  destruct (is_frag h c) eqn:Fc.
  - rewrite items_frag in * by auto. apply Nat.eqb_neq in Np. rewrite Np. cbn [andb].
    destruct (insert_loop 7 p (children h c) h (Z.of_nat k) W Hp ltac:(lia) ND Fr) as [O S].
    rewrite Nat2Z.id in S. replace (Nat.min k (length (children h p))) with k in S by lia.
    unfold fuel0.
    destruct (for_each_pos (fun h1 j x => insert_f 8 h1 p j x) h (Z.of_nat k) (children h c)) as [h1 o]. cbn [fst snd] in O, S. subst o.
    cbn [bind]. destruct S as [W1 E1 C1 _].
    destruct (pop_after_splice h p k (children h c) h1 Hp W1 E1 C1 L) as (x & O2 & R2).
    destruct (pop_op h1 p (Z.of_nat (k + length (children h c)))) as [h2 o]. cbn [fst snd] in *. subst o. cbn [bind fst snd]. auto.
  - rewrite items_nonfrag in * by auto.
    destruct (insert_ok h p (Z.of_nat k) c W A) as [O R]. rewrite items_nonfrag in R by auto.
    destruct (insert_f fuel0 h p (Z.of_nat k) c) as [h1 o]. cbn [fst snd] in O, R. subst o. cbn [bind].
    destruct R as [W1 E1 C1]. unfold l_insert, splice in C1. rewrite py_insert_pos_nat, Nat.add_0_r in C1 by lia.
    destruct (pop_after_splice h p k [c] h1 Hp W1 E1 C1 L) as (x & O2 & R2).
    replace (k + length [c]) with (S k) in * by (simpl; lia).
    destruct (pop_op h1 p (Z.of_nat (S k))) as [h2 o]. cbn [fst snd] in *. subst o. cbn [bind fst snd]. auto.
Qed.

Lemma splice_end : forall (its l : list nat), firstn (length l) l ++ its ++ skipn (length l) l = l ++ its.
Proof. intros. rewrite firstn_all, skipn_all, app_nil_r. auto. Qed.

Lemma extend_list_ok : forall h p cs, wf h -> receiver h p = true -> NoDup cs -> (forall x, In x cs -> free h p x) ->
  snd (extend_list h p cs) = ROk (Some p) /\ result_ok h p (children h p ++ cs) (fst (extend_list h p cs)).
Proof.
  intros h p cs W Hp ND Fr. unfold extend_list, fuel0.
  destruct (append_loop 7 p cs h W Hp ND Fr) as [O S].
  destruct (for_each (fun h1 x => append_f 8 h1 p x) h cs) as [h1 o]. cbn [fst snd] in *. subst o. cbn [bind fst snd].
  split; auto. destruct S as [W1 E1 C1 _]. constructor; auto. intros. rewrite C1, splice_end. auto.
Qed.

Lemma extend_node_ok : forall h p o, wf h -> is_frag h o = true -> adm h p o ->
  snd (extend_node h p o) = ROk (Some p) /\ result_ok h p (children h p ++ children h o) (fst (extend_node h p o)).
Proof.
  intros h p o W Fo (Hp & Vc & Np & Cc & ND & Fr). rewrite items_frag in * by auto.
  unfold extend_node. apply Nat.eqb_neq in Np. rewrite Np. cbn [andb].
  apply (extend_list_ok h p (children h o)); auto.
Qed.

(* ====================================================================================================== *)
(* H. fuel: the length of the heap is enough to walk to any root (pigeonhole), hence wf_b <-> wf *)

Lemma rooted_chain_stable : forall h f n, rooted f h n = true -> forall g, f <= g -> chain g h n = chain f h n.
Proof.
  induction f; simpl; intros; try discriminate.
  destruct g; try lia. simpl. destruct (up h n); auto. f_equal. apply IHf; auto. lia.
Qed.

Lemma rooted_chain_eq : forall h a b n, rooted a h n = true -> rooted b h n = true -> chain a h n = chain b h n.
Proof.
  intros. destruct (Nat.le_ge_cases a b).
  - symmetry. apply rooted_chain_stable; auto.
  - apply rooted_chain_stable; auto.
Qed.

Lemma rooted_chain_length : forall h f n, rooted f h n = true -> rooted (length (chain f h n)) h n = true.
Proof.
  induction f; simpl; intros; try discriminate.
  destruct (up h n) eqn:E; simpl; try rewrite E; auto.
Qed.

Lemma chain_suffix : forall h f q m, rooted f h q = true -> In m (chain f h q) ->
  exists g, rooted g h m = true /\ length (chain g h m) <= length (chain f h q).
Proof.
  induction f; simpl; intros; try contradiction.
  destruct H0 as [->|H0].
  - exists (S f). simpl. split; auto.
  - destruct (up h q) eqn:E; try contradiction.
    destruct (IHf _ _ H H0) as (g & A & B). exists g. split; auto; simpl; lia.
Qed.

Lemma rooted_chain_nodup : forall h f n, rooted f h n = true -> NoDup (chain f h n).
Proof.
  induction f; simpl; intros; try discriminate.
  destruct (up h n) as [q|] eqn:E.
  - constructor; auto. intro I.
    destruct (chain_suffix _ _ _ _ H I) as (g & A & B).
    destruct g; simpl in A; try discriminate. rewrite E in A.
    simpl in B. rewrite E in B. rewrite (rooted_chain_eq h g f q A H) in B. simpl in B. lia.
  - constructor; auto. constructor.
Qed.

Lemma chain_valid : forall h f n, n < length h -> forall x, In x (chain f h n) -> x < length h.
Proof.
  induction f; simpl; intros; try contradiction.
  destruct H0 as [->|H0]; auto. destruct (up h n) eqn:E; try contradiction.
  apply (IHf n0); auto. eapply up_valid; eauto.
Qed.

Lemma rooted_bound : forall h n, n < length h -> grounded h n -> rooted (length h) h n = true.
Proof.
  intros h n V [f R]. apply rooted_mono with (f := length (chain f h n)).
  - rewrite <- (seq_length (length h) 0). apply NoDup_incl_length.
    + apply rooted_chain_nodup; auto.
    + intros x I. apply in_seq. split; try lia. simpl. eapply chain_valid; eauto.
  - apply rooted_chain_length; auto.
Qed.

Lemma chain_prefix_incl : forall h f g n, f <= g -> incl (chain f h n) (chain g h n).
Proof.
  induction f; simpl; intros. intros x [].
  destruct g; try lia. simpl. destruct (up h n).
  - intros x [D|D]; [left; auto|right]. eapply IHf; eauto. lia.
  - apply incl_refl.
Qed.

Lemma chain_complete : forall h p, wf h -> p < length h -> forall f, incl (chain f h p) (chain (length h) h p).
Proof.
  intros h p W V f. destruct (Nat.le_ge_cases f (length h)).
  - apply chain_prefix_incl; auto.
  - rewrite (rooted_chain_stable h (length h) p); try apply incl_refl; auto.
    apply rooted_bound; auto. apply wf_acyclic; auto.
Qed.

Lemma opt_eqb_eq : forall a b, opt_eqb a b = true <-> a = b.
Proof.
  unfold opt_eqb. intros. destruct a, b; split; intros; try discriminate; auto.
  - apply Nat.eqb_eq in H. congruence.
  - inversion H. apply Nat.eqb_refl.
Qed.

Lemma ids_In : forall h n, In n (ids h) <-> n < length h.
Proof. intros. unfold ids. rewrite in_seq. lia. Qed.

Lemma children_invalid : forall h n, ~ n < length h -> children h n = [].
Proof. intros. unfold children. destruct (get h n) eqn:E; auto. exfalso. apply H. apply get_valid. congruence. Qed.

Lemma is_tree_invalid : forall h n, ~ n < length h -> is_tree h n = false.
Proof. intros. destruct (is_tree h n) eqn:E; auto. apply is_tree_valid in E. tauto. Qed.

Lemma wf_b_wf : forall h, wf_b h = true -> wf h.
Proof.
  intros h H. unfold wf_b in H. rewrite forallb_forall in H.
  assert (A : forall n, n < length h -> children_ok h n = true /\ parent_ok h n = true /\ nodup_ok h n = true /\ owner_ok h n = true /\ acyclic_ok h n = true /\ leaf_ok h n = true).
  { intros n V. apply ids_In in V. apply H in V. rewrite !andb_true_iff in V. tauto. }
  constructor.
  - intros n c I. destruct (lt_dec n (length h)) as [V|V].
    + destruct (A n V) as (C & _). unfold children_ok in C. rewrite forallb_forall in C. apply C in I.
      rewrite !andb_true_iff, !negb_true_iff in I. destruct I as [[[I1 I2] I3] I4]. apply valid_lt in I1. apply Nat.eqb_eq in I4. auto.
    + rewrite children_invalid in I by auto. contradiction.
  - intros n c T I. pose proof (is_tree_valid _ _ T) as V. destruct (A n V) as (_ & P & _).
    unfold parent_ok in P. rewrite T in P. simpl in P. rewrite forallb_forall in P. apply P in I. apply opt_eqb_eq in I. auto.
  - intros n T. pose proof (is_tree_valid _ _ T) as V. destruct (A n V) as (_ & _ & N & _).
    unfold nodup_ok in N. rewrite T in N. simpl in N. apply nodup_b_NoDup; auto.
  - intros n V. destruct (A n V) as (_ & _ & _ & O & _). unfold owner_ok in O. apply andb_true_iff in O. destruct O as [O1 O2].
    apply opt_eqb_eq in O1. auto.
  - intros n V. destruct (A n V) as (_ & _ & _ & _ & C & _). exists (length h). auto.
  - intros n Tn. destruct (lt_dec n (length h)) as [V|V].
    + destruct (A n V) as (_ & _ & _ & _ & _ & L). unfold leaf_ok in L. rewrite Tn in L. simpl in L.
      destruct (children h n); auto; discriminate.
    + apply children_invalid; auto.
Qed.

Lemma wf_wf_b : forall h, wf h -> wf_b h = true.
Proof.
  intros h W. unfold wf_b. apply forallb_forall. intros n I. apply ids_In in I.
  rewrite !andb_true_iff. repeat split.
  - unfold children_ok. apply forallb_forall. intros c Ic. destruct (wf_children _ W _ _ Ic) as (A & B & C & D).
    rewrite B, C, D. apply valid_lt in A. rewrite A. rewrite Nat.eqb_refl. auto.
  - unfold parent_ok. destruct (is_tree h n) eqn:T; auto. simpl. apply forallb_forall. intros c Ic.
    apply opt_eqb_eq. eapply wf_parent; eauto.
  - unfold nodup_ok. destruct (is_tree h n) eqn:T; auto. simpl. apply nodup_b_NoDup. eapply wf_nodup; eauto.
  - unfold owner_ok. destruct (wf_owner _ W _ I) as [A B]. rewrite B. rewrite andb_true_r. apply opt_eqb_eq. auto.
  - unfold acyclic_ok. apply rooted_bound; auto. apply wf_acyclic; auto.
  - unfold leaf_ok. destruct (is_text h n) eqn:T; auto. rewrite (wf_leaf _ W _ T). auto.
Qed.

Theorem wf_b_iff : forall h, wf_b h = true <-> wf h.
Proof. split. apply wf_b_wf. apply wf_wf_b. Qed.

(* boolean admissibility gives the propositional one *)
Lemma unlisted_b_up : forall h x, unlisted_b h x = true -> up h x = None.
Proof.
  intros h x U. destruct (up h x) as [q|] eqn:E; auto.
  pose proof (up_valid _ _ _ E) as V. apply up_Some in E. destruct E as (_ & T & I).
  unfold unlisted_b in U. rewrite forallb_forall in U. apply ids_In in V. apply U in V.
  apply mem_In in I. rewrite T, I in V. discriminate.
Qed.

Lemma free_b_free : forall h p x, wf h -> p < length h -> free_b h p x = true -> free h p x.
Proof.
  intros h p x W Vp F. unfold free_b in F. rewrite !andb_true_iff, !negb_true_iff in F.
  destruct F as [[[[[A B] C] D] E] G].
  apply valid_lt in A. apply orb_true_iff in B. apply Nat.eqb_eq in C. apply unlisted_b_up in D.
  apply mem_false in E. apply mem_false in G.
  refine (conj A (conj B (conj C (conj D (conj E _))))).
  intros f I. apply G. eapply chain_complete; eauto.
Qed.

Lemma adm_items_free : forall h p l, wf h -> p < length h -> adm_items h p l = true -> NoDup l /\ forall x, In x l -> free h p x.
Proof.
  intros h p l W V A. unfold adm_items in A. apply andb_true_iff in A. destruct A as [A B]. split.
  - apply nodup_b_NoDup; auto.
  - rewrite forallb_forall in B. intros. apply free_b_free; auto.
Qed.

Lemma adm_arg_adm : forall h p c, wf h -> adm_arg h p c = true -> adm h p c.
Proof.
  intros h p c W A. unfold adm_arg in A. rewrite !andb_true_iff, negb_true_iff in A.
  destruct A as [[[[A B] C] D] E]. apply valid_lt in B. apply Nat.eqb_neq in C.
  pose proof (receiver_valid _ _ A) as Vp.
  destruct (adm_items_free _ _ _ W Vp E) as [N F].
  refine (conj A (conj B (conj C (conj _ (conj N F))))).
  intros Fc. rewrite Fc in D. apply Nat.eqb_eq in D. auto.
Qed.

(* ====================================================================================================== *)
(* I. allocation *)

Lemma get_app_old : forall h l m, m < length h -> get (h ++ l) m = get h m.
Proof. intros. unfold get. apply nth_error_app1; auto. Qed.

Lemma get_app_new : forall h nd, get (h ++ [nd]) (length h) = Some nd.
Proof. intros. unfold get. rewrite nth_error_app2 by lia. rewrite Nat.sub_diag. auto. Qed.

Lemma get_app_out : forall h (nd : node) m, length h < m -> get (h ++ [nd]) m = None.
Proof. intros. unfold get. apply nth_error_None. rewrite app_length. simpl. lia. Qed.

Lemma get_invalid : forall h m, ~ m < length h -> get h m = None.
Proof. intros. destruct (get h m) eqn:E; auto. exfalso. apply H. apply get_valid. congruence. Qed.

(* [h'] is [h] with one fresh node at the end *)
Record allocated (h : heap) (nd : node) (h' : heap) : Prop := mk_allocated {
  al_eq : h' = h ++ [nd];
  al_children : nchildren nd = [];
  al_owner : nowner nd = Some (ncreator nd);
  al_creator : is_doc h (ncreator nd) = true
}.

Section Alloc.
  Context {h : heap} {nd : node} {h' : heap} (A : allocated h nd h').

  Lemma al_len : length h' = S (length h).
  Proof. rewrite (al_eq _ _ _ A), app_length. simpl. lia. Qed.

  Lemma al_get_old : forall m, m < length h -> get h' m = get h m.
  Proof. intros. rewrite (al_eq _ _ _ A). apply get_app_old; auto. Qed.

  Lemma al_get_new : get h' (length h) = Some nd.
  Proof. rewrite (al_eq _ _ _ A). apply get_app_new. Qed.

  Lemma al_children_all : forall m, children h' m = children h m.
  Proof.
    intros. unfold children. destruct (lt_dec m (length h)).
    - rewrite al_get_old; auto.
    - rewrite (get_invalid h m) by auto. destruct (Nat.eq_dec m (length h)) as [->|N].
      + rewrite al_get_new. apply (al_children _ _ _ A).
      + rewrite (al_eq _ _ _ A), get_app_out by lia. auto.
  Qed.

  Lemma al_kind_old : forall m, m < length h -> kind_of h' m = kind_of h m.
  Proof. intros. unfold kind_of. rewrite al_get_old; auto. Qed.
  Lemma al_tree_old : forall m, m < length h -> is_tree h' m = is_tree h m.
  Proof. intros. unfold is_tree. rewrite al_kind_old; auto. Qed.
  Lemma al_frag_old : forall m, m < length h -> is_frag h' m = is_frag h m.
  Proof. intros. unfold is_frag. rewrite al_kind_old; auto. Qed.
  Lemma al_doc_old : forall m, m < length h -> is_doc h' m = is_doc h m.
  Proof. intros. unfold is_doc. rewrite al_kind_old; auto. Qed.
  Lemma al_parent_old : forall m, m < length h -> parent h' m = parent h m.
  Proof. intros. unfold parent. rewrite al_get_old; auto. Qed.
  Lemma al_owner_old : forall m, m < length h -> owner h' m = owner h m.
  Proof. intros. unfold owner. rewrite al_get_old; auto. Qed.
  Lemma al_creator_old : forall m, m < length h -> creator h' m = creator h m.
  Proof. intros. unfold creator. rewrite al_get_old; auto. Qed.

  Lemma al_tree_children : forall m, is_tree h' m = true -> children h' m <> [] -> m < length h.
  Proof.
    intros m T C. rewrite al_children_all in C. destruct (lt_dec m (length h)); auto.
    rewrite children_invalid in C by auto. congruence.
  Qed.

  Lemma al_up : wf h -> forall x, up h' x = up h x.
  Proof.
    intros W x. unfold up. destruct (lt_dec x (length h)) as [V|V].
    - rewrite al_parent_old by auto. destruct (parent h x) as [q|]; auto.
      rewrite al_children_all. destruct (lt_dec q (length h)) as [Vq|Vq].
      + rewrite al_tree_old; auto.
      + rewrite (children_invalid h q) by auto. simpl. rewrite (is_tree_invalid h q) by auto. rewrite andb_false_r. auto.
    - assert (P : parent h x = None) by (unfold parent; rewrite get_invalid; auto). rewrite P.
      destruct (parent h' x) as [q|]; auto. rewrite al_children_all.
      assert (M : mem x (children h q) = false).
      { apply mem_false. intro I. apply V. eapply (wf_children _ W); eauto. }
      rewrite M. rewrite andb_false_r. auto.
  Qed.

  Lemma allocated_wf : wf h -> wf h'.
  Proof.
    intros W. pose proof (al_up W) as U. constructor.
    - intros n c I. rewrite al_children_all in I. destruct (wf_children _ W _ _ I) as (V & F & D & Cr).
      assert (Vn : n < length h). { destruct (lt_dec n (length h)); auto. rewrite children_invalid in I by auto. contradiction. }
      rewrite al_len, al_frag_old, al_doc_old, !al_creator_old by auto. auto.
    - intros n c T I. assert (V : n < length h). { apply al_tree_children; auto. intro Z. rewrite Z in I. contradiction. }
      rewrite al_children_all in I. rewrite al_tree_old in T by auto.
      rewrite al_parent_old. eapply wf_parent; eauto. eapply (wf_children _ W); eauto.
    - intros n T. rewrite al_children_all. destruct (lt_dec n (length h)) as [V|V].
      + rewrite al_tree_old in T by auto. eapply wf_nodup; eauto.
      + rewrite children_invalid by auto. constructor.
    - intros n V. rewrite al_len in V. destruct (lt_dec n (length h)) as [V1|V1].
      + rewrite al_owner_old, al_creator_old by auto. destruct (wf_owner _ W _ V1) as [O D]. split; auto.
        rewrite al_doc_old; auto. apply is_tree_valid. unfold is_tree, is_doc in *. destruct (kind_of h (creator h n)) as [[]|]; auto; discriminate.
      + assert (n = length h) by lia. subst. unfold owner, creator. rewrite al_get_new. split. apply (al_owner _ _ _ A).
        pose proof (al_creator _ _ _ A) as D. rewrite al_doc_old; auto.
        apply is_tree_valid. unfold is_tree, is_doc in *. destruct (kind_of h (ncreator nd)) as [[]|]; auto; discriminate.
    - intros n V. rewrite al_len in V. destruct (lt_dec n (length h)) as [V1|V1].
      + eapply grounded_same; [apply U|apply wf_acyclic; auto].
      + exists 1. simpl. rewrite U. assert (n = length h) by lia. subst.
        unfold up, parent. rewrite get_invalid by lia. auto.
    - intros n Tn. rewrite al_children_all. destruct (lt_dec n (length h)) as [V|V].
      + apply wf_leaf; auto. unfold is_text in *. rewrite al_kind_old in Tn; auto.
      + apply children_invalid; auto.
  Qed.
End Alloc.

Lemma create_ok : forall h d k, wf h -> is_doc h d = true ->
  snd (create h d k) = ROk (Some (length h)) /\ wf (fst (create h d k)) /\ length (fst (create h d k)) = S (length h) /\
  (forall m, children (fst (create h d k)) m = children h m).
Proof.
  intros. unfold create. rewrite H0. unfold alloc. cbn [fst snd].
  assert (A : allocated h (mkNode k [] None (Some d) [] d) (h ++ [mkNode k [] None (Some d) [] d])) by (constructor; auto).
  split; [auto|split; [|split]]. apply (allocated_wf A); auto. apply (al_len A). apply (al_children_all A).
Qed.

Lemma create_doc_ok : forall h, wf h ->
  wf (fst (create_doc h)) /\ (forall m, children (fst (create_doc h)) m = children h m).
Proof.
  intros h W. unfold create_doc. cbn [fst].
  set (nd := mkNode KDoc [] None (Some (length h)) [] (length h)).
  assert (E : forall m, children (h ++ [nd]) m = children h m).
  { intros. unfold children. destruct (lt_dec m (length h)).
    - rewrite get_app_old; auto.
    - rewrite (get_invalid h m) by auto. destruct (Nat.eq_dec m (length h)) as [->|N].
      + rewrite get_app_new. auto.
      + rewrite get_app_out by lia. auto. }
  split; auto.
  (* the new document is its own creator: not an instance of [allocated]; done directly *)
  assert (G : forall m, m < length h -> get (h ++ [nd]) m = get h m) by (intros; apply get_app_old; auto).
  assert (K : forall m, m < length h -> kind_of (h ++ [nd]) m = kind_of h m) by (intros; unfold kind_of; rewrite G; auto).
  assert (U : forall x, up (h ++ [nd]) x = up h x).
  { intros x. unfold up. destruct (lt_dec x (length h)) as [V|V].
    - unfold parent at 1. rewrite G by auto. fold (parent h x). destruct (parent h x) as [q|]; auto.
      rewrite E. destruct (lt_dec q (length h)) as [Vq|Vq].
      + unfold is_tree. rewrite K; auto.
      + rewrite (children_invalid h q) by auto. simpl. rewrite (is_tree_invalid h q) by auto. rewrite andb_false_r. auto.
    - assert (P : parent h x = None) by (unfold parent; rewrite get_invalid; auto). rewrite P.
      destruct (parent (h ++ [nd]) x) as [q|]; auto. rewrite E.
      assert (M : mem x (children h q) = false).
      { apply mem_false. intro I. apply V. eapply (wf_children _ W); eauto. }
      rewrite M. rewrite andb_false_r. auto. }
  assert (Len : length (h ++ [nd]) = S (length h)) by (rewrite app_length; simpl; lia).
  constructor.
  - intros n c I. rewrite E in I. destruct (wf_children _ W _ _ I) as (V & F & D & Cr).
    assert (Vn : n < length h). { destruct (lt_dec n (length h)); auto. rewrite children_invalid in I by auto. contradiction. }
    rewrite Len. unfold is_frag, is_doc, creator in *. rewrite K, !G by auto. auto.
  - intros n c T I. rewrite E in I. assert (V : n < length h).
    { destruct (lt_dec n (length h)); auto. rewrite children_invalid in I by auto. contradiction. }
    unfold is_tree in T. rewrite K in T by auto. unfold parent. rewrite G. eapply wf_parent; eauto. eapply (wf_children _ W); eauto.
  - intros n T. rewrite E. destruct (lt_dec n (length h)) as [V|V].
    + unfold is_tree in T. rewrite K in T by auto. eapply wf_nodup; eauto.
    + rewrite children_invalid by auto. constructor.
  - intros n V. rewrite Len in V. destruct (lt_dec n (length h)) as [V1|V1].
    + unfold owner, creator. rewrite G by auto. fold (owner h n). fold (creator h n).
      destruct (wf_owner _ W _ V1) as [O D]. split; auto. unfold is_doc. rewrite K; auto.
      apply is_tree_valid. unfold is_tree, is_doc in *. destruct (kind_of h (creator h n)) as [[]|]; auto; discriminate.
    + assert (n = length h) by lia. subst. unfold owner, creator, is_doc, kind_of. rewrite !get_app_new. simpl. try rewrite get_app_new. auto.
  - intros n V. rewrite Len in V. destruct (lt_dec n (length h)) as [V1|V1].
    + eapply grounded_same; [apply U|apply wf_acyclic; auto].
    + exists 1. simpl. rewrite U. assert (n = length h) by lia. subst.
      unfold up, parent. rewrite get_invalid by lia. auto.
  - intros n Tn. rewrite E. destruct (lt_dec n (length h)) as [V|V].
    + apply wf_leaf; auto. unfold is_text in *. rewrite K in Tn; auto.
    + apply children_invalid; auto.
Qed.

(* ====================================================================================================== *)
(* J. one step of a history: the child-list editing operations *)



Lemma adm_arg_guard : forall h p c, adm_arg h p c = true -> receiver h p = true /\ valid h c = true.
Proof. intros. unfold adm_arg in H. rewrite !andb_true_iff in H. tauto. Qed.

Lemma result_ok_refines : forall h p l h' r, result_ok h p l h' ->
  (exists r0, r = ROk r0) -> (exists r0, r = ROk r0) /\ forall m, children h' m = if Nat.eqb m p then l else children h m.
Proof. intros. split; auto. apply (ro_children _ _ _ _ H). Qed.

Lemma step_edit_ok : forall h o, wf h -> adm_op h o = true -> is_edit o = true ->
  wf (fst (step h o)) /\ refines h o.
Proof.
  intros h o W A Ed. destruct o; try discriminate; unfold refines; cbn [step expected receiver_of adm_op] in *.
  - (* append *)
    destruct (adm_arg_guard _ _ _ A) as [G1 G2]. rewrite G1, G2. cbn [andb].
    destruct (append_ok h p c W (adm_arg_adm _ _ _ W A)) as [O R]. split. apply (ro_wf _ _ _ _ R).
    split; eauto. apply (ro_children _ _ _ _ R).
  - (* insert *)
    destruct (adm_arg_guard _ _ _ A) as [G1 G2]. rewrite G1, G2. cbn [andb].
    destruct (insert_ok h p i c W (adm_arg_adm _ _ _ W A)) as [O R]. split. apply (ro_wf _ _ _ _ R).
    split; eauto. apply (ro_children _ _ _ _ R).
  - (* insertBefore *)
    apply andb_true_iff in A. destruct A as [A Vr].
    destruct (adm_arg_guard _ _ _ A) as [G1 G2]. rewrite G1, G2, Vr. cbn [andb].
    pose proof (insert_rel_ok false h p c ref W (adm_arg_adm _ _ _ W A)) as P. unfold l_at.
    destruct (index_of ref (children h p)) as [k|].
    + destruct P as [O R]. split. apply (ro_wf _ _ _ _ R). split; eauto. apply (ro_children _ _ _ _ R).
    + rewrite P. split; auto.
  - (* insertAfter *)
    apply andb_true_iff in A. destruct A as [A Vr].
    destruct (adm_arg_guard _ _ _ A) as [G1 G2]. rewrite G1, G2, Vr. cbn [andb].
    pose proof (insert_rel_ok true h p c ref W (adm_arg_adm _ _ _ W A)) as P. unfold l_at.
    destruct (index_of ref (children h p)) as [k|].
    + destruct P as [O R]. split. apply (ro_wf _ _ _ _ R). split; eauto. apply (ro_children _ _ _ _ R).
    + rewrite P. split; auto.
  - (* replaceChild *)
    apply andb_true_iff in A. destruct A as [A Vr].
    destruct (adm_arg_guard _ _ _ A) as [G1 G2]. rewrite G1, G2, Vr. cbn [andb].
    pose proof (replace_child_ok h p c old W (adm_arg_adm _ _ _ W A)) as P.
    destruct (index_of old (children h p)) as [k|].
    + destruct P as [O R]. split. apply (ro_wf _ _ _ _ R). split; eauto. apply (ro_children _ _ _ _ R).
    + rewrite P. split; auto.
  - (* removeChild *)
    apply andb_true_iff in A. destruct A as [G1 G2]. rewrite G1, G2. cbn [andb].
    pose proof (remove_child_ok h p old W G1) as P.
    destruct (index_of old (children h p)) as [k|].
    + destruct P as [O R]. split. apply (ro_wf _ _ _ _ R). split; eauto. apply (ro_children _ _ _ _ R).
    + rewrite P. split; auto.
  - (* pop *)
    rewrite A. pose proof (pop_ok h p i W A) as P. unfold l_pop.
    destruct (py_index i (length (children h p))) as [k|].
    + destruct P as (c & Hc & O & R). split. apply (ro_wf _ _ _ _ R). split; eauto. apply (ro_children _ _ _ _ R).
    + rewrite P. split; auto.
  - (* item assignment *)
    destruct (adm_arg_guard _ _ _ A) as [G1 G2]. rewrite G1, G2. cbn [andb].
    pose proof (set_item_ok h p i c W (adm_arg_adm _ _ _ W A)) as P. unfold l_setitem.
    destruct (py_index i (length (children h p))) as [k|].
    + destruct P as [O R]. split. apply (ro_wf _ _ _ _ R). split; eauto. apply (ro_children _ _ _ _ R).
    + rewrite P. split; auto.
  - (* extend(node) *)
    apply andb_true_iff in A. destruct A as [Fo A].
    destruct (adm_arg_guard _ _ _ A) as [G1 G2]. assert (Ro : receiver h other = true) by (unfold receiver; rewrite Fo; apply orb_true_r). rewrite G1, Ro. cbn [andb].
    destruct (extend_node_ok h p other W Fo (adm_arg_adm _ _ _ W A)) as [O R]. split. apply (ro_wf _ _ _ _ R).
    split; eauto. apply (ro_children _ _ _ _ R).
  - (* extend(list) *)
    apply andb_true_iff in A. destruct A as [G1 A]. rewrite G1.
    destruct (adm_items_free _ _ _ W (receiver_valid _ _ G1) A) as [N F].
    assert (V : forallb (valid h) cs = true).
    { apply forallb_forall. intros x I. apply valid_lt. destruct (F x I); auto. }
    rewrite V. cbn [andb].
    destruct (extend_list_ok h p cs W G1 N F) as [O R]. split. apply (ro_wf _ _ _ _ R).
    split; eauto. apply (ro_children _ _ _ _ R).
Qed.

(* ====================================================================================================== *)
(* M. derived views: sibling navigation, first/last child *)

Lemma scan_next_index : forall n l, scan_next n l = match index_of n l with Some k => nth_error l (S k) | None => None end.
Proof.
  induction l as [|y l IH]; simpl; auto.
  destruct (Nat.eqb_spec y n).
  - destruct l; auto.
  - rewrite IH. destruct (index_of n l); auto.
Qed.

Lemma scan_prev_index : forall n l prev, scan_prev n prev l =
  match index_of n l with Some O => prev | Some (S k) => nth_error l k | None => None end.
Proof.
  induction l as [|y l IH]; simpl; intros; auto.
  destruct (Nat.eqb_spec y n); auto.
  rewrite IH. destruct (index_of n l) as [[|k]|]; auto.
Qed.

(* previousSibling / nextSibling are the neighbours in the list of the node that lists n, and None for a node that
   no element/document lists (the children of a fragment held in an attribute navigate inside that fragment: no claim) *)
Theorem siblings_spec : forall h n, listed_in_frag h n = false ->
  next_sibling h n = spec_next h n /\ prev_sibling h n = spec_prev h n.
Proof.
  intros h n L. unfold next_sibling, prev_sibling, spec_next, spec_prev, up, nth_opt. unfold listed_in_frag in L.
  destruct (parent h n) as [p|]; auto.
  rewrite scan_next_index, scan_prev_index.
  destruct (mem n (children h p)) eqn:M.
  - rewrite andb_true_r in L. apply negb_false_iff in L. rewrite L. simpl. split; auto;
    destruct (index_of n (children h p)) as [[|k]|]; auto.
  - rewrite andb_false_r. apply mem_false in M. apply index_of_None in M. rewrite M. auto.
Qed.

Theorem first_last_spec : forall h n,
  first_child h n = nth_error (children h n) 0 /\ last_child h n = nth_error (children h n) (length (children h n) - 1).
Proof.
  intros. unfold first_child, last_child. split.
  - destruct (children h n); auto.
  - induction (children h n) as [|x l IH] using rev_ind; auto.
    rewrite rev_app_distr. simpl. rewrite app_length. simpl. rewrite nth_error_app2 by lia.
    replace (length l + 1 - 1 - length l) with 0 by lia. auto.
Qed.

(* ====================================================================================================== *)
(* N. deep cloneNode *)



Lemma ext_refl : forall h, ext h h.
Proof. intros. split; auto. intros. repeat split; auto. Qed.

Lemma ext_trans : forall h1 h2 h3, ext h1 h2 -> ext h2 h3 -> ext h1 h3.
Proof.
  intros h1 h2 h3 [L1 E1] [L2 E2]. split. lia. intros m V.
  destruct (E1 m V) as (a1 & a2 & a3 & a4 & a5 & a6). destruct (E2 m ltac:(lia)) as (b1 & b2 & b3 & b4 & b5 & b6).
  repeat split; congruence.
Qed.

Definition noattr (h : heap) : Prop := forall m, attrs h m = [].

Lemma no_attrs_noattr : forall h, no_attrs h = true <-> noattr h.
Proof.
  intros. unfold no_attrs, noattr. rewrite forallb_forall. split.
  - intros H m. destruct (lt_dec m (length h)) as [V|V].
    + apply ids_In in V. apply H in V. destruct (attrs h m); auto; discriminate.
    + unfold attrs. rewrite get_invalid; auto.
  - intros H m _. rewrite H. auto.
Qed.

Lemma allocated_ext : forall h nd h', allocated h nd h' -> ext h h'.
Proof.
  intros h nd h' A. split. rewrite (al_len A). lia. intros m V.
  repeat split.
  - apply (al_kind_old A); auto.
  - apply (al_children_all A).
  - apply (al_parent_old A); auto.
  - apply (al_owner_old A); auto.
  - unfold attrs. rewrite (al_get_old A); auto.
  - apply (al_creator_old A); auto.
Qed.

Lemma attached_ext : forall h g p k c g', attached g p k c g' -> length h <= p -> length h <= c -> ext h g -> ext h g'.
Proof.
  intros h g p k c g' A Lp Lc [L E]. pose proof (at_edit _ _ _ _ _ A) as Ed. split. rewrite (e_len _ _ Ed). auto.
  intros m V. destruct (E m V) as (a1 & a2 & a3 & a4 & a5 & a6).
  assert (Np : Nat.eqb m p = false) by (apply Nat.eqb_neq; lia).
  assert (Nc : Nat.eqb m c = false) by (apply Nat.eqb_neq; lia).
  repeat split.
  - rewrite (e_kind _ _ Ed). auto.
  - rewrite (at_children _ _ _ _ _ A), Np. auto.
  - rewrite (at_parent _ _ _ _ _ A), Nc. auto.
  - rewrite (at_owner _ _ _ _ _ A), Nc. auto.
  - rewrite (e_attrs _ _ Ed). auto.
  - rewrite (e_creator _ _ Ed). auto.
Qed.



Lemma map_ext_In : forall (A B : Type) (f g : A -> B) l, (forall a, In a l -> f a = g a) -> map f l = map g l.
Proof. induction l; simpl; intros; auto. f_equal; auto. Qed.

Lemma flat_map_ext_In : forall (A B : Type) (f g : A -> list B) l, (forall a, In a l -> f a = g a) -> flat_map f l = flat_map g l.
Proof. induction l; simpl; intros; auto. f_equal; auto. Qed.

Lemma shape_frame : forall g g' lo hi,
  (forall m, lo <= m < hi -> kind_of g' m = kind_of g m /\ children g' m = children g m) ->
  forall F n, (forall m, In m (dfs F g n) -> lo <= m < hi) -> shape F g' n = shape F g n /\ dfs F g' n = dfs F g n.
Proof.
  intros g g' lo hi Fr. induction F; simpl; intros n W; auto.
  destruct (Fr n (W n (or_introl eq_refl))) as [K C]. rewrite K, C.
  assert (S : forall x, In x (children g n) -> shape F g' x = shape F g x /\ dfs F g' x = dfs F g x).
  { intros x I. apply IHF. intros m Im. apply W. right. apply in_flat_map. exists x. auto. }
  split.
  - f_equal. apply map_ext_In. intros. apply S; auto.
  - f_equal. apply flat_map_ext_In. intros. apply S; auto.
Qed.

Lemma wf_dfs_valid : forall h, wf h -> forall F n m, n < length h -> In m (dfs F h n) -> m < length h.
Proof.
  intros h W. induction F; simpl; intros; try contradiction.
  destruct H0 as [<-|H0]; auto. apply in_flat_map in H0. destruct H0 as (x & Ix & Im).
  apply (IHF x m); auto. eapply (wf_children _ W); eauto.
Qed.

Lemma shape_ext : forall h g, wf h -> ext h g -> forall F n, n < length h -> shape F g n = shape F h n.
Proof.
  intros h g W [L E] F n V.
  apply (shape_frame h g 0 (length h)).
  - intros m [_ Vm]. destruct (E m Vm) as (a1 & a2 & _). auto.
  - intros m Im. split; try lia. eapply wf_dfs_valid; eauto.
Qed.

Definition clone_body (f n : nat) : heap -> nat -> heap * outcome :=
  fun h3 x => bind (clone_f f h3 x)
                   (fun h4 r => match r with Some x' => append_f fuel0 h4 n x' | None => (h4, RBad) end).

Lemma clone_f_S : forall f h c, clone_f (S f) h c =
  match get h c with
  | None => (h, RBad)
  | Some nd =>
      match nkind nd with
      | KDoc => (h, RCrash E_ATTR)
      | KText s => let (h1, n) := alloc h (mkNode (KText s) [] (nparent nd) (nowner nd) [] (ncreator nd)) in (h1, ROk (Some n))
      | k => let (h1, n) := alloc h (mkNode k [] (nparent nd) (nowner nd) [] (ncreator nd)) in
             bind (update_attrs h1 n (nattrs nd)) (fun h2 _ =>
             bind (for_each (clone_body f n) h2 (nchildren nd)) (fun h3 _ => (h3, ROk (Some n))))
      end
  end.
Proof. reflexivity. Qed.

(* what a deep clone of [c] achieves: [r] is the outcome, [h'] the heap afterwards *)
Definition clone_post (h : heap) (c : nat) (h' : heap) (r : outcome) : Prop :=
  wf h' /\ ext h h' /\ noattr h' /\ (forall m, m < length h -> up h' m = up h m) /\
  match r with
  | ROk (Some n) => n = length h /\ n < length h' /\ kind_of h' n = kind_of h c /\ creator h' n = creator h c /\
                    up h' n = None /\ (forall F, shape F h' n = shape F h c) /\ within (length h) h' n
  | RFuel => True
  | _ => False
  end.

Lemma up_invalid : forall h n, ~ n < length h -> up h n = None.
Proof. intros. unfold up, parent. rewrite get_invalid; auto. Qed.

Lemma not_frag_doc_kind : forall h x, x < length h -> is_frag h x = false -> is_doc h x = false -> is_elem h x = true \/ is_text h x = true.
Proof.
  unfold is_frag, is_doc, is_elem, is_text, kind_of. intros. destruct (get h x) as [nd|] eqn:E.
  - destruct (nkind nd); auto; discriminate.
  - exfalso. apply get_valid in H. congruence.
Qed.

Lemma deep_ext : forall h g, wf h -> ext h g -> forall x d, deep g x d -> x < length h -> deep h x d.
Proof.
  intros h g W [L E]. induction 1; intros V. constructor.
  destruct (E c V) as (_ & Ch & _). rewrite Ch in H. econstructor; eauto. apply IHdeep. eapply (wf_children _ W); eauto.
Qed.

Lemma chain_len_bound : forall h F y, y < length h -> rooted F h y = true -> length (chain F h y) <= length h.
Proof.
  intros h F y V R. rewrite <- (seq_length (length h) 0). apply NoDup_incl_length.
  - apply rooted_chain_nodup; auto.
  - intros x I. apply in_seq. split; try lia. simpl. eapply chain_valid; eauto.
Qed.

Lemma deep_tree_bound : forall h, wf h -> forall c d, deep h c d -> is_tree h c = true -> forall G, rooted G h c = true ->
  exists y G', rooted G' h y = true /\ y < length h /\ length (chain G' h y) = d + length (chain G h c).
Proof.
  intros h W. induction 1; intros T G R.
  - exists c, G. repeat split; auto. apply is_tree_valid; auto.
  - assert (U : up h x = Some c) by (apply up_lists; auto).
    assert (Rx : rooted (S G) h x = true) by (simpl; rewrite U; auto).
    assert (Lx : length (chain (S G) h x) = S (length (chain G h c))) by (simpl; rewrite U; auto).
    destruct (is_tree h x) eqn:Tx.
    + destruct (IHdeep eq_refl (S G) Rx) as (y & G' & A & B & C). exists y, G'. repeat split; auto. lia.
    + assert (d = 0).
      { inversion H0; auto. subst. exfalso.
        destruct (wf_children _ W _ _ H) as (Vx & Fx & Dx & _).
        destruct (not_frag_doc_kind h x Vx Fx Dx) as [K|K].
        - unfold is_tree, is_elem in *. destruct (kind_of h x) as [[]|]; discriminate.
        - rewrite (wf_leaf _ W _ K) in H1. contradiction. }
      subst. exists x, (S G). repeat split; auto. eapply (wf_children _ W); eauto.
Qed.

Lemma deep_bound : forall h c d, wf h -> c < length h -> deep h c d -> d <= length h.
Proof.
  intros h c d W V D. destruct (is_tree h c) eqn:T.
  - destruct (wf_acyclic _ W _ V) as [G R].
    destruct (deep_tree_bound h W c d D T G R) as (y & G' & A & B & C).
    pose proof (chain_len_bound h G' y B A). lia.
  - inversion D; subst; try lia.
    destruct (wf_children _ W _ _ H) as (Vx & Fx & Dx & _).
    destruct (is_tree h x) eqn:Tx.
    + destruct (wf_acyclic _ W _ Vx) as [G R].
      destruct (deep_tree_bound h W x d0 H0 Tx G R) as (y & G' & A & B & C).
      pose proof (chain_len_bound h G' y B A).
      assert (1 <= length (chain G h x)) by (destruct G; simpl in *; [discriminate|lia]). lia.
    + inversion H0; subst; try lia. exfalso.
      destruct (not_frag_doc_kind h x Vx Fx Dx) as [K|K].
      * unfold is_tree, is_elem in *. destruct (kind_of h x) as [[]|]; discriminate.
      * rewrite (wf_leaf _ W _ K) in H1. contradiction.
Qed.

Definition clone_ih (f : nat) : Prop :=
  forall h c, wf h -> noattr h -> c < length h -> is_doc h c = false ->
    clone_post h c (fst (clone_f f h c)) (snd (clone_f f h c)) /\
    ((forall d, deep h c d -> d < f) -> snd (clone_f f h c) <> RFuel).

Lemma Forall2_In_l : forall (A B : Type) (R : A -> B -> Prop) l l' a, Forall2 R l l' -> In a l -> exists b, In b l' /\ R a b.
Proof.
  induction 1; simpl; intros; try contradiction. destruct H1 as [->|H1].
  - exists y. auto.
  - destruct (IHForall2 H1) as (b & Ib & Rb). exists b. auto.
Qed.

Lemma Forall2_imp : forall (A B : Type) (R R' : A -> B -> Prop) l l', (forall a b, R a b -> R' a b) -> Forall2 R l l' -> Forall2 R' l l'.
Proof. induction 2; constructor; auto. Qed.

Definition clone_pair (h g : heap) (d x : nat) : Prop := (forall F, shape F g d = shape F h x) /\ within (S (length h)) g d.

Lemma clone_loop : forall f h c n, clone_ih f -> wf h -> n = length h ->
  forall xs g ds done,
    wf g -> ext h g -> noattr g -> (forall m, m < length h -> up g m = up h m) ->
    n < length g -> receiver g n = true -> up g n = None -> children g n = ds -> creator g n = creator h c ->
    (forall x, In x xs -> x < length h /\ is_frag h x = false /\ is_doc h x = false /\ creator h x = creator h c) ->
    Forall2 (clone_pair h g) ds done ->
    let r := for_each (clone_body f n) g xs in
    wf (fst r) /\ ext h (fst r) /\ noattr (fst r) /\ (forall m, m < length h -> up (fst r) m = up h m) /\
    n < length (fst r) /\ kind_of (fst r) n = kind_of g n /\ creator (fst r) n = creator g n /\ up (fst r) n = None /\
    match snd r with
    | ROk _ => exists ds', children (fst r) n = ds ++ ds' /\ Forall2 (clone_pair h (fst r)) (ds ++ ds') (done ++ xs)
    | RFuel => True
    | _ => False
    end /\
    ((forall x, In x xs -> forall d, deep h x d -> d < f) -> snd r <> RFuel).
Proof.
  intros f h c n IH Wh Nn. induction xs as [|x xs IHxs]; intros g ds done Wg Eg Ag Ug Vn Rn Un Cn Crn Hx F2; cbn [for_each].
  - cbn [fst snd]. repeat (split; auto); try discriminate. exists []. rewrite !app_nil_r. auto.
  - destruct (Hx x (or_introl eq_refl)) as (Vx & Fx & Dx & Crx).
    destruct Eg as [Lg Eg'].
    assert (Vxg : x < length g) by lia.
    destruct (Eg' x Vx) as (kx & chx & _ & _ & _ & crx).
    assert (Dxg : is_doc g x = false) by (unfold is_doc in *; rewrite kx; auto).
    change (clone_body f n g x) with (bind (clone_f f g x) (fun h4 r => match r with Some x' => append_f fuel0 h4 n x' | None => (h4, RBad) end)).
    destruct (IH g x Wg Ag Vxg Dxg) as [(W4 & E4 & A4 & U4 & P4) NF4].
    assert (NF4' : (forall d, deep h x d -> d < f) -> snd (clone_f f g x) <> RFuel).
    { intros Hd. apply NF4. intros d Dd. apply Hd. eapply deep_ext; eauto. split; auto. }
    destruct (clone_f f g x) as [g4 r4]. cbn [fst snd] in *.
    destruct E4 as [L4 E4'].
    assert (En4 : same_node g g4 n) by (apply E4'; auto).
    destruct En4 as (kn & chn & _ & _ & _ & crn).
    assert (Un4 : up g4 n = None) by (rewrite U4; auto).
    assert (Eh4 : ext h g4) by (apply ext_trans with g; split; auto).
    assert (Uh4 : forall m, m < length h -> up g4 m = up h m) by (intros; rewrite U4 by lia; auto).
    destruct r4 as [[x'|]| | | |]; try contradiction; cbn [bind].
    2:{ cbn [fst snd]. refine (conj W4 (conj Eh4 (conj A4 (conj Uh4 (conj _ (conj kn (conj crn (conj Un4 (conj I _))))))))). lia.
        intros Hd. exfalso. apply NF4'; auto. apply Hd. simpl; auto. }
    destruct P4 as (X1 & X2 & X3 & X4 & X5 & X6 & X7).
    (* attach the clone below n *)
    assert (Kx' : is_elem g4 x' = true \/ is_text g4 x' = true).
    { assert (Q : is_elem h x = true \/ is_text h x = true) by (apply not_frag_doc_kind; auto).
      unfold is_elem, is_text in *. rewrite X3, kx. auto. }
    destruct (kind_flags _ _ Kx') as (Fx' & Dx' & _).
    assert (Rn4 : receiver g4 n = true) by (unfold receiver, is_tree, is_frag in *; rewrite kn; auto).
    assert (Lds : forall d, In d ds -> d < length g).
    { intros d Id. destruct (Forall2_In_l _ _ _ _ _ d F2 Id) as (y & _ & _ & Wd). apply (Wd 1 d). simpl. auto. }
    assert (Fr : free g4 n x').
    { refine (conj X2 (conj Kx' (conj _ (conj X5 (conj _ _))))).
      - rewrite X4, crx, crn, Crn. auto.
      - rewrite chn, Cn. intro I. apply Lds in I. lia.
      - intros F0 I. destruct F0; simpl in I; try contradiction. rewrite Un4 in I. destruct I as [I|[]]. lia. }
    unfold fuel0. rewrite append_attach by auto.
    destruct (attach_attached g4 n (length (children g4 n)) x' Rn4 X2 Dx') as [A O].
    pose proof (attached_wf _ _ _ _ _ W4 Rn4 Fr A) as W5.
    destruct (attached_up _ _ _ _ _ W4 Rn4 Fr A) as [U5 U5'].
    destruct (attach g4 n (length (children g4 n)) x') as [g5 o5]. cbn [fst snd] in *. subst o5. cbn [bind].
    pose proof (at_edit _ _ _ _ _ A) as Ed.
    assert (Eh5 : ext h g5) by (eapply attached_ext; eauto; lia).
    assert (A5 : noattr g5) by (intro m; rewrite (e_attrs _ _ Ed); auto).
    assert (Uh5 : forall m, m < length h -> up g5 m = up h m) by (intros; rewrite U5 by lia; auto).
    assert (Vn5 : n < length g5) by (rewrite (e_len _ _ Ed); lia).
    assert (Rn5 : receiver g5 n = true) by (rewrite (e_receiver Ed); auto).
    assert (Un5 : up g5 n = None) by (rewrite U5 by lia; auto).
    assert (Cn5 : children g5 n = ds ++ [x']).
    { rewrite (at_children _ _ _ _ _ A), Nat.eqb_refl, insert_at_end, chn, Cn. auto. }
    assert (Crn5 : creator g5 n = creator h c) by (rewrite (e_creator _ _ Ed), crn; auto).
    (* frames for the shapes already built *)
    assert (Fr45 : forall m, m <> n -> kind_of g5 m = kind_of g4 m /\ children g5 m = children g4 m).
    { intros m Nm. split. apply (e_kind _ _ Ed). rewrite (at_children _ _ _ _ _ A). apply Nat.eqb_neq in Nm. rewrite Nm. auto. }
    assert (F25 : Forall2 (clone_pair h g5) (ds ++ [x']) (done ++ [x])).
    { apply Forall2_app.
      - eapply Forall2_imp; [|apply F2]. intros d y [Sd Wd].
        assert (B : forall F, shape F g5 d = shape F g d /\ dfs F g5 d = dfs F g d).
        { intros F0.
          destruct (shape_frame g g4 (S (length h)) (length g)) with (F := F0) (n := d) as [S1 D1].
          - intros m [_ Vm]. destruct (E4' m Vm) as (a1 & a2 & _). auto.
          - intros m Im. apply (Wd F0 m Im).
          - destruct (shape_frame g4 g5 (S (length h)) (length g)) with (F := F0) (n := d) as [S2 D2].
            + intros m [Lm Vm]. apply Fr45. lia.
            + intros m Im. rewrite D1 in Im. apply (Wd F0 m Im).
            + split; congruence. }
        split.
        + intros F0. rewrite (proj1 (B F0)). auto.
        + intros F0 m Im. rewrite (proj2 (B F0)) in Im. destruct (Wd F0 m Im). rewrite (e_len _ _ Ed). lia.
      - constructor; [|constructor].
        assert (B : forall F, shape F g5 x' = shape F g4 x' /\ dfs F g5 x' = dfs F g4 x').
        { intros F0. apply (shape_frame g4 g5 (length g) (length g4)).
          - intros m [Lm Vm]. apply Fr45. lia.
          - intros m Im. apply (X7 F0 m Im). }
        split.
        + intros F0. rewrite (proj1 (B F0)), X6. apply shape_ext; auto. split; auto.
        + intros F0 m Im. rewrite (proj2 (B F0)) in Im. destruct (X7 F0 m Im). rewrite (e_len _ _ Ed). lia. }
    specialize (IHxs g5 (ds ++ [x']) (done ++ [x]) W5 Eh5 A5 Uh5 Vn5 Rn5 Un5 Cn5 Crn5 (fun y Iy => Hx y (or_intror Iy)) F25).
    cbv zeta in IHxs.
    destruct IHxs as (R1 & R2 & R3 & R4 & R5 & R6 & R7 & R8 & R9 & R10).
    refine (conj R1 (conj R2 (conj R3 (conj R4 (conj R5 (conj _ (conj _ (conj R8 (conj _ _))))))))).
    4:{ intros Hd. apply R10. intros y Iy. apply Hd. simpl; auto. }
    + rewrite R6, (e_kind _ _ Ed). auto.
    + rewrite R7, (e_creator _ _ Ed). auto.
    + destruct (snd (for_each (clone_body f n) g5 xs)); auto.
      destruct R9 as (ds' & C9 & F9). exists (x' :: ds'). rewrite <- !app_assoc in *. auto.
Qed.

Lemma allocated_noattr : forall h nd h', allocated h nd h' -> nattrs nd = [] -> noattr h -> noattr h'.
Proof.
  intros h nd h' A Na N m. unfold attrs. destruct (lt_dec m (length h)) as [V|V].
  - rewrite (al_get_old A) by auto. apply N.
  - destruct (Nat.eq_dec m (length h)) as [->|Nm].
    + rewrite (al_get_new A). auto.
    + rewrite (al_eq _ _ _ A), get_app_out by lia. auto.
Qed.

Definition clone_node (f : nat) (h : heap) (nd : node) (k : kind) : heap * outcome :=
  let (h1, n) := alloc h (mkNode k [] (nparent nd) (nowner nd) [] (ncreator nd)) in
  bind (update_attrs h1 n (nattrs nd)) (fun h2 _ =>
  bind (for_each (clone_body f n) h2 (nchildren nd)) (fun h3 _ => (h3, ROk (Some n)))).

Lemma clone_ok : forall f, clone_ih f.
Proof.
  induction f as [|f IH]; intros h c W Na Vc Dc.
  - simpl. split. exact (conj W (conj (ext_refl h) (conj Na (conj (fun m _ => eq_refl) I)))).
    intros Hd. specialize (Hd 0 (deep_0 h c)). lia.
  - rewrite clone_f_S. destruct (get h c) as [nd|] eqn:G.
    2:{ exfalso. apply get_valid in Vc. congruence. }
    assert (Kc : kind_of h c = Some (nkind nd)) by (unfold kind_of; rewrite G; auto).
    assert (Pc : parent h c = nparent nd) by (unfold parent; rewrite G; auto).
    assert (Oc : owner h c = nowner nd) by (unfold owner; rewrite G; auto).
    assert (Cc : creator h c = ncreator nd) by (unfold creator; rewrite G; auto).
    assert (Chc : children h c = nchildren nd) by (unfold children; rewrite G; auto).
    assert (Ac : nattrs nd = []) by (specialize (Na c); unfold attrs in Na; rewrite G in Na; auto).
    destruct (wf_owner _ W _ Vc) as [Ow Od]. rewrite Oc, Cc in Ow. rewrite Cc in Od.
    assert (AL : forall k, allocated h (mkNode k [] (nparent nd) (nowner nd) [] (ncreator nd))
                                  (h ++ [mkNode k [] (nparent nd) (nowner nd) [] (ncreator nd)])).
    { intros. constructor; auto. }
    assert (GEN : forall k, nkind nd = k -> ((exists name, k = KElem name) \/ k = KFrag) ->
             clone_post h c (fst (clone_node f h nd k)) (snd (clone_node f h nd k)) /\
             ((forall d, deep h c d -> d < S f) -> snd (clone_node f h nd k) <> RFuel)).
    { intros k Kk Rk. unfold clone_node, alloc. rewrite Ac. cbn [update_attrs bind].
      set (nd0 := mkNode k [] (nparent nd) (nowner nd) [] (ncreator nd)).
      remember (h ++ [nd0]) as h1 eqn:Eh1. set (n := length h).
      assert (A : allocated h nd0 h1) by (constructor; auto).
      pose proof (allocated_wf A W) as W1. pose proof (allocated_ext _ _ _ A) as E1.
      pose proof (allocated_noattr _ _ _ A eq_refl Na) as N1.
      pose proof (al_up A W) as U1.
      assert (Vn1 : n < length h1) by (rewrite (al_len A); unfold n; lia).
      assert (Kn1 : kind_of h1 n = Some k) by (unfold kind_of, n; rewrite (al_get_new A); auto).
      assert (Chn1 : children h1 n = []) by (unfold children, n; rewrite (al_get_new A); auto).
      assert (Crn1 : creator h1 n = creator h c) by (unfold creator at 1; unfold n; rewrite (al_get_new A); simpl; auto).
      assert (Un1 : up h1 n = None) by (rewrite U1; apply up_invalid; unfold n; lia).
      assert (Hx : forall x, In x (nchildren nd) -> x < length h /\ is_frag h x = false /\ is_doc h x = false /\ creator h x = creator h c).
      { intros x Ix. rewrite <- Chc in Ix. apply (wf_children _ W _ _ Ix). }
      assert (Rn1 : receiver h1 n = true).
      { unfold receiver, is_tree, is_frag. rewrite Kn1. destruct Rk as [[nm ->]| ->]; auto. }
      destruct (clone_loop f h c n IH W eq_refl (nchildren nd) h1 [] [] W1 E1 N1 (fun m _ => U1 m) Vn1 Rn1 Un1 Chn1 Crn1 Hx (Forall2_nil _))
        as (R1 & R2 & R3 & R4 & R5 & R6 & R7 & R8 & R9 & R10).
      destruct (for_each (clone_body f n) h1 (nchildren nd)) as [h3 r3]. cbn [fst snd] in *.
      destruct r3 as [r3| | | |]; try contradiction; cbn [bind fst snd].
      + destruct R9 as (ds' & C9 & F9). simpl in C9, F9. split; [|intros _; discriminate].
        refine (conj R1 (conj R2 (conj R3 (conj R4 _)))).
        refine (conj eq_refl (conj R5 (conj _ (conj _ (conj R8 (conj _ _)))))).
        * rewrite R6, Kn1, Kc, Kk. auto.
        * rewrite R7. auto.
        * intros F0. destruct F0; auto. simpl. rewrite R6, Kn1, Kc, Kk, C9, Chc. f_equal.
          clear - F9. induction F9; simpl; auto. f_equal; auto. apply (proj1 H).
        * intros F0 m Im. destruct F0; simpl in Im; try contradiction. destruct Im as [<-|Im].
          { fold n. lia. }
          { rewrite C9 in Im. apply in_flat_map in Im. destruct Im as (d & Id & Im).
            destruct (Forall2_In_l _ _ _ _ _ d F9 Id) as (y & _ & _ & Wd). destruct (Wd F0 m Im). lia. }
      + split. exact (conj R1 (conj R2 (conj R3 (conj R4 I)))).
        intros Hd. exfalso. apply R10; auto. intros x Ix d Dd.
        assert (Dc' : deep h c (S d)) by (econstructor; [rewrite Chc; eauto|eauto]). apply Hd in Dc'. lia. }
    destruct (nkind nd) eqn:Kn.
    + apply (GEN (KElem name)); eauto.
    + (* text *)
      unfold alloc. cbn [fst snd].
      set (nd0 := mkNode (KText s) [] (nparent nd) (nowner nd) [] (ncreator nd)).
      pose proof (AL (KText s)) as A. fold nd0 in A.
      pose proof (al_up A W) as U1.
      assert (Tc : is_text h c = true) by (unfold is_text; rewrite Kc; auto).
      pose proof (wf_leaf _ W _ Tc) as Lc.
      split; [|intros _; discriminate].
      refine (conj (allocated_wf A W) (conj (allocated_ext _ _ _ A) (conj (allocated_noattr _ _ _ A eq_refl Na) (conj (fun m _ => U1 m) _)))).
      refine (conj eq_refl (conj _ (conj _ (conj _ (conj _ (conj _ _)))))).
      * rewrite (al_len A). lia.
      * unfold kind_of at 1. rewrite (al_get_new A). rewrite Kc. auto.
      * unfold creator at 1. rewrite (al_get_new A). auto.
      * rewrite U1. apply up_invalid. lia.
      * intros F0. destruct F0; auto. simpl. unfold kind_of at 1. rewrite (al_get_new A). rewrite Kc, Lc.
        unfold children. rewrite (al_get_new A). auto.
      * intros F0 m Im. destruct F0; simpl in Im; try contradiction. unfold children in Im. rewrite (al_get_new A) in Im. simpl in Im.
        destruct Im as [<-|[]]. rewrite (al_len A). lia.
    + apply (GEN KFrag); auto.
    + exfalso. unfold is_doc in Dc. rewrite Kc in Dc. discriminate.
Qed.

(* ====================================================================================================== *)
(* O. normalize keeps the invariant *)

Definition upframe (h h' : heap) : Prop :=
  forall m, m < length h -> up h' m = up h m \/ (is_text h m = true /\ up h' m = None).

Definition keeps (h h' : heap) : Prop :=
  length h <= length h' /\ forall m, m < length h -> kind_of h' m = kind_of h m /\ creator h' m = creator h m.

Lemma keeps_refl : forall h, keeps h h. Proof. split; auto. Qed.
Lemma keeps_trans : forall a b c, keeps a b -> keeps b c -> keeps a c.
Proof.
  intros a b c [L1 K1] [L2 K2]. split. lia. intros m V. destruct (K1 m V). destruct (K2 m ltac:(lia)). split; congruence.
Qed.
Lemma edit_keeps : forall h h', edit h h' -> keeps h h'.
Proof. intros h h' E. split. rewrite (e_len _ _ E). auto. intros. split. apply (e_kind _ _ E). apply (e_creator _ _ E). Qed.

Lemma keeps_text : forall h h' m, keeps h h' -> m < length h -> is_text h' m = is_text h m.
Proof. intros h h' m [_ K] V. unfold is_text. destruct (K m V) as [-> _]. auto. Qed.
Lemma keeps_tree : forall h h' m, keeps h h' -> m < length h -> is_tree h' m = is_tree h m.
Proof. intros h h' m [_ K] V. unfold is_tree. destruct (K m V) as [-> _]. auto. Qed.

Lemma grounded_weaken : forall h h', (forall x, up h' x = up h x \/ up h' x = None) -> forall n, grounded h n -> grounded h' n.
Proof.
  intros h h' Hx n [f Hf]. revert n Hf. induction f; simpl; intros; try discriminate.
  destruct (Hx n) as [E|E].
  - destruct (up h n) eqn:U.
    + destruct (IHf _ Hf) as [g Hg]. exists (S g). simpl. rewrite E. auto.
    + exists 1. simpl. rewrite E. auto.
  - exists 1. simpl. rewrite E. auto.
Qed.

(* while self.childNodes: self.childNodes.pop() *)
Lemma clear_children_ok : forall h p, wf h -> is_tree h p = true ->
  let h1 := set_children h p [] in
  wf h1 /\ edit h h1 /\ children h1 p = [] /\
  (forall m, up h1 m = if opt_eqb (up h m) (Some p) then None else up h m).
Proof.
  intros h p W T h1.
  assert (Vp : valid h p = true) by (apply valid_lt; apply is_tree_valid; auto).
  assert (E : edit h h1) by (constructor; intros; unfold h1; autorewrite with heap; auto).
  assert (C : forall m, children h1 m = if Nat.eqb m p then [] else children h m).
  { intros. unfold h1. rewrite children_set_children, Vp. auto. }
  assert (P : forall m, parent h1 m = parent h m) by (intros; unfold h1; autorewrite with heap; auto).
  assert (O : forall m, owner h1 m = owner h m) by (intros; unfold h1; autorewrite with heap; auto).
  assert (U : forall m, up h1 m = if opt_eqb (up h m) (Some p) then None else up h m).
  { intros m. destruct (parent h m) as [q|] eqn:Pm.
    - assert (Uh : up h m = if is_tree h q && mem m (children h q) then Some q else None) by (unfold up; rewrite Pm; auto).
      rewrite Uh. unfold up. rewrite P, Pm. rewrite (e_tree E), C. destruct (Nat.eqb_spec q p) as [->|N].
      + rewrite andb_false_r. destruct (is_tree h p && mem m (children h p)); simpl; auto. rewrite Nat.eqb_refl. auto.
      + destruct (is_tree h q && mem m (children h q)); simpl; auto. apply Nat.eqb_neq in N. rewrite N. auto.
    - unfold up. rewrite P, Pm. auto. }
  split; [|split; [auto|split; [rewrite C, Nat.eqb_refl; auto|auto]]].
  constructor.
  - intros n c. rewrite C, (e_len _ _ E), (e_frag E), (e_doc E), !(e_creator _ _ E). destruct (Nat.eqb n p). intros []. apply (wf_children _ W).
  - intros n c. rewrite C, (e_tree E), P. destruct (Nat.eqb n p). intros _ []. apply (wf_parent _ W).
  - intros n. rewrite C, (e_tree E). destruct (Nat.eqb n p). constructor. apply (wf_nodup _ W).
  - intros n. rewrite (e_len _ _ E), O, (e_creator _ _ E), (e_doc E). apply (wf_owner _ W).
  - intros n. rewrite (e_len _ _ E). intros V. eapply grounded_weaken; [|apply (wf_acyclic _ W); auto].
    intros x. rewrite U. destruct (opt_eqb (up h x) (Some p)); auto.
  - intros n. rewrite (e_text E), C. destruct (Nat.eqb n p); auto. apply (wf_leaf _ W).
Qed.

(* appendText with a non-empty buffer: one new text node at the end of the list *)
Lemma append_text_ok : forall g p text, wf g -> noattr g -> is_tree g p = true -> text <> [] ->
  let r := append_text g p text in
  snd r = ROk (Some (length g)) /\ wf (fst r) /\ noattr (fst r) /\ keeps g (fst r) /\
  (forall m, m < length g -> up (fst r) m = up g m) /\
  (forall m, m < length g -> children (fst r) m = if Nat.eqb m p then children g p ++ [length g] else children g m).
Proof.
  intros g p text W Na T Nt r. subst r. unfold append_text. destruct text as [|t0 text']; try congruence.
  pose proof (is_tree_valid _ _ T) as Vp. destruct (wf_owner _ W _ Vp) as [Ow Od]. rewrite Ow. unfold alloc.
  set (nd := mkNode (KText (concat (t0 :: text'))) [] (Some p) (Some (creator g p)) [] (creator g p)).
  remember (g ++ [nd]) as g1 eqn:Eg1.
  assert (A : allocated g nd g1) by (constructor; auto).
  pose proof (allocated_wf A W) as W1. pose proof (al_up A W) as U1.
  pose proof (allocated_noattr _ _ _ A eq_refl Na) as N1.
  assert (Rp : receiver g1 p = true) by (unfold receiver; rewrite (al_tree_old A) by auto; rewrite T; auto).
  assert (Kt : kind_of g1 (length g) = Some (KText (concat (t0 :: text')))) by (unfold kind_of; rewrite (al_get_new A); auto).
  assert (Fr : free g1 p (length g)).
  { refine (conj _ (conj _ (conj _ (conj _ (conj _ _))))).
    - rewrite (al_len A). lia.
    - right. unfold is_text. rewrite Kt. auto.
    - unfold creator at 1. rewrite (al_get_new A). simpl. rewrite (al_creator_old A); auto.
    - rewrite U1. apply up_invalid. lia.
    - rewrite (al_children_all A). intro I. destruct (wf_children _ W _ _ I). lia.
    - intros F I. rewrite (chain_ext g g1) in I by auto. pose proof (chain_valid g F p Vp _ I). lia. }
  destruct (free_not_frag _ _ _ Fr) as (Xf & Xd & Xv).
  unfold fuel0. rewrite append_attach by auto.
  destruct (attach_attached g1 p (length (children g1 p)) (length g) Rp Xv Xd) as [At O].
  pose proof (attached_wf _ _ _ _ _ W1 Rp Fr At) as W2.
  destruct (attached_up _ _ _ _ _ W1 Rp Fr At) as [U2 _].
  destruct (attach g1 p (length (children g1 p)) (length g)) as [g2 o2]. cbn [fst snd] in *. subst o2.
  pose proof (at_edit _ _ _ _ _ At) as Ed.
  split; auto. split; auto. split. { intro m. rewrite (e_attrs _ _ Ed). auto. }
  split. { apply keeps_trans with g1. split. rewrite (al_len A); lia. intros m V. split. apply (al_kind_old A); auto. apply (al_creator_old A); auto. apply edit_keeps; auto. }
  split.
  - intros m V. rewrite U2 by lia. auto.
  - intros m V. rewrite (at_children _ _ _ _ _ At). rewrite insert_at_end, !(al_children_all A). auto.
Qed.

Definition norm_post (h h' : heap) (r : outcome) : Prop :=
  wf h' /\ noattr h' /\ keeps h h' /\ ((exists v, r = ROk v) \/ r = RFuel) /\ ((exists v, r = ROk v) -> upframe h h').

Definition norm_ih (f : nat) : Prop :=
  forall h p, wf h -> noattr h -> is_tree h p = true -> norm_post h (fst (normalize_f f h p)) (snd (normalize_f f h p)).

Lemma normalize_f_S : forall f h self, normalize_f (S f) h self =
      if is_text h self then (h, ROk None)
      else
        bind (for_each (fun h1 v => normalize_f f h1 v) h (map snd (attrs h self))) (fun h0 _ =>
        let nodes := children h0 self in
        bind (norm_items (normalize_f f) (set_children h0 self []) self nodes []) (fun h1 _ => (h1, ROk None))).
Proof. reflexivity. Qed.

(* a child is never among its parent's ancestors *)
Lemma child_not_ancestor : forall h p x, wf h -> is_tree h p = true -> In x (children h p) -> forall F, ~ In x (chain F h p).
Proof.
  intros h p x W T I F J. pose proof (is_tree_valid _ _ T) as Vp.
  apply (chain_complete h p W Vp) in J.
  assert (R : rooted (length h) h p = true) by (apply rooted_bound; auto; apply wf_acyclic; auto).
  assert (U : up h x = Some p) by (apply up_lists; auto).
  assert (Rx : rooted (S (length h)) h x = true) by (simpl; rewrite U; auto).
  apply rooted_chain_nodup in Rx. simpl in Rx. rewrite U in Rx. inversion Rx. auto.
Qed.

Record ninv (h : heap) (xs : list nat) (g : heap) : Prop := mk_ninv {
  ni_wf : wf g;
  ni_noattr : noattr g;
  ni_keeps : keeps h g;
  ni_up : forall m, m < length h ->
            (In m xs -> up g m = None) /\ (~ In m xs -> up g m = up h m \/ (is_text h m = true /\ up g m = None))
}.

Lemma ninv_chain : forall h xs g, ninv h xs g -> forall F n, n < length h ->
  (forall y, In y (chain F h n) -> ~ In y xs /\ is_text h y = false) -> chain F g n = chain F h n.
Proof.
  intros h xs g N. induction F; simpl; intros n V Hy; auto.
  destruct (Hy n (or_introl eq_refl)) as [Nx Nt].
  destruct (ni_up _ _ _ N n V) as [_ B]. destruct (B Nx) as [E|[E _]]; try congruence.
  rewrite E. destruct (up h n) as [q|] eqn:U; auto. f_equal. apply IHF.
  - eapply up_valid; eauto.
  - intros y Iy. apply Hy. auto.
Qed.

Lemma tree_not_text : forall h p, is_tree h p = true -> is_text h p = false.
Proof. unfold is_tree, is_text. intros. destruct (kind_of h p) as [[]|]; auto; discriminate. Qed.

Lemma chain_above_trees : forall h y F n q, up h n = Some q -> In y (chain F h q) -> is_tree h y = true.
Proof.
  induction F; simpl; intros; try contradiction.
  destruct H0 as [<-|H0]. apply up_Some in H. tauto.
  destruct (up h q) as [q'|] eqn:U; try contradiction. eapply IHF; eauto.
Qed.

Lemma norm_loop : forall f h p, norm_ih f -> wf h -> is_tree h p = true ->
  forall xs g text, ninv h xs g -> incl xs (children h p) -> NoDup xs ->
    let r := norm_items (normalize_f f) g p xs text in
    wf (fst r) /\ noattr (fst r) /\ keeps h (fst r) /\ ((exists v, snd r = ROk v) \/ snd r = RFuel) /\
    ((exists v, snd r = ROk v) -> upframe h (fst r)).
Proof.
  intros f h p IH Wh Tp. pose proof (is_tree_valid _ _ Tp) as Vp.
  induction xs as [|x xs IHxs]; intros g text N Inc ND; cbn [norm_items].
  - (* the final appendText *)
    destruct N as [Wg Ag Kg Ug].
    assert (Tg : is_tree g p = true) by (rewrite (keeps_tree h g); auto).
    destruct text as [|t0 text'].
    + cbn [append_text fst snd]. refine (conj Wg (conj Ag (conj Kg (conj (or_introl (ex_intro _ None eq_refl)) _)))).
      intros _ m V. destruct (Ug m V) as [_ B]. apply B. intros [].
    + destruct (append_text_ok g p (t0 :: text') Wg Ag Tg ltac:(discriminate)) as (O & W1 & A1 & K1 & U1 & _).
      destruct (append_text g p (t0 :: text')) as [g1 o1]. cbn [fst snd] in *.
      refine (conj W1 (conj A1 (conj (keeps_trans _ _ _ Kg K1) (conj _ _)))). left; eauto.
      intros _ m V. destruct Kg as [Lg _]. rewrite U1 by lia. destruct (Ug m V) as [_ B]. apply B. intros [].
  - pose proof N as [Wg Ag Kg Ug]. pose proof Kg as [Lg Kg'].
    assert (Ix : In x (children h p)) by (apply Inc; simpl; auto).
    destruct (wf_children _ Wh _ _ Ix) as (Vx & Fx & Dx & Crx).
    assert (Tg : is_tree g p = true) by (rewrite (keeps_tree h g); auto).
    inversion ND as [|? ? Nx ND']; subst.
    assert (Inc' : incl xs (children h p)) by (intros y Iy; apply Inc; simpl; auto).
    rewrite (keeps_text h g) by auto.
    destruct (is_text h x) eqn:Tx.
    + (* a text node: remembered, stays out of the tree *)
      apply IHxs; auto. constructor; auto. intros m V. destruct (Ug m V) as [A B]. split.
      * intros Im. apply A. simpl; auto.
      * intros Nm. destruct (Nat.eq_dec m x) as [->|Ne].
        { right. split; auto. apply A. simpl; auto. }
        { apply B. simpl. intros [E'|E']; [congruence|auto]. }
    + (* an element: flush the buffer, re-append it, normalize it *)
      assert (S1 : exists g1, fst (append_text g p text) = g1 /\ (exists v, snd (append_text g p text) = ROk v) /\
                   wf g1 /\ noattr g1 /\ keeps g g1 /\ (forall m, m < length g -> up g1 m = up g m)).
      { destruct text as [|t0 text'].
        - exists g. cbn [append_text fst snd]. exact (conj eq_refl (conj (ex_intro _ None eq_refl) (conj Wg (conj Ag (conj (keeps_refl g) (fun m _ => eq_refl)))))).
        - destruct (append_text_ok g p (t0 :: text') Wg Ag Tg ltac:(discriminate)) as (O & W1 & A1 & K1 & U1 & _).
          eexists. split; [reflexivity|]. exact (conj (ex_intro _ _ O) (conj W1 (conj A1 (conj K1 U1)))). }
      destruct S1 as (g1 & E1 & [v1 O1] & W1 & A1 & K1 & U1).
      destruct (append_text g p text) as [g1' o1]. cbn [fst snd] in E1, O1. subst g1' o1. cbn [bind].
      pose proof (keeps_trans _ _ _ Kg K1) as Kh1. pose proof K1 as [L1 _].
      assert (T1 : is_tree g1 p = true) by (rewrite (keeps_tree h g1); auto).
      assert (R1 : receiver g1 p = true) by (unfold receiver; rewrite T1; auto).
      assert (Ex : is_elem h x = true).
      { destruct (not_frag_doc_kind h x Vx Fx Dx); auto. congruence. }
      assert (Ux1 : up g1 x = None) by (rewrite U1 by lia; apply (Ug x Vx); simpl; auto).
      assert (N1 : ninv h (x :: xs) g1).
      { constructor; auto. intros m V. rewrite U1 by lia. apply Ug; auto. }
      assert (Fr : free g1 p x).
      { refine (conj _ (conj _ (conj _ (conj Ux1 (conj _ _))))).
        - lia.
        - left. unfold is_elem. destruct Kh1 as [_ Kh1']. destruct (Kh1' x Vx) as [-> _]. auto.
        - destruct Kh1 as [_ Kh1']. destruct (Kh1' x Vx) as [_ ->]. destruct (Kh1' p Vp) as [_ ->]. auto.
        - intro I. rewrite (up_lists g1 p x W1 T1 I) in Ux1. discriminate.
        - intros F I. rewrite (ninv_chain h (x :: xs) g1 N1 F p Vp) in I.
          + exact (child_not_ancestor h p x Wh Tp Ix F I).
          + intros y Iy. split.
            * intro J. exact (child_not_ancestor h p y Wh Tp (Inc y J) F Iy).
            * destruct F; simpl in Iy; try contradiction. destruct Iy as [<-|Iy]. apply tree_not_text; auto.
              destruct (up h p) as [q|] eqn:Uq; try contradiction.
              apply tree_not_text. eapply chain_above_trees; eauto. }
      destruct (free_not_frag _ _ _ Fr) as (Xf & Xd & Xv).
      unfold fuel0. rewrite append_attach by auto.
      destruct (attach_attached g1 p (length (children g1 p)) x R1 Xv Xd) as [At O2].
      pose proof (attached_wf _ _ _ _ _ W1 R1 Fr At) as W2.
      destruct (attached_up _ _ _ _ _ W1 R1 Fr At) as [U2 U2'].
      destruct (attach g1 p (length (children g1 p)) x) as [g2 o2]. cbn [fst snd] in *. subst o2. cbn [bind].
      pose proof (at_edit _ _ _ _ _ At) as Ed2. rewrite T1 in U2'.
      pose proof (keeps_trans _ _ _ Kh1 (edit_keeps _ _ Ed2)) as Kh2.
      assert (A2 : noattr g2) by (intro m; rewrite (e_attrs _ _ Ed2); auto).
      assert (Tx2 : is_tree g2 x = true).
      { rewrite (keeps_tree h g2) by auto. unfold is_tree, is_elem in *. destruct (kind_of h x) as [[]|]; auto; discriminate. }
      assert (N2 : ninv h xs g2).
      { constructor; auto. intros m V. destruct (ni_up _ _ _ N1 m V) as [A B]. split.
        - intros Im. rewrite U2. apply A; simpl; auto. intros ->. auto.
        - intros Nm. destruct (Nat.eq_dec m x) as [->|Ne].
          + left. rewrite U2'. symmetry. apply up_lists; auto.
          + rewrite U2 by auto. apply B. simpl. intros [E'|E']; [congruence|auto]. }
      destruct (IH g2 x W2 A2 Tx2) as (W3 & A3 & K3 & O3 & F3).
      destruct (normalize_f f g2 x) as [g3 o3]. cbn [fst snd] in *.
      pose proof (keeps_trans _ _ _ Kh2 K3) as Kh3.
      destruct O3 as [[v3 ->]| ->]; cbn [bind].
      * assert (N3 : ninv h xs g3).
        { constructor; auto. intros m V. destruct (ni_up _ _ _ N2 m V) as [A B].
          destruct Kh2 as [Lh2 Kh2']. specialize (F3 (ex_intro _ v3 eq_refl) m ltac:(lia)).
          assert (Tm : is_text g2 m = is_text h m) by (unfold is_text; destruct (Kh2' m V) as [-> _]; auto).
          rewrite Tm in F3. split.
          - intros Im. specialize (A Im). destruct F3 as [E|[_ E]]; congruence.
          - intros Nm. specialize (B Nm). destruct F3 as [E|[T E]]; [rewrite E; auto|auto]. }
        apply IHxs; auto.
      * cbn [fst snd]. refine (conj W3 (conj A3 (conj Kh3 (conj (or_intror eq_refl) _)))). intros [v Hv]. discriminate.
Qed.

Lemma norm_ok : forall f, norm_ih f.
Proof.
  induction f as [|f IH]; intros h p W Na T.
  - simpl. refine (conj W (conj Na (conj (keeps_refl h) (conj (or_intror eq_refl) _)))). intros [v Hv]. discriminate.
  - rewrite normalize_f_S. rewrite (tree_not_text _ _ T). rewrite (Na p). cbn [map for_each bind]. cbv zeta.
    destruct (clear_children_ok h p W T) as (W1 & E1 & C1 & U1).
    assert (N1 : ninv h (children h p) (set_children h p [])).
    { constructor; auto.
      - intro m. rewrite (e_attrs _ _ E1). auto.
      - apply edit_keeps; auto.
      - intros m V. rewrite U1. split.
        + intros I. rewrite (up_lists h p m W T I). simpl. rewrite Nat.eqb_refl. auto.
        + intros NI. left. destruct (opt_eqb (up h m) (Some p)) eqn:Q; auto.
          apply opt_eqb_eq in Q. apply up_Some in Q. tauto. }
    destruct (norm_loop f h p IH W T (children h p) (set_children h p []) [] N1 (incl_refl _) (wf_nodup _ W _ T))
      as (R1 & R2 & R3 & R4 & R5).
    destruct (norm_items (normalize_f f) (set_children h p []) p (children h p) []) as [h2 o2]. cbn [fst snd] in *.
    destruct R4 as [[v ->]| ->]; cbn [bind fst snd].
    + refine (conj R1 (conj R2 (conj R3 (conj (or_introl (ex_intro _ None eq_refl)) _)))). intros _. apply R5. eauto.
    + refine (conj R1 (conj R2 (conj R3 (conj (or_intror eq_refl) _)))). intros [v Hv]. discriminate.
Qed.

(* ====================================================================================================== *)
(* K. creation steps, and the theorems about one step and about histories *)


Lemma step_create_ok : forall h o, wf h -> adm_op h o = true -> is_create o = true ->
  wf (fst (step h o)) /\ (forall m, children (fst (step h o)) m = children h m) /\ exists r, snd (step h o) = ROk r.
Proof.
  intros h o W A C. destruct o; try discriminate; cbn [step adm_op] in *.
  - destruct (create_doc_ok h W) as [W1 C1]. split; auto. split; auto. unfold create_doc. cbn [snd]. eauto.
  - destruct (create_ok h d (KElem name) W A) as (O & W1 & _ & C1). split; auto. split; auto. eauto.
  - destruct (create_ok h d (KText s) W A) as (O & W1 & _ & C1). split; auto. split; auto. eauto.
  - destruct (create_ok h d KFrag W A) as (O & W1 & _ & C1). split; auto. split; auto. eauto.
Qed.


Lemma step_clone_ok : forall h c, wf h -> adm_op h (OClone c) = true ->
  clone_post h c (fst (step h (OClone c))) (snd (step h (OClone c))) /\ snd (step h (OClone c)) <> RFuel.
Proof.
  intros h c W A. cbn [adm_op step] in *. rewrite !andb_true_iff, negb_true_iff in A. destruct A as [[V D] N].
  rewrite V. apply valid_lt in V. apply no_attrs_noattr in N.
  destruct (clone_ok (S (length h)) h c W N V D) as [P NF]. split; auto.
  apply NF. intros d Dd. pose proof (deep_bound _ _ _ W V Dd). lia.
Qed.

Lemma step_normalize_ok : forall h p, wf h -> adm_op h (ONormalize p) = true ->
  norm_post h (fst (step h (ONormalize p))) (snd (step h (ONormalize p))).
Proof.
  intros h p W A. cbn [adm_op step] in *. apply andb_true_iff in A. destruct A as [T N].
  assert (R : receiver h p = true) by (unfold receiver; rewrite T; auto). rewrite R.
  apply norm_ok; auto. apply no_attrs_noattr; auto.
Qed.

Lemma step_wf : forall h o, wf h -> adm_op h o = true -> covered o = true -> wf (fst (step h o)).
Proof.
  intros h o W A C. unfold covered in C. rewrite !orb_true_iff in C. destruct C as [[C|C]|C].
  - apply (step_edit_ok h o W A C).
  - apply (step_create_ok h o W A C).
  - destruct o; try discriminate.
    + apply (step_normalize_ok h p W A).
    + apply (step_clone_ok h c W A).
Qed.

Lemma step_refines : forall h o, wf h -> adm_op h o = true -> refines h o.
Proof.
  intros h o W A. destruct (is_edit o) eqn:E.
  - apply (step_edit_ok h o W A E).
  - unfold refines. destruct o; try discriminate; cbn [expected]; auto.
Qed.

(* a raise leaves the heap as it was *)
Lemma step_crash_unchanged : forall h o k, wf h -> adm_op h o = true -> covered o = true ->
  snd (step h o) = RCrash k -> fst (step h o) = h.
Proof.
  intros h o k W A C Cr. unfold covered in C. rewrite !orb_true_iff in C. destruct C as [[C|C]|C].
  3:{ destruct o; try discriminate.
      - destruct (step_normalize_ok h p W A) as (_ & _ & _ & [[v P]|P] & _); congruence.
      - destruct (step_clone_ok h c W A) as [(_ & _ & _ & _ & P) _]. rewrite Cr in P. contradiction. }
  - destruct (step_edit_ok h o W A C) as [_ R]. unfold refines in R.
    destruct (expected h o) eqn:Ex.
    + destruct o; try discriminate; cbn [receiver_of] in R; destruct R as [[r R] _]; congruence.
    + rewrite R. auto.
    + destruct o; try discriminate; cbn [expected] in Ex; unfold l_at, l_pop, l_setitem in Ex; try discriminate;
        first [ destruct (index_of _ _) in Ex; discriminate | destruct (py_index _ _) in Ex; discriminate ].
  - destruct (step_create_ok h o W A C) as (_ & _ & [r R]). congruence.
Qed.

Lemma wf_nil : wf [].
Proof.
  constructor; simpl; intros; try lia.
  - unfold children, get in H. destruct n; simpl in H; contradiction.
  - unfold is_tree, kind_of, get in H. destruct n; simpl in H; discriminate.
  - unfold is_tree, kind_of, get in H. destruct n; simpl in H; discriminate.
  - unfold is_text, kind_of, get in H. destruct n; simpl in H; discriminate.
Qed.

Lemma history_wf_from : forall ops h, wf h -> forallb covered ops = true -> adm_hist h ops = true -> wf (run h ops).
Proof.
  induction ops as [|o ops IH]; intros h W C A; simpl in *; auto.
  apply andb_true_iff in C. destruct C as [C1 C2]. apply andb_true_iff in A. destruct A as [A1 A2].
  apply IH; auto. apply step_wf; auto.
Qed.

(* ====================================================================================================== *)
(* L. the theorems in their boolean (Spec) form *)

Theorem op_preserves_wf : forall (h : heap) (o : op), wf_b h = true -> adm_op h o = true -> covered o = true ->
    wf_b (fst (step h o)) = true /\ (forall k, snd (step h o) = RCrash k -> fst (step h o) = h).
Proof.
  intros h o W A C. apply wf_b_iff in W. split.
  - apply wf_b_iff. apply step_wf; auto.
  - intros k. apply step_crash_unchanged; auto.
Qed.

Theorem op_refines_list : forall (h : heap) (o : op), wf_b h = true -> adm_op h o = true -> refines h o.
Proof. intros h o W A. apply wf_b_iff in W. apply step_refines; auto. Qed.

Theorem history_wf : forall ops : list op, forallb covered ops = true -> adm_hist [] ops = true -> wf_b (run [] ops) = true.
Proof. intros. apply wf_b_iff. apply history_wf_from; auto. apply wf_nil. Qed.

Lemma run_app : forall ops1 ops2 h, run h (ops1 ++ ops2) = run (run h ops1) ops2.
Proof. intros. unfold run. apply fold_left_app. Qed.

Lemma adm_hist_app : forall ops1 ops2 h, adm_hist h (ops1 ++ ops2) = adm_hist h ops1 && adm_hist (run h ops1) ops2.
Proof.
  induction ops1; intros; simpl; auto. rewrite IHops1. rewrite andb_assoc. auto.
Qed.

Theorem history_refines : forall (ops : list op) (o : op), forallb covered ops = true -> adm_hist [] (ops ++ [o]) = true ->
    refines (run [] ops) o.
Proof.
  intros ops o C A. rewrite adm_hist_app in A. apply andb_true_iff in A. destruct A as [A1 A2].
  simpl in A2. rewrite andb_true_r in A2. apply step_refines; auto. apply history_wf_from; auto. apply wf_nil.
Qed.

Theorem wf_meaning : forall h : heap, wf_b h = true <->
    (forall n c, In c (children h n) ->
       c < length h /\ is_frag h c = false /\ is_doc h c = false /\ creator h c = creator h n) /\
    (forall n c, is_tree h n = true -> In c (children h n) -> parent h c = Some n) /\
    (forall n, is_tree h n = true -> NoDup (children h n)) /\
    (forall n, n < length h -> owner h n = Some (creator h n) /\ is_doc h (creator h n) = true) /\
    (forall n, n < length h -> exists fuel, rooted fuel h n = true) /\
    (forall n, is_text h n = true -> children h n = []).
Proof.
  intros. rewrite wf_b_iff. split.
  - intros [A B C D E F]. auto 10.
  - intros (A & B & C & D & E & F). constructor; auto.
Qed.


(* M6 *)
Theorem clone_equal_disjoint : forall h c, wf_b h = true -> adm_op h (OClone c) = true ->
  let h' := fst (step h (OClone c)) in
  exists n, snd (step h (OClone c)) = ROk (Some n) /\ n = length h /\ ext h h' /\
            (forall F, shape F h' n = shape F h c) /\ within (length h) h' n /\ up h' n = None.
Proof.
  intros h c W A. apply wf_b_iff in W. destruct (step_clone_ok h c W A) as [(_ & E & _ & _ & P) NF].
  destruct (snd (step h (OClone c))) as [[n|]| | | |]; try contradiction; try congruence.
  destruct P as (P1 & P2 & P3 & P4 & P5 & P6 & P7). exists n. exact (conj eq_refl (conj P1 (conj E (conj P6 (conj P7 P5))))).
Qed.


(* ====================================================================================================== *)
(* P. derived views: textContent and getElementsByTagName are the preorder traversal of the tree *)

Lemma concat_map_flat_map : forall (A B : Type) (f : B -> list A) (g : nat -> list B) (l : list nat),
  concat (map f (flat_map g l)) = concat (map (fun x => concat (map f (g x))) l).
Proof. induction l; simpl; auto. rewrite map_app, concat_app, IHl. auto. Qed.

Lemma text_of_nontext : forall h n, is_text h n = false -> text_of h n = [].
Proof. unfold is_text, text_of. intros. destruct (kind_of h n) as [[]|]; auto; discriminate. Qed.

Lemma text_content_S : forall f h n, text_content (S f) h n =
  match kind_of h n with
  | Some (KText s) => Some s
  | _ => (fix go (l : list nat) : option (list Z) :=
            match l with
            | [] => Some []
            | x :: r => match text_content f h x, go r with Some a, Some b => Some (a ++ b) | _, _ => None end
            end) (children h n)
  end.
Proof. reflexivity. Qed.

Lemma text_content_dfs : forall h, wf h -> forall F n s, text_content F h n = Some s ->
  s = concat (map (text_of h) (dfs F h n)).
Proof.
  intros h W. induction F; intros n s H; try discriminate.
  rewrite text_content_S in H. simpl dfs. simpl map. simpl concat.
  destruct (is_text h n) eqn:T.
  - rewrite (wf_leaf _ W _ T). simpl. unfold is_text, text_of in *. destruct (kind_of h n) as [[]|]; try discriminate.
    inversion H. rewrite app_nil_r. auto.
  - rewrite text_of_nontext by auto. simpl. rewrite concat_map_flat_map.
    assert (G : forall l s0,
      (fix go (l : list nat) : option (list Z) :=
         match l with
         | [] => Some []
         | x :: r => match text_content F h x, go r with Some a, Some b => Some (a ++ b) | _, _ => None end
         end) l = Some s0 -> s0 = concat (map (fun x => concat (map (text_of h) (dfs F h x))) l)).
    { induction l as [|x l IHl]; intros s0 E. inversion E; auto.
      destruct (text_content F h x) as [a|] eqn:Ea; try discriminate.
      match type of E with match ?G with _ => _ end = _ => destruct G as [b|] eqn:Eb; try discriminate end.
      inversion E. simpl. rewrite (IHF _ _ Ea), (IHl _ eq_refl). auto. }
    apply G. unfold is_text in T. destruct (kind_of h n) as [[]|]; auto; discriminate.
Qed.

Fixpoint tc_go (rec : nat -> option (list Z)) (l : list nat) : option (list Z) :=
  match l with
  | [] => Some []
  | x :: r => match rec x, tc_go rec r with Some a, Some b => Some (a ++ b) | _, _ => None end
  end.

Lemma text_content_S' : forall f h n, text_content (S f) h n =
  match kind_of h n with Some (KText s) => Some s | _ => tc_go (text_content f h) (children h n) end.
Proof.
  intros. rewrite text_content_S.
  assert (E : forall l, (fix go (l : list nat) : option (list Z) :=
            match l with
            | [] => Some []
            | x :: r => match text_content f h x, go r with Some a, Some b => Some (a ++ b) | _, _ => None end
            end) l = tc_go (text_content f h) l).
  { induction l; simpl; auto. rewrite IHl. auto. }
  rewrite E. auto.
Qed.

Lemma text_content_total : forall h F n, (forall d, deep h n d -> d < F) -> text_content F h n <> None.
Proof.
  induction F; intros n B. specialize (B 0 (deep_0 h n)). lia.
  rewrite text_content_S'.
  assert (G : forall l, (forall x, In x l -> In x (children h n)) -> tc_go (text_content F h) l <> None).
  { induction l as [|x l IHl]; intros Hl; simpl. discriminate.
    assert (Nx : text_content F h x <> None).
    { apply IHF. intros d Dd. assert (D' : deep h n (S d)) by (econstructor; [apply Hl; simpl; auto|auto]). apply B in D'. lia. }
    assert (Nl : tc_go (text_content F h) l <> None) by (apply IHl; intros; apply Hl; simpl; auto).
    destruct (text_content F h x); try congruence. destruct (tc_go (text_content F h) l); try congruence; discriminate. }
  destruct (kind_of h n) as [[]|]; try discriminate; apply G; auto.
Qed.

Theorem text_content_spec : forall h n, wf h -> n < length h -> text_content (S (length h)) h n = Some (spec_text h n).
Proof.
  intros h n W V. destruct (text_content (S (length h)) h n) as [s|] eqn:E.
  - f_equal. apply text_content_dfs; auto.
  - exfalso. revert E. apply text_content_total. intros d D. pose proof (deep_bound _ _ _ W V D). lia.
Qed.

Fixpoint bt_go (h : heap) (name : Z) (rec : nat -> option (list nat)) (l : list nat) : option (list nat) :=
  match l with
  | [] => Some []
  | x :: r => match rec x, bt_go h name rec r with
              | Some a, Some b => Some ((if has_name h x name then [x] else []) ++ a ++ b)
              | _, _ => None
              end
  end.

Lemma by_tag_S : forall f h n name, by_tag (S f) h n name =
  if is_text h n then Some [] else bt_go h name (fun x => by_tag f h x name) (map snd (attrs h n) ++ children h n).
Proof.
  intros. simpl. destruct (is_text h n); auto.
  generalize (map snd (attrs h n) ++ children h n). induction l; simpl; auto. rewrite IHl. auto.
Qed.

Lemma filter_flat_map : forall (p : nat -> bool) (g : nat -> list nat) l,
  filter p (flat_map g l) = flat_map (fun x => filter p (g x)) l.
Proof. induction l; simpl; auto. rewrite filter_app, IHl. auto. Qed.

Lemma by_tag_dfs : forall h name, wf h -> noattr h -> forall F n l, by_tag F h n name = Some l ->
  l = filter (fun x => has_name h x name) (tl (dfs F h n)).
Proof.
  intros h name W Na. induction F; intros n l H; try discriminate.
  rewrite by_tag_S in H. simpl dfs. simpl tl. destruct (is_text h n) eqn:T.
  - inversion H. rewrite (wf_leaf _ W _ T). auto.
  - rewrite (Na n) in H. simpl in H. rewrite filter_flat_map.
    revert l H. generalize (children h n). induction l as [|x xs IHl]; intros r H; simpl in H.
    + inversion H; auto.
    + destruct (by_tag F h x name) as [a|] eqn:Ea; try discriminate.
      destruct (bt_go h name (fun x0 => by_tag F h x0 name) xs) as [b|] eqn:Eb; try discriminate.
      inversion H. simpl. rewrite <- (IHl b eq_refl). rewrite app_assoc. f_equal.
      destruct F; try discriminate. rewrite (IHF x a Ea). simpl. destruct (has_name h x name); auto.
Qed.

Lemma by_tag_total : forall h name F n, (forall d, deep h n d -> d < F) -> noattr h -> by_tag F h n name <> None.
Proof.
  induction F; intros n B Na. specialize (B 0 (deep_0 h n)). lia.
  rewrite by_tag_S. destruct (is_text h n); try discriminate. rewrite (Na n). simpl.
  assert (G : forall l, (forall x, In x l -> In x (children h n)) -> bt_go h name (fun x => by_tag F h x name) l <> None).
  { induction l as [|x l IHl]; intros Hl; simpl. discriminate.
    assert (Nx : by_tag F h x name <> None).
    { apply IHF; auto. intros d Dd. assert (D' : deep h n (S d)) by (econstructor; [apply Hl; simpl; auto|auto]). apply B in D'. lia. }
    assert (Nl : bt_go h name (fun x0 => by_tag F h x0 name) l <> None) by (apply IHl; intros; apply Hl; simpl; auto).
    destruct (by_tag F h x name); try congruence. destruct (bt_go h name (fun x0 => by_tag F h x0 name) l); try congruence; discriminate. }
  apply G; auto.
Qed.

Theorem by_tag_spec : forall h n name, wf h -> noattr h -> n < length h ->
  by_tag (S (length h)) h n name = Some (spec_by_tag h n name).
Proof.
  intros h n name W Na V. destruct (by_tag (S (length h)) h n name) as [l|] eqn:E.
  - f_equal. apply by_tag_dfs; auto.
  - exfalso. revert E. apply by_tag_total; auto. intros d D. pose proof (deep_bound _ _ _ W V D). lia.
Qed.

(* ====================================================================================================== *)
(* Q. the normalized tree: same text, no adjacent text children, idempotent (facts about the Spec function) *)

Fixpoint tree_size (t : tree) : nat := match t with T _ kids => S (fold_right (fun x a => tree_size x + a) 0 kids) end.

Definition tree_ind' (P : tree -> Prop)
  (H : forall k kids, (forall x, In x kids -> P x) -> P (T k kids)) : forall t, P t :=
  fix IH (t : tree) : P t :=
    match t with
    | T k kids =>
        H k kids ((fix IHl (l : list tree) : forall x, In x l -> P x :=
                     match l with
                     | [] => fun x (i : In x []) => match i with end
                     | y :: r => fun x (i : In x (y :: r)) =>
                                   match i with
                                   | or_introl e => eq_ind y P (IH y) x e
                                   | or_intror i' => IHl r x i'
                                   end
                     end) kids)
    end.

Lemma merge_text_text : forall l, concat (map tree_text (merge_text l)) = concat (map tree_text l).
Proof.
  induction l as [|t r IH]; simpl; auto.
  destruct t as [k kids]. destruct k as [[n|s| |]|]; simpl; try (rewrite IH; auto).
  destruct (merge_text r) as [|[[[n'|s'| |]|] kids'] r'] eqn:E; simpl in *; rewrite <- IH; simpl; auto.
  rewrite app_assoc. auto.
Qed.

Theorem norm_tree_text : forall t, tree_text (norm_tree t) = tree_text t.
Proof.
  induction t as [k kids IH] using tree_ind'. simpl. destruct k as [[n|s| |]|]; auto;
    rewrite merge_text_text, map_map; f_equal; apply map_ext_In; auto.
Qed.

Lemma merge_text_head : forall l, match merge_text l with
                                  | t :: _ => is_text_leaf t = true -> exists s, t = T (Some (KText s)) []
                                  | [] => True end.
Proof.
  destruct l as [|t r]; simpl; auto.
  destruct t as [[[n|s| |]|] kids]; simpl; try discriminate.
  destruct (merge_text r) as [|[[[n'|s'| |]|] kids'] r']; eauto.
Qed.

Lemma adjacent_cons : forall a b r, adjacent_text (a :: b :: r) = (is_text_leaf a && is_text_leaf b) || adjacent_text (b :: r).
Proof. reflexivity. Qed.

Lemma merge_text_no_adjacent : forall l, adjacent_text (merge_text l) = false.
Proof.
  induction l as [|t r IH]; auto. cbn [merge_text].
  destruct (text_leaf t) as [s|] eqn:Lt.
  - destruct (merge_text r) as [|b r'] eqn:E; auto.
    destruct (text_leaf b) as [sb|] eqn:Lb.
    + assert (Hb : exists kb, b = T (Some (KText sb)) kb).
      { destruct b as [[[ | | | ]|] kb]; simpl in Lb; try discriminate. inversion Lb. eauto. }
      destruct Hb as [kb ->].
      destruct r' as [|c r'']; auto.
    + destruct b as [[[nb|sb'| |]|] kb]; simpl in Lb; try discriminate; exact IH.
  - destruct (merge_text r) as [|b r'] eqn:E; auto.
    rewrite adjacent_cons. unfold is_text_leaf at 1. rewrite Lt. auto.
Qed.

Lemma merge_text_forall : forall (P : tree -> bool) l, (forall s, P (T (Some (KText s)) []) = true) ->
  forallb P l = true -> forallb P (merge_text l) = true.
Proof.
  intros P l Ht. induction l as [|t r IH]; simpl; auto. intros H. apply andb_true_iff in H. destruct H as [H1 H2].
  specialize (IH H2).
  destruct t as [[[n|s| |]|] kids]; simpl; try (rewrite H1, IH; auto).
  destruct (merge_text r) as [|[[[n'|s'| |]|] kids'] r']; simpl in *; rewrite ?Ht; auto.
  apply andb_true_iff in IH. tauto.
Qed.

Theorem norm_tree_no_adjacent : forall t, no_adjacent (norm_tree t) = true.
Proof.
  induction t as [k kids IH] using tree_ind'. simpl. rewrite merge_text_no_adjacent. simpl.
  apply merge_text_forall; auto. apply forallb_forall. intros x Ix. apply in_map_iff in Ix. destruct Ix as (y & <- & Iy). auto.
Qed.

Lemma merge_text_elems : forall l y, In y (merge_text l) ->
  (exists s, y = T (Some (KText s)) []) \/ (In y l /\ text_leaf y = None).
Proof.
  induction l as [|t r IH]; simpl; intros y I; try contradiction.
  destruct (text_leaf t) as [s|] eqn:Lt.
  - destruct (merge_text r) as [|b r'] eqn:E.
    + destruct I as [<-|[]]. eauto.
    + assert (C : In y (T (Some (KText s)) [] :: b :: r') \/ (exists s', y = T (Some (KText s')) []) \/ In y r').
      { destruct b as [[[nb|sb| |]|] kb]; auto. destruct I as [<-|I]; eauto. }
      destruct C as [[<-|C]|[C|C]]; eauto.
      * destruct (IH y C) as [A|[A B]]; auto.
      * destruct (IH y (or_intror C)) as [A|[A B]]; auto.
  - destruct I as [<-|I]; auto. destruct (IH y I) as [A|[A B]]; auto.
Qed.

Lemma merge_text_fixed : forall l, adjacent_text l = false ->
  (forall t s kb, In t l -> t = T (Some (KText s)) kb -> kb = []) -> merge_text l = l.
Proof.
  induction l as [|t r IH]; intros A K; auto. cbn [merge_text].
  assert (Ar : adjacent_text r = false).
  { destruct r as [|b r']; auto. rewrite adjacent_cons in A. apply orb_false_iff in A. tauto. }
  rewrite (IH Ar) by (intros; eapply K; eauto; simpl; auto).
  destruct (text_leaf t) as [s|] eqn:Lt; auto.
  assert (Ht : t = T (Some (KText s)) []).
  { destruct t as [[[ | | | ]|] kb]; simpl in Lt; try discriminate. inversion Lt; subst.
    rewrite (K _ _ _ (or_introl eq_refl) eq_refl). auto. }
  subst t. destruct r as [|b r']; auto.
  rewrite adjacent_cons in A. apply orb_false_iff in A. destruct A as [A _]. simpl in A.
  destruct b as [[[nb|sb| |]|] kb]; auto. simpl in A. discriminate.
Qed.

Theorem norm_tree_idempotent : forall t, norm_tree (norm_tree t) = norm_tree t.
Proof.
  induction t as [k kids IH] using tree_ind'. simpl. f_equal.
  set (M := merge_text (map norm_tree kids)).
  assert (Fix : map norm_tree M = M).
  { rewrite <- (map_id M) at 2. apply map_ext_In. intros y Iy.
    destruct (merge_text_elems _ _ Iy) as [[s ->]|[I _]]; auto.
    apply in_map_iff in I. destruct I as (x & <- & Ix). auto. }
  rewrite Fix. apply merge_text_fixed.
  - apply merge_text_no_adjacent.
  - intros t s kb It ->. destruct (merge_text_elems _ _ It) as [[s' E]|[_ L]]. inversion E; auto. simpl in L. discriminate.
Qed.

(* ====================================================================================================== *)
(* R. compareDocumentPosition: a known finding (the faithful Model diverges exactly where the code does) *)

Definition stale_cycle_history : list op :=
  [OCreateDoc; OCreateElem 0 0; OCreateElem 0 1; OCreateText 0 [97%Z]; OCreateText 0 [98%Z]; OCreateText 0 [99%Z];
   OAppend 1 2; ORemoveChild 1 2;      (* n2 keeps parentNode = n1 *)
   OAppend 2 1;                        (* n1 becomes a child of n2: the stale link of the root n2 leads back into its tree *)
   OAppend 1 3; OAppend 1 4; OAppend 1 5].

Theorem compare_stale_cycle_refuted :
  exists (ops : list op) (s o : nat),
    forallb covered ops = true /\ adm_hist [] ops = true /\
    let h := run [] ops in
    wf_b h = true /\ root_of h s = root_of h o /\ spec_compare_dewey h s o = POS_FOLLOWING /\ compare_pos h s o = VHang.
Proof. exists stale_cycle_history, 3, 5. vm_compute. repeat split. Qed.

Theorem text_content_spec_b : forall (h : heap) (n : nat), wf_b h = true -> n < length h ->
    text_content (S (length h)) h n = Some (concat (map (text_of h) (dfs (S (length h)) h n))).
Proof. intros h n W V. apply wf_b_iff in W. apply text_content_spec; auto. Qed.

Theorem by_tag_spec_b : forall (h : heap) (n : nat) (name : Z), wf_b h = true -> no_attrs h = true -> n < length h ->
    by_tag (S (length h)) h n name = Some (filter (fun x => has_name h x name) (tl (dfs (S (length h)) h n))).
Proof. intros h n name W N V. apply wf_b_iff in W. apply no_attrs_noattr in N. apply by_tag_spec; auto. Qed.

(* ====================================================================================================== *)
(* S. compareDocumentPosition on a tree whose root carries no stale parentNode link *)

Fixpoint take_until (x : nat) (l : list nat) : list nat :=
  match l with [] => [] | y :: r => if Nat.eqb y x then [] else y :: take_until x r end.

(* the raw parentNode walk of _compareDocumentPosition follows the tree edges when no stale link is met *)
Lemma walk_up_chain : forall h stop fuel n acc,
  (forall m, In m (chain fuel h n) -> parent h m = up h m) -> rooted fuel h n = true ->
  walk_up fuel h stop n acc =
    if mem stop (chain fuel h n) then Some (true, rev (take_until stop (chain fuel h n)) ++ acc)
    else Some (false, rev (chain fuel h n) ++ acc).
Proof.
  induction fuel; intros n acc P R; simpl in *; try discriminate.
  destruct (Nat.eqb_spec n stop) as [->|N].
  - rewrite Nat.eqb_refl. simpl. auto.
  - assert (E : Nat.eqb stop n = false) by (apply Nat.eqb_neq; auto). rewrite E. simpl.
    rewrite (P n (or_introl eq_refl)). destruct (up h n) as [p|] eqn:U.
    + rewrite IHfuel; auto.
      destruct (mem stop (chain fuel h p)); simpl; rewrite <- app_assoc; auto.
    + simpl. auto.
Qed.

Lemma first_of_spec : forall s o l, s <> o -> In s l -> In o l ->
  exists a b, index_of s l = Some a /\ index_of o l = Some b /\
              first_of s o l = Some (if Nat.ltb a b then POS_FOLLOWING else POS_PRECEDING).
Proof.
  induction l as [|y l IH]; intros N Is Io; try contradiction. simpl.
  destruct (Nat.eqb_spec y s) as [->|Ns].
  - destruct (Nat.eqb_spec s o); try congruence.
    destruct Io as [Io|Io]; try congruence.
    destruct (index_of o l) as [b|] eqn:Eb. 2:{ apply index_of_None in Eb. contradiction. }
    exists 0, (S b). auto.
  - destruct (Nat.eqb_spec y o) as [->|No].
    + destruct Is as [Is|Is]; try congruence.
      destruct (index_of s l) as [a|] eqn:Ea. 2:{ apply index_of_None in Ea. contradiction. }
      exists (S a), 0. auto.
    + destruct Is as [Is|Is]; try congruence. destruct Io as [Io|Io]; try congruence.
      destruct (IH N Is Io) as (a & b & A & B & C). rewrite A, B, C. exists (S a), (S b). auto.
Qed.

Lemma cmp_inner_skip : forall h y sn Q1 R, ~ In y Q1 -> cmp_inner h y sn (Q1 ++ R) = cmp_inner h y sn R.
Proof.
  induction Q1 as [|q Q1 IH]; intros R N; simpl; auto.
  destruct (Nat.eqb_spec y q) as [->|Ne]. exfalso. apply N. simpl; auto.
  apply IH. intro. apply N. simpl; auto.
Qed.

Lemma cmp_inner_absent : forall h y sn Q, ~ In y Q -> cmp_inner h y sn Q = CNext.
Proof. intros. rewrite <- (app_nil_r Q). rewrite cmp_inner_skip; auto. Qed.

(* two root-first paths with a common part [pre ++ [a]] that then part into s' and o' *)
Lemma cmp_outer_paths : forall h a s' o' P2 Q2 pre done,
  s' <> o' -> NoDup (done ++ pre ++ a :: s' :: P2) -> NoDup (done ++ pre ++ a :: o' :: Q2) ->
  In s' (children h a) -> In o' (children h a) ->
  cmp_outer h (pre ++ a :: s' :: P2) (done ++ pre ++ a :: o' :: Q2) =
  match first_of s' o' (children h a) with Some z => CVal z | None => CNext end.
Proof.
  intros h a s' o' P2 Q2. induction pre as [|x pre IH]; intros done N NP NQ Is Io.
  - simpl app. cbn [cmp_outer hd_error].
    assert (Nd : ~ In a done).
    { intro I. apply NoDup_app_remove_r in NQ || idtac. clear - NQ I. induction done; simpl in *; try contradiction.
      inversion NQ; subst. destruct I as [->|I]. apply H1. apply in_app_iff. right. simpl; auto. apply IHdone; auto. }
    rewrite cmp_inner_skip by auto. cbn [cmp_inner hd_error]. rewrite Nat.eqb_refl.
    apply Nat.eqb_neq in N. rewrite N.
    destruct (first_of_spec s' o' (children h a)) as (i & j & A & B & C); auto. apply Nat.eqb_neq; auto.
    rewrite C. auto.
  - simpl app. cbn [cmp_outer].
    (* x sits at the same place in both paths and is followed by the same node: skipped *)
    assert (Hd : hd_error (pre ++ a :: s' :: P2) = hd_error (pre ++ a :: o' :: Q2)) by (destruct pre; auto).
    assert (Nx : ~ In x done /\ ~ In x (pre ++ a :: o' :: Q2)).
    { clear - NQ. induction done; simpl in *.
      - inversion NQ; auto.
      - inversion NQ; subst. destruct (IHdone H2) as [A B]. split; auto. intros [->|I]; auto.
        apply H1. apply in_app_iff. right. simpl; auto. }
    destruct Nx as [Nx1 Nx2].
    rewrite cmp_inner_skip by auto. cbn [cmp_inner]. rewrite Nat.eqb_refl. rewrite <- Hd.
    destruct (hd_error (pre ++ a :: s' :: P2)) as [z|] eqn:Ez.
    2:{ destruct pre; discriminate. }
    rewrite Nat.eqb_refl. rewrite cmp_inner_absent by auto.
    replace (done ++ x :: pre ++ a :: o' :: Q2) with ((done ++ [x]) ++ pre ++ a :: o' :: Q2) by (rewrite <- app_assoc; auto).
    apply IH; auto; rewrite <- app_assoc; auto.
Qed.

Lemma path_idx_split : forall h pre a x R,
  path_idx h (pre ++ a :: x :: R) =
  path_idx h (pre ++ [a]) ++ match index_of x (children h a) with Some k => k | None => 0 end :: path_idx h (x :: R).
Proof.
  induction pre as [|p pre IH]; intros. reflexivity.
  destruct pre as [|q pre']. reflexivity.
  change (path_idx h ((p :: q :: pre') ++ a :: x :: R)) with
    (match index_of q (children h p) with Some k => k | None => 0 end :: path_idx h ((q :: pre') ++ a :: x :: R)).
  rewrite IH. reflexivity.
Qed.

Lemma lex_lt_prefix : forall c i j u v, i <> j -> lex_lt (c ++ i :: u) (c ++ j :: v) = Nat.ltb i j.
Proof.
  induction c as [|x c IH]; intros; simpl.
  - apply Nat.eqb_neq in H. rewrite H. simpl. apply orb_false_r.
  - rewrite Nat.ltb_irrefl, Nat.eqb_refl. simpl. apply IH; auto.
Qed.

Lemma diverge : forall (P' Q' : list nat) r,
  ~ (exists t, r :: Q' = (r :: P') ++ t) -> ~ (exists t, r :: P' = (r :: Q') ++ t) ->
  exists pre a x y P2 Q2, r :: P' = pre ++ a :: x :: P2 /\ r :: Q' = pre ++ a :: y :: Q2 /\ x <> y.
Proof.
  induction P' as [|x P'' IH]; intros Q' r NP NQ.
  - exfalso. apply NP. exists Q'. auto.
  - destruct Q' as [|y Q''].
    + exfalso. apply NQ. exists (x :: P''). auto.
    + destruct (Nat.eq_dec x y) as [->|N].
      * destruct (IH Q'' y) as (pre & a & x' & y' & P2 & Q2 & E1 & E2 & N').
        { intros [t E]. apply NP. exists t. simpl in *. f_equal. auto. }
        { intros [t E]. apply NQ. exists t. simpl in *. f_equal. auto. }
        exists (r :: pre), a, x', y', P2, Q2. simpl. rewrite E1, E2. auto.
      * exists [], r, x, y, P'', Q''. auto.
Qed.

Lemma chain_consecutive : forall h F n l1 y x l2, chain F h n = l1 ++ y :: x :: l2 -> up h y = Some x.
Proof.
  induction F; intros n l1 y x l2 E; simpl in E. destruct l1; discriminate.
  destruct l1 as [|z l1]; simpl in E.
  - inversion E; subst. destruct (up h y) as [p|] eqn:U; try discriminate.
    destruct F; simpl in H1; try discriminate. inversion H1; subst. auto.
  - inversion E; subst. destruct (up h z) as [p|] eqn:U. eapply IHF; eauto. destruct l1; discriminate.
Qed.

Lemma last_default : forall (l : list nat) a b, l <> [] -> last l a = last l b.
Proof. induction l as [|x l IH]; intros; try congruence. destruct l; auto. simpl in *. apply IH. discriminate. Qed.

Lemma chain_last_root : forall h F n m, rooted F h n = true -> In m (chain F h n) -> up h m = None ->
  m = last (chain F h n) n.
Proof.
  induction F; intros n m R I U; simpl in R; try discriminate.
  simpl chain in *. destruct (up h n) as [p|] eqn:Un.
  - destruct I as [<-|I]; try congruence.
    assert (Ne : chain F h p <> []) by (destruct F; simpl in *; discriminate).
    rewrite (IHF p m R I U). destruct (chain F h p) eqn:E; try congruence.
    change (last (n :: n0 :: l) n) with (last (n0 :: l) n). apply last_default. discriminate.
  - destruct I as [<-|[]]. auto.
Qed.

Lemma chain_head : forall h F n, chain (S F) h n = n :: tl (chain (S F) h n).
Proof. intros. simpl. auto. Qed.

Lemma index_of_inj : forall x y l k, index_of x l = Some k -> index_of y l = Some k -> x = y.
Proof.
  intros. apply index_of_Some in H. apply index_of_Some in H0. destruct H as [A _]. destruct H0 as [B _]. congruence.
Qed.

Lemma In_index_of : forall x l, In x l -> exists k, index_of x l = Some k.
Proof. intros. destruct (index_of x l) eqn:E; eauto. apply index_of_None in E. contradiction. Qed.

Section Compare.
  Context (h : heap) (W : wf h).
  Let L := length h.

  Lemma cmp_rooted : forall n, n < L -> rooted L h n = true.
  Proof. intros. apply rooted_bound; auto. apply wf_acyclic; auto. Qed.

  Lemma cmp_chain_S : forall n, n < L -> chain (S L) h n = chain L h n.
  Proof. intros. apply rooted_chain_stable; auto. apply cmp_rooted; auto. Qed.

  Lemma cmp_clean : forall n, n < L -> parent h (root_of h n) = None -> forall m, In m (chain L h n) -> parent h m = up h m.
  Proof.
    intros n V C m I. destruct (up h m) as [p|] eqn:U.
    - apply up_Some in U. tauto.
    - rewrite (chain_last_root h L n m (cmp_rooted n V) I U). apply C.
  Qed.

  (* what a decomposition of the two root-first paths at the place where they part gives *)
  Lemma from_decomp : forall s o pre a s' o' P2 Q2, s < L -> o < L ->
    rev (chain L h s) = pre ++ a :: s' :: P2 -> rev (chain L h o) = pre ++ a :: o' :: Q2 -> s' <> o' ->
    In s' (children h a) /\ In o' (children h a) /\
    exists i j, index_of s' (children h a) = Some i /\ index_of o' (children h a) = Some j /\ i <> j /\
                lex_lt (dewey h o) (dewey h s) = Nat.ltb j i.
  Proof.
    intros s o pre a s' o' P2 Q2 Vs Vo Es Eo N.
    assert (Cs : chain L h s = rev P2 ++ s' :: a :: rev pre).
    { rewrite <- (rev_involutive (chain L h s)), Es. rewrite rev_app_distr. simpl. rewrite <- !app_assoc. auto. }
    assert (Co : chain L h o = rev Q2 ++ o' :: a :: rev pre).
    { rewrite <- (rev_involutive (chain L h o)), Eo. rewrite rev_app_distr. simpl. rewrite <- !app_assoc. auto. }
    pose proof (chain_consecutive _ _ _ _ _ _ _ Cs) as Us. pose proof (chain_consecutive _ _ _ _ _ _ _ Co) as Uo.
    apply up_Some in Us. apply up_Some in Uo. destruct Us as (_ & _ & Is). destruct Uo as (_ & _ & Io).
    split; auto. split; auto.
    destruct (In_index_of _ _ Is) as [i Ei]. destruct (In_index_of _ _ Io) as [j Ej].
    exists i, j. repeat split; auto.
    - intros ->. apply N. eapply index_of_inj; eauto.
    - unfold dewey. fold L. rewrite Es, Eo, !path_idx_split, Ei, Ej. apply lex_lt_prefix.
      intros ->. apply N. eapply index_of_inj; eauto.
  Qed.
End Compare.

Lemma nth_error_index_of : forall (l : list nat) k x, NoDup l -> nth_error l k = Some x -> index_of x l = Some k.
Proof.
  induction l as [|y l IH]; intros k x N E; destruct k; simpl in *; try discriminate.
  - inversion E. subst. rewrite Nat.eqb_refl. auto.
  - inversion N; subst. destruct (Nat.eqb_spec y x) as [->|Ne].
    + exfalso. apply H1. eapply nth_error_In; eauto.
    + rewrite (IH k x H2 E). auto.
Qed.

Lemma rev_head_last : forall (l : list nat) d, l <> [] -> exists t, rev l = last l d :: t.
Proof.
  intros l d N. destruct (exists_last N) as (l' & x & ->). rewrite rev_app_distr, last_last. simpl. eauto.
Qed.

Lemma chain_nonempty : forall h n, 0 < length h -> chain (length h) h n <> [].
Proof. intros. destruct (length h); try lia. simpl. discriminate. Qed.

Lemma chain_step_same_fuel : forall h x p, wf h -> x < length h -> up h x = Some p ->
  chain (length h) h x = x :: chain (length h) h p.
Proof.
  intros h x p W V U. rewrite <- (cmp_chain_S h W x V). simpl. rewrite U. auto.
Qed.

(* two children of one node: the decomposition is explicit *)
Lemma sibling_decomp : forall h p x, wf h -> x < length h -> up h x = Some p ->
  exists pre, rev (chain (length h) h x) = pre ++ p :: x :: [].
Proof.
  intros h p x W V U. rewrite (chain_step_same_fuel h x p W V U).
  pose proof (up_valid _ _ _ U) as Vp.
  assert (E : chain (length h) h p = p :: tl (chain (length h) h p)) by (destruct (length h); [lia|reflexivity]).
  rewrite E. simpl. exists (rev (tl (chain (length h) h p))). rewrite <- app_assoc. auto.
Qed.

Theorem compare_clean : forall h s o, wf h -> s < length h -> o < length h -> listed_in_frag h s = false ->
  root_of h s = root_of h o -> parent h (root_of h s) = None ->
  compare_pos h s o = VVal (spec_compare_dewey h s o).
Proof.
  intros h s o W Vs Vo Lf Rt Cl.
  pose proof (cmp_rooted h W s Vs) as Rs. pose proof (cmp_rooted h W o Vo) as Ro.
  pose proof (cmp_clean h W s Vs Cl) as Cls. rewrite Rt in Cl. pose proof (cmp_clean h W o Vo Cl) as Clo.
  unfold compare_pos, spec_compare_dewey.
  destruct (negb (opt_eqb (owner h s) (owner h o))); auto.
  destruct (siblings_spec h s Lf) as [Nx Pv].
  (* facts about an adjacent sibling at index k / S k *)
  assert (SIB : forall p i j, up h s = Some p -> index_of s (children h p) = Some i -> nth_error (children h p) j = Some o -> i <> j ->
            mem o (chain (length h) h s) = false /\ mem s (chain (length h) h o) = false /\
            lex_lt (dewey h o) (dewey h s) = Nat.ltb j i).
  { intros p i j Us Is Io Nij.
    pose proof (up_Some _ _ _ Us) as (_ & Tp & Ins).
    assert (Ino : In o (children h p)) by (eapply nth_error_In; eauto).
    assert (Uo : up h o = Some p) by (apply up_lists; auto).
    assert (Jo : index_of o (children h p) = Some j) by (apply nth_error_index_of; auto; eapply wf_nodup; eauto).
    assert (Nso : s <> o) by (intros ->; congruence).
    rewrite (chain_step_same_fuel h s p W Vs Us), (chain_step_same_fuel h o p W Vo Uo).
    split; [|split].
    - apply mem_false. intros [E|I]; [congruence|]. exact (child_not_ancestor h p o W Tp Ino _ I).
    - apply mem_false. intros [E|I]; [congruence|]. exact (child_not_ancestor h p s W Tp Ins _ I).
    - destruct (sibling_decomp h p s W Vs Us) as [pre Es]. destruct (sibling_decomp h p o W Vo Uo) as [pre' Eo].
      assert (pre' = pre).
      { pose proof Es as Es'. pose proof Eo as Eo'.
        rewrite (chain_step_same_fuel h s p W Vs Us) in Es'. rewrite (chain_step_same_fuel h o p W Vo Uo) in Eo'.
        simpl in Es', Eo'.
        assert (A : rev (chain (length h) h p) = pre ++ [p]) by (apply app_inj_tail with (a:=s) (b:=s); rewrite Es', <- app_assoc; auto).
        assert (B : rev (chain (length h) h p) = pre' ++ [p]) by (apply app_inj_tail with (a:=o) (b:=o); rewrite Eo', <- app_assoc; auto).
        rewrite A in B. apply app_inj_tail in B. destruct B; auto. }
      subst pre'.
      destruct (from_decomp h s o pre p s o [] [] Vs Vo Es Eo Nso) as (_ & _ & i' & j' & Ei & Ej & _ & Lx).
      rewrite Lx. congruence. }
  destruct (Nat.eq_dec s o) as [->|Ne].
  - (* the same node: it is neither its own previous nor its own next sibling *)
    rewrite Nat.eqb_refl.
    assert (P1 : opt_eqb (prev_sibling h o) (Some o) = false).
    { destruct (opt_eqb (prev_sibling h o) (Some o)) eqn:E; auto. apply opt_eqb_eq in E. rewrite Pv in E.
      unfold spec_prev, nth_opt in E. destruct (up h o) as [p|] eqn:U; try discriminate.
      destruct (index_of o (children h p)) as [[|k]|] eqn:I; try discriminate.
      apply index_of_Some in I. destruct I as (_ & _ & Nf). exfalso. apply Nf.
      assert (Lk : k < length (children h p)) by (apply nth_error_Some; congruence).
      rewrite <- (firstn_skipn k (children h p)) in E. rewrite nth_error_app2 in E by (rewrite firstn_length_le; lia).
      rewrite firstn_length_le, Nat.sub_diag in E by lia.
      destruct (skipn k (children h p)) eqn:Sk; simpl in E; try discriminate. inversion E; subst.
      replace (S k) with (k + 1) by lia. rewrite <- (firstn_skipn k (children h p)) at 1.
      rewrite firstn_app, firstn_firstn, firstn_length_le by lia. rewrite Nat.min_r by lia.
      replace (k + 1 - k) with 1 by lia. apply in_app_iff. right. rewrite Sk. simpl. auto. }
    assert (P2 : opt_eqb (next_sibling h o) (Some o) = false).
    { destruct (opt_eqb (next_sibling h o) (Some o)) eqn:E; auto. apply opt_eqb_eq in E. rewrite Nx in E.
      unfold spec_next, nth_opt in E. destruct (up h o) as [p|] eqn:U; try discriminate.
      destruct (index_of o (children h p)) as [k|] eqn:I; try discriminate.
      pose proof (up_Some _ _ _ U) as (_ & Tp & _).
      pose proof (nth_error_index_of _ _ _ (wf_nodup _ W _ Tp) E). rewrite I in H. inversion H. lia. }
    rewrite P1, P2. auto.
  - assert (Ne' : Nat.eqb s o = false) by (apply Nat.eqb_neq; auto). rewrite Ne'.
    destruct (opt_eqb (prev_sibling h s) (Some o)) eqn:Ep.
    + apply opt_eqb_eq in Ep. rewrite Pv in Ep. unfold spec_prev, nth_opt in Ep.
      destruct (up h s) as [p|] eqn:U; try discriminate.
      destruct (index_of s (children h p)) as [[|k]|] eqn:I; try discriminate.
      destruct (SIB p (S k) k eq_refl I Ep ltac:(lia)) as (A & B & C). rewrite A, B, C.
      assert (Q : Nat.ltb k (S k) = true) by (apply Nat.ltb_lt; lia). rewrite Q. auto.
    + destruct (opt_eqb (next_sibling h s) (Some o)) eqn:En.
      * apply opt_eqb_eq in En. rewrite Nx in En. unfold spec_next, nth_opt in En.
        destruct (up h s) as [p|] eqn:U; try discriminate.
        destruct (index_of s (children h p)) as [k|] eqn:I; try discriminate.
        destruct (SIB p k (S k) eq_refl I En ltac:(lia)) as (A & B & C). rewrite A, B, C.
        assert (Q : Nat.ltb (S k) k = false) by (apply Nat.ltb_ge; lia). rewrite Q. auto.
      * (* the general case: two walks up, then the paths are compared from the root *)
        rewrite (walk_up_chain h o (S (length h)) s []).
        2:{ rewrite (cmp_chain_S h W s Vs). auto. }
        2:{ apply rooted_mono with (f := length h); auto. }
        rewrite (cmp_chain_S h W s Vs).
        destruct (mem o (chain (length h) h s)) eqn:Mo; auto.
        rewrite (walk_up_chain h s (S (length h)) o []).
        2:{ rewrite (cmp_chain_S h W o Vo). auto. }
        2:{ apply rooted_mono with (f := length h); auto. }
        rewrite (cmp_chain_S h W o Vo).
        destruct (mem s (chain (length h) h o)) eqn:Ms; auto.
        rewrite !app_nil_r.
        assert (Lpos : 0 < length h) by lia.
        destruct (rev_head_last (chain (length h) h s) s (chain_nonempty h s Lpos)) as [P' EP].
        destruct (rev_head_last (chain (length h) h o) o (chain_nonempty h o Lpos)) as [Q' EQ].
        fold (root_of h s) in EP. fold (root_of h o) in EQ. rewrite <- Rt in EQ.
        assert (Ins : In s (rev (chain (length h) h s))).
        { apply in_rev. rewrite rev_involutive. destruct (length h); [lia|simpl; auto]. }
        assert (Ino : In o (rev (chain (length h) h o))).
        { apply in_rev. rewrite rev_involutive. destruct (length h); [lia|simpl; auto]. }
        destruct (diverge P' Q' (root_of h s)) as (pre & a & s' & o' & P2 & Q2 & E1 & E2 & N').
        { rewrite <- EP, <- EQ. intros [t E]. apply mem_false in Ms. apply Ms. apply in_rev. rewrite E. apply in_app_iff. auto. }
        { rewrite <- EP, <- EQ. intros [t E]. apply mem_false in Mo. apply Mo. apply in_rev. rewrite E. apply in_app_iff. auto. }
        rewrite <- EP in E1. rewrite <- EQ in E2.
        destruct (from_decomp h s o pre a s' o' P2 Q2 Vs Vo E1 E2 N') as (Is' & Io' & i & j & Ei & Ej & Nij & Lx).
        rewrite E1, E2.
        pose proof (cmp_outer_paths h a s' o' P2 Q2 pre [] N') as CO. simpl app in CO. rewrite CO; auto.
        -- destruct (first_of_spec s' o' (children h a) N' Is' Io') as (i' & j' & Ei' & Ej' & Fo).
           rewrite Fo, Lx. rewrite Ei in Ei'. rewrite Ej in Ej'. inversion Ei'. inversion Ej'. subst i' j'.
           destruct (Nat.ltb_spec i j); destruct (Nat.ltb_spec j i); auto; lia.
        -- rewrite <- E1. apply NoDup_rev. apply rooted_chain_nodup; auto.
        -- rewrite <- E2. apply NoDup_rev. apply rooted_chain_nodup; auto.
Qed.

Theorem compare_partial : forall h s o, wf_b h = true -> s < length h -> o < length h -> listed_in_frag h s = false ->
  root_of h s = root_of h o -> parent h (root_of h s) = None ->
  compare_pos h s o = VVal (spec_compare_dewey h s o).
Proof. intros h s o W. apply wf_b_iff in W. apply compare_clean; auto. Qed.

(* ====================================================================================================== *)
(* T. normalize refines norm_tree *)

Definition below (h : heap) (a m : nat) : Prop := In a (chain (length h) h m).

Lemma chain_next : forall h F m a p, rooted F h m = true -> In a (chain F h m) -> up h a = Some p -> In p (chain F h m).
Proof.
  induction F; intros m a p R I U; simpl in *; try discriminate.
  destruct I as [<-|I].
  - rewrite U in *. right. destruct F; simpl in R; try discriminate. simpl. auto.
  - destruct (up h m) as [q|] eqn:Um; try contradiction. right. eapply IHF; eauto.
Qed.

Lemma unique_child : forall h, wf h -> forall F m a b p,
  In a (chain F h m) -> In b (chain F h m) -> up h a = Some p -> up h b = Some p -> a = b.
Proof.
  intros h W. induction F; intros m a b p Ia Ib Ua Ub; simpl in *; try contradiction.
  assert (K : forall c, up h c = Some p -> forall G, ~ In c (chain G h p)).
  { intros c Uc G. apply up_Some in Uc. destruct Uc as (_ & T & I). apply child_not_ancestor; auto. }
  destruct Ia as [<-|Ia]; destruct Ib as [<-|Ib]; auto.
  - rewrite Ua in Ib. exfalso. exact (K b Ub F Ib).
  - rewrite Ub in Ia. exfalso. exact (K a Ua F Ia).
  - destruct (up h m) as [q|]; try contradiction. eapply IHF; eauto.
Qed.

Lemma not_frag_text_tree : forall h x, x < length h -> is_frag h x = false -> is_text h x = false -> is_tree h x = true.
Proof.
  unfold is_frag, is_text, is_tree, kind_of. intros. destruct (get h x) as [nd|] eqn:E.
  - destruct (nkind nd); auto; discriminate.
  - exfalso. apply get_valid in H. congruence.
Qed.

Lemma dfs_below : forall h, wf h -> forall F x m, x < length h -> is_frag h x = false ->
  In m (dfs F h x) -> below h x m.
Proof.
  intros h W. unfold below. induction F; intros x m V Fx I; simpl in I; try contradiction.
  destruct I as [<-|I].
  - destruct (length h); [lia|simpl; auto].
  - apply in_flat_map in I. destruct I as (c & Ic & Im).
    destruct (wf_children _ W _ _ Ic) as (Vc & Fc & _).
    pose proof (IHF c m Vc Fc Im) as B.
    destruct (is_text h x) eqn:Tx. { rewrite (wf_leaf _ W _ Tx) in Ic. contradiction. }
    pose proof (not_frag_text_tree h x V Fx Tx) as T.
    assert (Vm : m < length h) by (eapply wf_dfs_valid; eauto).
    eapply chain_next; eauto. apply cmp_rooted; auto. apply up_lists; auto.
Qed.

Lemma parent_not_in_subtree : forall h p c F, wf h -> is_tree h p = true -> In c (children h p) -> ~ In p (dfs F h c).
Proof.
  intros h p c F W T I J. destruct (wf_children _ W _ _ I) as (Vc & Fc & _).
  apply (dfs_below h W F c p Vc Fc) in J. exact (child_not_ancestor h p c W T I _ J).
Qed.

Lemma shape_same : forall g g' F n,
  (forall m, In m (dfs F g n) -> kind_of g' m = kind_of g m /\ children g' m = children g m) ->
  shape F g' n = shape F g n /\ dfs F g' n = dfs F g n.
Proof.
  intros g g'. induction F; simpl; intros n H; auto.
  destruct (H n (or_introl eq_refl)) as [K C]. rewrite K, C.
  assert (S : forall x, In x (children g n) -> shape F g' x = shape F g x /\ dfs F g' x = dfs F g x).
  { intros x I. apply IHF. intros m Im. apply H. right. apply in_flat_map. exists x. auto. }
  split.
  - f_equal. apply map_ext_In. intros. apply S; auto.
  - f_equal. apply flat_map_ext_In. intros. apply S; auto.
Qed.

Lemma chain_incl_old : forall h g, (forall y, y < length h -> up g y = up h y \/ up g y = None) ->
  forall F m, m < length h -> incl (chain F g m) (chain F h m).
Proof.
  intros h g Hu. induction F; intros m V; simpl. apply incl_refl.
  destruct (Hu m V) as [E|E]; rewrite E.
  - destruct (up h m) as [q|] eqn:U; try apply incl_refl.
    intros x [D|D]; [left; auto|right]. apply IHF; auto. eapply up_valid; eauto.
  - intros x [D|[]]. left; auto.
Qed.

Lemma deep_transfer : forall h g x, (forall F m, In m (dfs F h x) -> children g m = children h m) ->
  forall d, deep g x d -> deep h x d.
Proof.
  intros h g x Hs d D. revert Hs. induction D as [c|c x d Ic Dx IH]; intros Hs. constructor.
  assert (E : children g c = children h c) by (apply (Hs 1); simpl; auto).
  rewrite E in Ic. econstructor; eauto. apply IH.
  intros F m Im. apply (Hs (S F)). simpl. right. apply in_flat_map. exists x. auto.
Qed.

(* the loop of Node.normalize, on trees *)
Definition flush_tree (buf : list (list Z)) : list tree :=
  match buf with [] => [] | _ => [T (Some (KText (concat buf))) []] end.

Fixpoint merge_acc (buf : list (list Z)) (l : list tree) : list tree :=
  match l with
  | [] => flush_tree buf
  | t :: r => match text_leaf t with
              | Some s => merge_acc (buf ++ [s]) r
              | None => flush_tree buf ++ t :: merge_acc [] r
              end
  end.

Lemma merge_text_cons_text : forall a k l, merge_text (T (Some (KText a)) k :: l) =
  match merge_text l with
  | T (Some (KText s')) _ :: r' => T (Some (KText (a ++ s'))) [] :: r'
  | r' => T (Some (KText a)) [] :: r'
  end.
Proof. reflexivity. Qed.

Lemma merge_acc_spec : forall l buf, merge_acc buf l =
  match buf with [] => merge_text l | _ => merge_text (T (Some (KText (concat buf))) [] :: l) end.
Proof.
  induction l as [|t r IH]; intros buf.
  - destruct buf; reflexivity.
  - cbn [merge_acc]. destruct (text_leaf t) as [s|] eqn:Lt.
    + assert (Ht : exists k, t = T (Some (KText s)) k).
      { destruct t as [[[ | | | ]|] k]; simpl in Lt; try discriminate. inversion Lt. eauto. }
      destruct Ht as [k ->]. rewrite IH.
      assert (Ne : buf ++ [s] <> []) by (destruct buf; discriminate).
      destruct (buf ++ [s]) as [|b0 bs] eqn:Eb; try congruence. rewrite <- Eb. clear Eb b0 bs Ne.
      rewrite concat_app. simpl concat. rewrite app_nil_r.
      destruct buf as [|b buf'].
      * simpl app. rewrite !merge_text_cons_text. auto.
      * rewrite (merge_text_cons_text (concat (b :: buf'))). rewrite (merge_text_cons_text s).
        rewrite (merge_text_cons_text (concat (b :: buf') ++ s)).
        destruct (merge_text r) as [|[[[n'|s'| |]|] k'] r']; auto. rewrite app_assoc. auto.
    + rewrite IH. destruct buf as [|b buf'].
      * simpl. rewrite Lt. auto.
      * cbn [flush_tree app]. rewrite merge_text_cons_text.
        assert (E : merge_text (t :: r) = t :: merge_text r) by (simpl; rewrite Lt; auto). rewrite E.
        destruct t as [[[ | | | ]|] k]; simpl in Lt; try discriminate; auto.
Qed.

Lemma append_text_new : forall g p text, wf g -> noattr g -> is_tree g p = true -> text <> [] ->
  let r := append_text g p text in
  length (fst r) = S (length g) /\ kind_of (fst r) (length g) = Some (KText (concat text)) /\ children (fst r) (length g) = [].
Proof.
  intros g p text W Na T Nt r. subst r. unfold append_text. destruct text as [|t0 text']; try congruence.
  pose proof (is_tree_valid _ _ T) as Vp. destruct (wf_owner _ W _ Vp) as [Ow Od]. rewrite Ow. unfold alloc.
  set (nd := mkNode (KText (concat (t0 :: text'))) [] (Some p) (Some (creator g p)) [] (creator g p)).
  remember (g ++ [nd]) as g1 eqn:Eg1.
  assert (A : allocated g nd g1) by (constructor; auto).
  pose proof (allocated_wf A W) as W1. pose proof (al_up A W) as U1.
  pose proof (allocated_noattr _ _ _ A eq_refl Na) as N1.
  assert (Rp : receiver g1 p = true) by (unfold receiver; rewrite (al_tree_old A) by auto; rewrite T; auto).
  assert (Kt : kind_of g1 (length g) = Some (KText (concat (t0 :: text')))) by (unfold kind_of; rewrite (al_get_new A); auto).
  assert (Fr : free g1 p (length g)).
  { refine (conj _ (conj _ (conj _ (conj _ (conj _ _))))).
    - rewrite (al_len A). lia.
    - right. unfold is_text. rewrite Kt. auto.
    - unfold creator at 1. rewrite (al_get_new A). simpl. rewrite (al_creator_old A); auto.
    - rewrite U1. apply up_invalid. lia.
    - rewrite (al_children_all A). intro I. destruct (wf_children _ W _ _ I). lia.
    - intros F I. rewrite (chain_ext g g1) in I by auto. pose proof (chain_valid g F p Vp _ I). lia. }
  destruct (free_not_frag _ _ _ Fr) as (Xf & Xd & Xv).
  unfold fuel0. rewrite append_attach by auto.
  destruct (attach_attached g1 p (length (children g1 p)) (length g) Rp Xv Xd) as [At O].
  pose proof (attached_wf _ _ _ _ _ W1 Rp Fr At) as W2.
  destruct (attached_up _ _ _ _ _ W1 Rp Fr At) as [U2 _].
  destruct (attach g1 p (length (children g1 p)) (length g)) as [g2 o2]. cbn [fst snd] in *. subst o2.
  pose proof (at_edit _ _ _ _ _ At) as Ed.
  assert (Np : Nat.eqb (length g) p = false) by (apply Nat.eqb_neq; lia).
  split; [|split].
  - rewrite (e_len _ _ Ed), (al_len A). auto.
  - rewrite (e_kind _ _ Ed). auto.
  - rewrite (at_children _ _ _ _ _ At), Np, (al_children_all A). apply children_invalid. lia.
Qed.

Definition full (F : nat) (h : heap) (n : nat) : Prop := forall d, deep h n d -> d < F.

Lemma flush_shapes : forall g p buf F', wf g -> noattr g -> is_tree g p = true -> buf <> [] -> 1 <= F' ->
  map (shape F' (fst (append_text g p buf))) (children (fst (append_text g p buf)) p) =
  map (shape F' g) (children g p) ++ flush_tree buf.
Proof.
  intros g p buf F' W Na T Nb LF.
  destruct (append_text_ok g p buf W Na T Nb) as (_ & W1 & _ & K1 & _ & C1).
  destruct (append_text_new g p buf W Na T Nb) as (L1 & Kt & Ct).
  set (g1 := fst (append_text g p buf)) in *.
  pose proof (is_tree_valid _ _ T) as Vp.
  rewrite (C1 p Vp), Nat.eqb_refl, map_app. f_equal.
  - apply map_ext_In. intros c Ic. apply shape_same. intros m Im.
    destruct (wf_children _ W _ _ Ic) as (Vc & _).
    assert (Vm : m < length g) by (eapply wf_dfs_valid; eauto).
    destruct K1 as [_ K1']. destruct (K1' m Vm) as [Km _]. split; auto.
    rewrite (C1 m Vm). destruct (Nat.eqb_spec m p) as [->|N]; auto.
    exfalso. exact (parent_not_in_subtree g p c F' W T Ic Im).
  - destruct F' as [|F'']; try lia. destruct buf as [|b bs]; try congruence.
    simpl. rewrite Kt, Ct. auto.
Qed.

Lemma attach_shapes : forall g1 p x g2 F', wf g1 -> is_tree g1 p = true -> free g1 p x ->
  attached g1 p (length (children g1 p)) x g2 ->
  children g2 p = children g1 p ++ [x] /\
  (forall c, ~ In p (dfs F' g1 c) -> shape F' g2 c = shape F' g1 c /\ dfs F' g2 c = dfs F' g1 c) /\
  ~ In p (dfs F' g1 x) /\ (forall c, In c (children g1 p) -> ~ In p (dfs F' g1 c)).
Proof.
  intros g1 p x g2 F' W T Fr A. pose proof (at_edit _ _ _ _ _ A) as Ed.
  split; [|split; [|split]].
  - rewrite (at_children _ _ _ _ _ A), Nat.eqb_refl, insert_at_end. auto.
  - intros c Nc. apply shape_same. intros m Im. split. apply (e_kind _ _ Ed).
    rewrite (at_children _ _ _ _ _ A). destruct (Nat.eqb_spec m p) as [->|N]; auto. contradiction.
  - intros J. destruct (free_not_frag _ _ _ Fr) as (Xf & _ & Xv).
    apply (dfs_below g1 W F' x p Xv Xf) in J. destruct Fr as (_ & _ & _ & _ & _ & Fa). exact (Fa _ J).
  - intros c Ic. apply parent_not_in_subtree; auto.
Qed.

Lemma tree_eqb_refl : forall t, tree_eqb t t = true.
Proof.
  induction t as [k kids IH] using tree_ind'. simpl. apply andb_true_iff. split.
  - destruct k as [[n|s| |]|]; simpl; auto. apply Z.eqb_refl. destruct (list_eq_dec Z.eq_dec s s); auto.
  - induction kids as [|x r IHr]; auto. rewrite IH by (simpl; auto). simpl. apply IHr. intros. apply IH. simpl; auto.
Qed.

Definition norm_post2 (f : nat) (h : heap) (p : nat) (h' : heap) (r : outcome) : Prop :=
  norm_post h h' r /\
  ((exists v, r = ROk v) ->
     (forall m, m < length h -> ~ below h p m -> children h' m = children h m) /\
     (forall F, full F h p -> shape F h' p = norm_tree (shape F h p))) /\
  (full f h p -> r <> RFuel).

Definition norm_ih2 (f : nat) : Prop :=
  forall h p, wf h -> noattr h -> is_tree h p = true ->
    norm_post2 f h p (fst (normalize_f f h p)) (snd (normalize_f f h p)).

Section NormRef.
  Context (f : nat) (h : heap) (p : nat) (F' : nat).
  Context (IH : norm_ih2 f) (Wh : wf h) (Tp : is_tree h p = true).

  Definition NT (x : nat) : tree := norm_tree (shape F' h x).
  Definition TOTAL : list tree := merge_acc [] (map NT (children h p)).

  Record xinv (xs : list nat) (buf : list (list Z)) (g : heap) : Prop := mk_xinv {
    xi_cf : forall m, m < length h -> m <> p ->
              (forall y, In y (children h p) -> ~ In y xs -> ~ below h y m) -> children g m = children h m;
    xi_si : full (S F') h p -> map (shape F' g) (children g p) ++ merge_acc buf (map NT xs) = TOTAL;
    xi_buf : buf <> [] -> full (S F') h p -> 1 <= F'
  }.

  Lemma nr_child_facts : forall x, In x (children h p) ->
    x < length h /\ is_frag h x = false /\ up h x = Some p /\ forall d, deep h x d -> deep h p (S d).
  Proof.
    intros x Ix. destruct (wf_children _ Wh _ _ Ix) as (Vx & Fx & _). repeat split; auto.
    apply up_lists; auto. intros. econstructor; eauto.
  Qed.

  (* the subtree of a child that is still waiting has not been touched *)
  Lemma nr_same_sub : forall xs buf g x, xinv xs buf g -> In x xs -> In x (children h p) ->
    forall F m, In m (dfs F h x) -> children g m = children h m.
  Proof.
    intros xs buf g x X Ixs Ix F m Im. destruct (nr_child_facts x Ix) as (Vx & Fx & Ux & _).
    apply (xi_cf _ _ _ X).
    - eapply wf_dfs_valid; eauto.
    - intros ->. exact (parent_not_in_subtree h p x F Wh Tp Ix Im).
    - intros y Iy Ny B. pose proof (dfs_below h Wh F x m Vx Fx Im) as Bx.
      assert (y = x). { eapply (unique_child h Wh); eauto. apply up_lists; auto. }
      subst. auto.
  Qed.

  Lemma nr_NT_text : forall x, In x (children h p) -> is_text h x = true -> 1 <= F' -> text_leaf (NT x) = Some (text_of h x).
  Proof.
    intros x Ix Tx LF. unfold NT. destruct F' as [|F'']; try lia. simpl.
    unfold is_text, text_of in *. destruct (kind_of h x) as [[]|]; try discriminate. auto.
  Qed.

  Lemma nr_NT_nontext : forall x, is_text h x = false -> text_leaf (NT x) = None.
  Proof.
    intros x Tx. unfold NT. destruct F' as [|F'']; auto. simpl.
    unfold is_text in *. destruct (kind_of h x) as [[]|]; try discriminate; auto.
  Qed.

  Lemma nr_full_pos : forall x, In x (children h p) -> full (S F') h p -> 1 <= F'.
  Proof.
    intros x Ix Fu. assert (D : deep h p 1) by (econstructor; eauto; constructor). apply Fu in D. lia.
  Qed.
End NormRef.

Lemma norm_loop2 : forall f h p F', norm_ih2 f -> wf h -> is_tree h p = true ->
  forall xs g buf, ninv h xs g -> incl xs (children h p) -> NoDup xs -> xinv h p F' xs buf g ->
    let r := norm_items (normalize_f f) g p xs buf in
    wf (fst r) /\ noattr (fst r) /\ keeps h (fst r) /\ ((exists v, snd r = ROk v) \/ snd r = RFuel) /\
    ((exists v, snd r = ROk v) -> upframe h (fst r) /\ xinv h p F' [] [] (fst r)) /\
    (full (S f) h p -> snd r <> RFuel).
Proof.
  intros f h p F' IH Wh Tp. pose proof (is_tree_valid _ _ Tp) as Vp.
  induction xs as [|x xs IHxs]; intros g text N Inc ND X; cbn [norm_items].
  - (* the final appendText *)
    destruct N as [Wg Ag Kg Ug].
    assert (Tg : is_tree g p = true) by (rewrite (keeps_tree h g); auto).
    destruct text as [|t0 text'].
    + cbn [append_text fst snd]. refine (conj Wg (conj Ag (conj Kg (conj (or_introl (ex_intro _ None eq_refl)) (conj _ _))))).
      * intros _. split; auto. intros m V. destruct (Ug m V) as [_ B]. apply B. intros [].
      * intros _. discriminate.
    + destruct (append_text_ok g p (t0 :: text') Wg Ag Tg ltac:(discriminate)) as (O & W1 & A1 & K1 & U1 & C1).
      pose proof (flush_shapes g p (t0 :: text') F' Wg Ag Tg ltac:(discriminate)) as FS.
      destruct (append_text g p (t0 :: text')) as [g1 o1]. cbn [fst snd] in *.
      refine (conj W1 (conj A1 (conj (keeps_trans _ _ _ Kg K1) (conj _ (conj _ _))))). left; eauto.
      * intros _. destruct Kg as [Lg _]. split.
        { intros m V. rewrite U1 by lia. destruct (Ug m V) as [_ B]. apply B. intros []. }
        { constructor.
          - intros m V Nm Hy. rewrite (C1 m) by lia. apply Nat.eqb_neq in Nm. rewrite Nm. apply (xi_cf _ _ _ _ _ _ X); auto. apply Nat.eqb_neq; auto.
          - intros Fu. pose proof (xi_si _ _ _ _ _ _ X Fu) as S0. simpl in S0. simpl. rewrite app_nil_r.
            rewrite FS; auto. apply (xi_buf _ _ _ _ _ _ X); auto. discriminate.
          - intros Nb. congruence. }
      * intros _. rewrite O. discriminate.
  - pose proof N as [Wg Ag Kg Ug]. pose proof Kg as [Lg Kg'].
    assert (Ix : In x (children h p)) by (apply Inc; simpl; auto).
    destruct (wf_children _ Wh _ _ Ix) as (Vx & Fx & Dx & Crx).
    destruct (nr_child_facts h p Wh Tp x Ix) as (_ & _ & Uhx & Dpx).
    assert (Tg : is_tree g p = true) by (rewrite (keeps_tree h g); auto).
    inversion ND as [|? ? Nx ND']; subst.
    assert (Inc' : incl xs (children h p)) by (intros y Iy; apply Inc; simpl; auto).
    rewrite (keeps_text h g) by auto.
    destruct (is_text h x) eqn:Tx.
    + (* a text node: remembered, stays out of the tree *)
      assert (Eg : text_of g x = text_of h x) by (unfold text_of; destruct (Kg' x Vx) as [-> _]; auto).
      rewrite Eg.
      apply IHxs; auto.
      * constructor; auto. intros m V. destruct (Ug m V) as [A B]. split.
        { intros Im. apply A. simpl; auto. }
        { intros Nm. destruct (Nat.eq_dec m x) as [->|Ne].
          - right. split; auto. apply A. simpl; auto.
          - apply B. simpl. intros [E'|E']; [congruence|auto]. }
      * constructor.
        { intros m V Nm Hy. apply (xi_cf _ _ _ _ _ _ X); auto. intros y Iy Ny. apply Hy; auto. intro. apply Ny. simpl; auto. }
        { intros Fu. rewrite <- (xi_si _ _ _ _ _ _ X Fu). f_equal. simpl.
          rewrite (nr_NT_text h p F' x Ix Tx (nr_full_pos h p F' x Ix Fu)). auto. }
        { intros _ Fu. apply (nr_full_pos h p F' x Ix Fu). }
    + (* an element: flush the buffer, re-append it, normalize it *)
      assert (S1 : exists g1, fst (append_text g p text) = g1 /\ (exists v, snd (append_text g p text) = ROk v) /\
                   wf g1 /\ noattr g1 /\ keeps g g1 /\ (forall m, m < length g -> up g1 m = up g m) /\
                   (forall m, m < length g -> m <> p -> children g1 m = children g m) /\
                   (1 <= F' \/ text = [] -> map (shape F' g1) (children g1 p) = map (shape F' g) (children g p) ++ flush_tree text)).
      { destruct text as [|t0 text'].
        - exists g. cbn [append_text fst snd].
          refine (conj eq_refl (conj (ex_intro _ None eq_refl) (conj Wg (conj Ag (conj (keeps_refl g) (conj (fun m _ => eq_refl) (conj (fun m _ _ => eq_refl) _))))))).
          intros _. simpl. rewrite app_nil_r. auto.
        - destruct (append_text_ok g p (t0 :: text') Wg Ag Tg ltac:(discriminate)) as (O & W1 & A1 & K1 & U1 & C1).
          pose proof (flush_shapes g p (t0 :: text') F' Wg Ag Tg ltac:(discriminate)) as FS.
          eexists. split; [reflexivity|].
          refine (conj (ex_intro _ _ O) (conj W1 (conj A1 (conj K1 (conj U1 (conj _ _)))))).
          + intros m V Nm. rewrite (C1 m V). apply Nat.eqb_neq in Nm. rewrite Nm. auto.
          + intros [L|E]; [apply FS; auto|discriminate]. }
      destruct S1 as (g1 & E1 & [v1 O1] & W1 & A1 & K1 & U1 & C1 & FS).
      destruct (append_text g p text) as [g1' o1]. cbn [fst snd] in E1, O1. subst g1' o1. cbn [bind].
      pose proof (keeps_trans _ _ _ Kg K1) as Kh1. pose proof K1 as [L1 _].
      assert (T1 : is_tree g1 p = true) by (rewrite (keeps_tree h g1); auto).
      assert (R1 : receiver g1 p = true) by (unfold receiver; rewrite T1; auto).
      assert (Ex : is_elem h x = true).
      { destruct (not_frag_doc_kind h x Vx Fx Dx); auto. congruence. }
      assert (Ux1 : up g1 x = None) by (rewrite U1 by lia; apply (Ug x Vx); simpl; auto).
      assert (N1 : ninv h (x :: xs) g1).
      { constructor; auto. intros m V. rewrite U1 by lia. apply Ug; auto. }
      assert (Fr : free g1 p x).
      { refine (conj _ (conj _ (conj _ (conj Ux1 (conj _ _))))).
        - lia.
        - left. unfold is_elem. destruct Kh1 as [_ Kh1']. destruct (Kh1' x Vx) as [-> _]. auto.
        - destruct Kh1 as [_ Kh1']. destruct (Kh1' x Vx) as [_ ->]. destruct (Kh1' p Vp) as [_ ->]. auto.
        - intro I. rewrite (up_lists g1 p x W1 T1 I) in Ux1. discriminate.
        - intros F I. rewrite (ninv_chain h (x :: xs) g1 N1 F p Vp) in I.
          + exact (child_not_ancestor h p x Wh Tp Ix F I).
          + intros y Iy. split.
            * intro J. exact (child_not_ancestor h p y Wh Tp (Inc y J) F Iy).
            * destruct F; simpl in Iy; try contradiction. destruct Iy as [<-|Iy]. apply tree_not_text; auto.
              destruct (up h p) as [q|] eqn:Uq; try contradiction.
              apply tree_not_text. eapply chain_above_trees; eauto. }
      destruct (free_not_frag _ _ _ Fr) as (Xf & Xd & Xv).
      unfold fuel0. rewrite append_attach by auto.
      destruct (attach_attached g1 p (length (children g1 p)) x R1 Xv Xd) as [At O2].
      pose proof (attached_wf _ _ _ _ _ W1 R1 Fr At) as W2.
      destruct (attached_up _ _ _ _ _ W1 R1 Fr At) as [U2 U2'].
      destruct (attach_shapes g1 p x _ F' W1 T1 Fr At) as (Cp2 & Sh2 & Npx & Npc).
      destruct (attach g1 p (length (children g1 p)) x) as [g2 o2]. cbn [fst snd] in *. subst o2. cbn [bind].
      pose proof (at_edit _ _ _ _ _ At) as Ed2. rewrite T1 in U2'.
      pose proof (keeps_trans _ _ _ Kh1 (edit_keeps _ _ Ed2)) as Kh2.
      assert (A2 : noattr g2) by (intro m; rewrite (e_attrs _ _ Ed2); auto).
      assert (T2 : is_tree g2 p = true) by (rewrite (e_tree Ed2); auto).
      assert (Tx2 : is_tree g2 x = true).
      { rewrite (keeps_tree h g2) by auto. unfold is_tree, is_elem in *. destruct (kind_of h x) as [[]|]; auto; discriminate. }
      assert (C2 : forall m, m <> p -> children g2 m = children g1 m).
      { intros m Nm. rewrite (at_children _ _ _ _ _ At). apply Nat.eqb_neq in Nm. rewrite Nm. auto. }
      assert (N2 : ninv h xs g2).
      { constructor; auto. intros m V. destruct (ni_up _ _ _ N1 m V) as [A B]. split.
        - intros Im. rewrite U2. apply A; simpl; auto. intros ->. auto.
        - intros Nm. destruct (Nat.eq_dec m x) as [->|Ne].
          + left. rewrite U2'. symmetry. apply up_lists; auto.
          + rewrite U2 by auto. apply B. simpl. intros [E'|E']; [congruence|auto]. }
      (* the subtree of x is still what it was in h *)
      assert (SS : forall F m, In m (dfs F h x) -> children g2 m = children h m).
      { intros F m Im. assert (Vm : m < length h) by (eapply wf_dfs_valid; eauto).
        assert (Nm : m <> p) by (intros ->; exact (parent_not_in_subtree h p x F Wh Tp Ix Im)).
        rewrite C2, C1 by (auto; lia). eapply (nr_same_sub h p F' Wh Tp); eauto. simpl; auto. }
      assert (Sx2 : shape F' g2 x = shape F' h x).
      { apply shape_same. intros m Im. split. destruct Kh2 as [_ K]. apply K. eapply wf_dfs_valid; eauto. eapply SS; eauto. }
      assert (Dx2 : forall d, deep g2 x d -> deep h p (S d)).
      { intros d D. apply Dpx. eapply deep_transfer; eauto. }
      assert (Ix2 : In x (children g2 p)) by (rewrite Cp2; apply in_app_iff; simpl; auto).
      assert (Ux2 : up g2 x = Some p) by (apply up_lists; auto).
      (* old nodes outside the subtree of x (in h) are outside it in g2 too *)
      assert (NB : forall m, m < length h -> ~ below h x m -> ~ below g2 x m).
      { intros m V NBh B. apply NBh. unfold below in *.
        apply (chain_complete h m Wh V (length g2)).
        eapply (chain_incl_old h g2); eauto.
        intros y Vy. destruct (ni_up _ _ _ N2 y Vy) as [A B']. destruct (in_dec Nat.eq_dec y xs) as [I|I].
        - right. auto.
        - destruct (B' I) as [E|[_ E]]; auto. }
      destruct (IH g2 x W2 A2 Tx2) as ((W3 & A3 & K3 & O3 & F3) & P23 & P4).
      destruct (normalize_f f g2 x) as [g3 o3]. cbn [fst snd] in *.
      pose proof (keeps_trans _ _ _ Kh2 K3) as Kh3.
      destruct O3 as [[v3 ->]| ->]; cbn [bind].
      * destruct (P23 (ex_intro _ v3 eq_refl)) as [P2 P3].
        assert (N3 : ninv h xs g3).
        { constructor; auto. intros m V. destruct (ni_up _ _ _ N2 m V) as [A B].
          destruct Kh2 as [Lh2 Kh2']. specialize (F3 (ex_intro _ v3 eq_refl) m ltac:(lia)).
          assert (Tm : is_text g2 m = is_text h m) by (unfold is_text; destruct (Kh2' m V) as [-> _]; auto).
          rewrite Tm in F3. split.
          - intros Im. specialize (A Im). destruct F3 as [E|[_ E]]; congruence.
          - intros Nm. specialize (B Nm). destruct F3 as [E|[T E]]; [rewrite E; auto|auto]. }
        assert (Vp2 : p < length g2) by (apply is_tree_valid; auto).
        assert (Cp3 : children g3 p = children g2 p).
        { apply P2; auto. intros B. exact (child_not_ancestor g2 p x W2 T2 Ix2 _ B). }
        assert (X3 : xinv h p F' xs [] g3).
        { constructor.
          - intros m V Nm Hy. destruct Kh2 as [Lh2 _].
            rewrite P2 by (try lia; apply NB; auto; apply Hy; auto).
            rewrite C2, C1 by (auto; lia). apply (xi_cf _ _ _ _ _ _ X); auto.
            intros y Iy Ny. apply Hy; auto. intro. apply Ny. simpl; auto.
          - intros Fu. rewrite <- (xi_si _ _ _ _ _ _ X Fu). simpl map. cbn [merge_acc].
            rewrite (nr_NT_nontext h F' x Tx).
            assert (LF : 1 <= F' \/ text = []).
            { destruct text; auto. left. apply (xi_buf _ _ _ _ _ _ X); auto. discriminate. }
            rewrite Cp3, Cp2, map_app. simpl map.
            assert (Ec : map (shape F' g3) (children g1 p) = map (shape F' g1) (children g1 p)).
            { apply map_ext_In. intros c Ic.
              assert (Ic2 : In c (children g2 p)) by (rewrite Cp2; apply in_app_iff; auto).
              destruct (wf_children _ W2 _ _ Ic2) as (Vc & Fc & _).
              destruct (Sh2 c (Npc c Ic)) as [Sc Dc]. rewrite <- Sc.
              apply shape_same. intros m Im.
              assert (Vm : m < length g2) by (eapply wf_dfs_valid; eauto).
              destruct K3 as [_ K3']. destruct (K3' m Vm) as [Km _]. split; auto.
              apply P2; auto. intros B.
              pose proof (dfs_below g2 W2 F' c m Vc Fc Im) as Bc.
              assert (c = x). { eapply (unique_child g2 W2); eauto. apply up_lists; auto. }
              subst c. destruct Fr as (_ & _ & _ & _ & Nin & _). auto. }
            rewrite Ec, (FS LF).
            assert (Ex3 : shape F' g3 x = NT h F' x).
            { unfold NT. rewrite <- Sx2. apply P3. intros d D. apply Dx2 in D. apply Fu in D. lia. }
            rewrite Ex3. rewrite <- !app_assoc. auto.
          - intros Nb. congruence. }
        exact (IHxs g3 [] N3 Inc' ND' X3).
      * cbn [fst snd]. refine (conj W3 (conj A3 (conj Kh3 (conj (or_intror eq_refl) (conj _ _))))).
        { intros [v Hv]. discriminate. }
        { intros Fu _. apply P4; auto. intros d D. apply Dx2 in D. apply Fu in D. lia. }
Qed.

Lemma norm_ok2 : forall f, norm_ih2 f.
Proof.
  induction f as [|f IH]; intros h p W Na T.
  - pose proof (norm_ok 0 h p W Na T) as P1. simpl in *. split; auto. split.
    + intros [v Hv]. discriminate.
    + intros Fu. specialize (Fu 0 (deep_0 h p)). lia.
  - pose proof (norm_ok (S f) h p W Na T) as P1. split; auto. clear P1.
    rewrite normalize_f_S. rewrite (tree_not_text _ _ T). rewrite (Na p). cbn [map for_each bind]. cbv zeta.
    pose proof (is_tree_valid _ _ T) as Vp.
    destruct (clear_children_ok h p W T) as (W1 & E1 & C1 & U1).
    assert (Co : forall m, m <> p -> children (set_children h p []) m = children h m).
    { intros m Nm. rewrite children_set_children. apply Nat.eqb_neq in Nm. rewrite Nm. auto. }
    assert (N1 : ninv h (children h p) (set_children h p [])).
    { constructor; auto.
      - intro m. rewrite (e_attrs _ _ E1). auto.
      - apply edit_keeps; auto.
      - intros m V. rewrite U1. split.
        + intros I. rewrite (up_lists h p m W T I). simpl. rewrite Nat.eqb_refl. auto.
        + intros NI. left. destruct (opt_eqb (up h m) (Some p)) eqn:Q; auto.
          apply opt_eqb_eq in Q. apply up_Some in Q. tauto. }
    assert (X0 : forall F', xinv h p F' (children h p) [] (set_children h p [])).
    { intros F'. constructor.
      - intros m V Nm _. apply Co; auto.
      - intros _. rewrite C1. reflexivity.
      - intros Nb. congruence. }
    assert (LP : forall F', _) by (intros F'; exact (norm_loop2 f h p F' IH W T (children h p) (set_children h p []) [] N1 (incl_refl _) (wf_nodup _ W _ T) (X0 F'))).
    cbv zeta in LP.
    destruct (norm_items (normalize_f f) (set_children h p []) p (children h p) []) as [h2 o2]. cbn [fst snd] in *.
    split.
    + intros [v Hv]. destruct (LP 0) as (_ & _ & K2 & O2 & _).
      assert (Ok : exists v2, o2 = ROk v2).
      { destruct O2 as [Ok| ->]; auto. cbn [bind snd] in Hv. discriminate. }
      destruct Ok as [v2 ->]. cbn [bind fst snd] in *. split.
      * intros m V NB. destruct (LP 0) as (_ & _ & _ & _ & R5 & _). destruct (R5 (ex_intro _ v2 eq_refl)) as [_ X].
        apply (xi_cf _ _ _ _ _ _ X); auto.
        { intros ->. apply NB. unfold below. destruct (length h); [lia|simpl; auto]. }
        { intros y Iy _ B. apply NB. unfold below in *. eapply chain_next; eauto. apply cmp_rooted; auto. apply up_lists; auto. }
      * intros F Fu. destruct F as [|F']. { specialize (Fu 0 (deep_0 h p)). lia. }
        destruct (LP F') as (_ & _ & _ & _ & R5 & _). destruct (R5 (ex_intro _ v2 eq_refl)) as [_ X].
        pose proof (xi_si _ _ _ _ _ _ X Fu) as S. simpl in S. rewrite app_nil_r in S.
        simpl. destruct K2 as [_ K2']. destruct (K2' p Vp) as [-> _]. f_equal. rewrite S.
        unfold TOTAL. rewrite merge_acc_spec. unfold NT. rewrite map_map. auto.
    + intros Fu. destruct (LP 0) as (_ & _ & _ & O2 & _ & R6). specialize (R6 Fu).
      destruct O2 as [[v2 ->]| ->]; cbn [bind snd]; try discriminate. congruence.
Qed.

Lemma normalize_ret : forall f h p v, snd (normalize_f f h p) = ROk v -> v = None.
Proof.
  intros [|f] h p v; simpl; try discriminate.
  destruct (is_text h p). simpl. congruence.
  match goal with |- snd (bind ?A _) = _ -> _ => destruct A as [h0 [r0| | | |]] end; cbn [bind snd]; try discriminate.
  match goal with |- snd (bind ?A _) = _ -> _ => destruct A as [h1 [r1| | | |]] end; cbn [bind snd]; try discriminate.
  congruence.
Qed.

(* M5: Node.normalize on the heap = norm_tree on the tree *)
Theorem normalize_refines : forall h p, wf_b h = true -> adm_op h (ONormalize p) = true ->
  let h' := fst (step h (ONormalize p)) in
  snd (step h (ONormalize p)) = ROk None /\
  (forall F, (forall d, deep h p d -> d < F) -> shape F h' p = norm_tree (shape F h p)) /\
  (forall m, m < length h -> ~ In p (chain (length h) h m) -> children h' m = children h m) /\
  normalize_conforms h h' p = true.
Proof.
  intros h p W A. apply wf_b_iff in W. cbn [adm_op step] in *. apply andb_true_iff in A. destruct A as [T N].
  assert (R : receiver h p = true) by (unfold receiver; rewrite T; auto). rewrite R.
  apply no_attrs_noattr in N. pose proof (is_tree_valid _ _ T) as Vp.
  destruct (norm_ok2 (S (length h)) h p W N T) as ((_ & _ & _ & O & _) & P23 & P4).
  assert (Fu : full (S (length h)) h p) by (intros d D; pose proof (deep_bound _ _ _ W Vp D); lia).
  specialize (P4 Fu).
  assert (Ok : snd (normalize_f (S (length h)) h p) = ROk None).
  { destruct O as [[v Hv]|Hf]; try congruence. rewrite Hv. f_equal. eapply normalize_ret; eauto. }
  destruct (P23 (ex_intro _ None Ok)) as [P2 P3].
  split; auto. split; [|split]; auto.
  unfold normalize_conforms. rewrite (P3 _ Fu). apply tree_eqb_refl.
Qed.

Theorem normalize_fuel : forall h p, wf_b h = true -> adm_op h (ONormalize p) = true ->
  snd (step h (ONormalize p)) <> RFuel.
Proof. intros h p W A. destruct (normalize_refines h p W A) as [O _]. rewrite O. discriminate. Qed.

Theorem history_normalize_refines : forall (ops : list op) (p : nat),
  forallb covered ops = true -> adm_hist [] (ops ++ [ONormalize p]) = true ->
  let h := run [] ops in let h' := fst (step h (ONormalize p)) in
  snd (step h (ONormalize p)) = ROk None /\
  (forall F, (forall d, deep h p d -> d < F) -> shape F h' p = norm_tree (shape F h p)) /\
  (forall m, m < length h -> ~ In p (chain (length h) h m) -> children h' m = children h m).
Proof.
  intros ops p C A. rewrite adm_hist_app in A. apply andb_true_iff in A. destruct A as [A1 A2].
  simpl in A2. rewrite andb_true_r in A2.
  destruct (normalize_refines (run [] ops) p (history_wf ops C A1) A2) as (X1 & X2 & X3 & _). auto.
Qed.
