(* C08 -- the format-string scanner of Model/FormatParse.v: parsing what print_fmt writes gives the format back. *)
From Coq Require Import List ZArith Bool Lia.
Import ListNotations.
From Verif Require Import CounterSyntax FormatParse.
Local Open Scope Z_scope.

Ltac bdestr :=
  repeat match goal with
  | H : context [?a <=? ?b] |- _ => destruct (Z.leb_spec a b)
  | H : context [?a =? ?b] |- _ => destruct (Z.eqb_spec a b)
  | |- context [?a <=? ?b] => destruct (Z.leb_spec a b)
  | |- context [?a =? ?b] => destruct (Z.eqb_spec a b)
  end; cbn in *; try lia; try discriminate; try reflexivity.

Lemma word_not_space : forall c, is_word c = true -> is_space c = false.
Proof. intros c H. unfold is_word, is_space in *. bdestr. Qed.

Lemma word_not_special : forall c, is_word c = true -> c <> 36 /\ c <> 123 /\ c <> 125 /\ c <> 46.
Proof. intros c H. unfold is_word in H. repeat split; intro; subst; discriminate. Qed.

Definition word_name (n : name) : Prop := n <> [] /\ forallb is_word n = true.

Lemma take_word_app : forall w r, forallb is_word w = true -> starts_word r = false -> take_word (w ++ r) = (w, r).
Proof.
  induction w as [|c w IH]; intros r Hw Hr; cbn [app].
  - destruct r as [|d r]; [reflexivity|]. cbn in Hr. cbn [take_word]. rewrite Hr. reflexivity.
  - cbn [forallb] in Hw. apply andb_true_iff in Hw. destruct Hw as [Hc Hw]. cbn [take_word]. rewrite Hc, (IH r Hw Hr). reflexivity.
Qed.

Lemma skip_space_head : forall c r, is_space c = false -> skip_space (c :: r) = c :: r.
Proof. intros c r H. cbn. rewrite H. reflexivity. Qed.

Lemma skip_space_word : forall w r, word_name w -> skip_space (w ++ r) = w ++ r.
Proof.
  intros [|c w] r [Hne Hw]; [congruence|]. cbn [forallb] in Hw. apply andb_true_iff in Hw. destruct Hw as [Hc _].
  cbn [app]. apply skip_space_head. apply word_not_space. exact Hc.
Qed.

Lemma match_ref_plain : forall w rest, word_name w -> match_ref (w ++ 125 :: rest) = Some (w, None, rest).
Proof.
  intros w rest Hw. unfold match_ref. rewrite (skip_space_word w _ Hw).
  rewrite (take_word_app w (125 :: rest)) by (apply Hw || reflexivity).
  destruct w as [|c w]; [destruct Hw; congruence|]. reflexivity.
Qed.

Lemma match_ref_attr : forall w a rest, word_name w -> word_name a ->
  match_ref (w ++ 46 :: a ++ 125 :: rest) = Some (w, Some a, rest).
Proof.
  intros w a rest Hw Ha. unfold match_ref. rewrite (skip_space_word w _ Hw).
  rewrite (take_word_app w (46 :: a ++ 125 :: rest)) by (apply Hw || reflexivity).
  destruct w as [|c w]; [destruct Hw; congruence|].
  rewrite (take_word_app a (125 :: rest)) by (apply Ha || reflexivity).
  destruct a as [|d a]; [destruct Ha; congruence|]. reflexivity.
Qed.

Lemma scan_skip : forall a lit b, scan (length a) lit (a ++ b) = scan O lit b.
Proof. induction a as [|c a IH]; intros lit b; [reflexivity|]. cbn [length app scan]. apply IH. Qed.

(* a reference written as ${body}: the scanner emits it and goes on after the brace *)
Lemma scan_ref : forall lit body rest nm attr,
  match_ref (body ++ rest) = Some (nm, attr, rest) ->
  scan O lit (36 :: 123 :: body ++ rest) =
  flush lit (PRef nm (match attr with Some a => Some (repr_of_attr a) | None => None end) :: scan O [] rest).
Proof.
  intros lit body rest nm attr H. cbn [scan]. change (36 =? 36) with true. cbv iota. rewrite H.
  f_equal. f_equal. rewrite app_length. replace (length body + length rest - length rest)%nat with (length body) by lia.
  cbn [scan]. apply scan_skip.
Qed.

Lemma scan_lit : forall l lit s, ~ In 36 l -> scan O lit (l ++ s) = scan O (rev l ++ lit) s.
Proof.
  induction l as [|c l IH]; intros lit s H; [reflexivity|]. cbn [app scan].
  assert (Hc : c =? 36 = false) by (apply Z.eqb_neq; intro; subst; apply H; left; reflexivity). rewrite Hc.
  rewrite IH by (intro; apply H; right; assumption). cbn [rev]. rewrite <- app_assoc. reflexivity.
Qed.

(* no "$" directly followed by a word character: pass 1 changes nothing *)
Fixpoint dsafe (s : str) : bool :=
  match s with
  | [] => true
  | c :: r => negb ((c =? 36) && starts_word r) && dsafe r
  end.

Lemma pass1_safe : forall s, dsafe s = true -> pass1 false s = s.
Proof.
  induction s as [|c r IH]; intro H; [reflexivity|]. cbn [dsafe] in H. apply andb_true_iff in H. destruct H as [H1 H2].
  apply negb_true_iff in H1. cbn [pass1 andb app]. rewrite H1. rewrite IH by exact H2. reflexivity.
Qed.

Lemma dsafe_nodollar : forall l s, ~ In 36 l -> dsafe (l ++ s) = dsafe s.
Proof.
  induction l as [|c l IH]; intros s H; [reflexivity|]. cbn [app dsafe].
  assert (Hc : c =? 36 = false) by (apply Z.eqb_neq; intro; subst; apply H; left; reflexivity). rewrite Hc. cbn [andb negb].
  apply IH. intro; apply H; right; assumption.
Qed.

Lemma word_no_dollar : forall w, forallb is_word w = true -> ~ In 36 w.
Proof.
  intros w Hw Hin. rewrite forallb_forall in Hw. specialize (Hw 36 Hin). discriminate.
Qed.

Lemma attr_name_word : forall r, r <> RUnknown -> word_name (attr_name r).
Proof. intros [] H; try congruence; split; try discriminate; reflexivity. Qed.

Lemma repr_attr_name : forall r, r <> RUnknown -> repr_of_attr (attr_name r) = r.
Proof. intros [] H; try congruence; reflexivity. Qed.

Definition wf_piece (p : piece) : Prop :=
  match p with
  | PLit s => s <> [] /\ ~ In 36 s
  | PRef nm r => word_name nm /\ r <> Some RUnknown
  end.

Fixpoint wf_fmt (f : fmt) : Prop :=
  match f with
  | [] => True
  | p :: f' => wf_piece p /\ (match p, f' with PLit _, PLit _ :: _ => False | _, _ => True end) /\ wf_fmt f'
  end.

(* the text of a reference, split as "${" ++ body *)
Definition ref_body (nm : name) (r : option repr) : str :=
  match r with None => nm ++ [125] | Some r' => nm ++ 46 :: attr_name r' ++ [125] end.

Lemma print_ref : forall nm r s, print_piece (PRef nm r) ++ s = 36 :: 123 :: ref_body nm r ++ s.
Proof.
  intros nm [r'|] s; cbn [print_piece ref_body app]; repeat (rewrite <- app_assoc; cbn [app]); reflexivity.
Qed.

Lemma match_ref_body : forall nm r s, word_name nm -> r <> Some RUnknown ->
  match_ref (ref_body nm r ++ s) = Some (nm, match r with Some r' => Some (attr_name r') | None => None end, s).
Proof.
  intros nm [r'|] s Hn Hr; cbn [ref_body]; rewrite <- app_assoc; cbn [app].
  - rewrite <- app_assoc. cbn [app]. apply match_ref_attr; [exact Hn | apply attr_name_word; congruence].
  - apply match_ref_plain. exact Hn.
Qed.

Lemma scan_print_ref : forall lit nm r s, word_name nm -> r <> Some RUnknown ->
  scan O lit (print_piece (PRef nm r) ++ s) = flush lit (PRef nm r :: scan O [] s).
Proof.
  intros lit nm r s Hn Hr. rewrite print_ref.
  rewrite (scan_ref lit (ref_body nm r) s nm _ (match_ref_body nm r s Hn Hr)).
  destruct r as [r'|]; [|reflexivity]. rewrite repr_attr_name by congruence. reflexivity.
Qed.

Lemma dsafe_print : forall f, wf_fmt f -> dsafe (print_fmt f) = true.
Proof.
  induction f as [|p f IH]; intro H; [reflexivity|]. cbn [wf_fmt] in H. destruct H as (Hp & _ & Hf). cbn [print_fmt].
  destruct p as [l|nm r].
  - cbn [print_piece]. destruct Hp as [_ Hl]. rewrite dsafe_nodollar by exact Hl. apply IH. exact Hf.
  - destruct Hp as [[Hne Hw] Hr]. rewrite print_ref. cbn [dsafe starts_word]. change (is_word 123) with false. cbn [andb negb].
    change (123 =? 36) with false. cbn [andb negb].
    assert (Hb : ~ In 36 (ref_body nm r)).
    { pose proof (word_no_dollar nm Hw) as Hn. destruct r as [r'|]; cbn [ref_body]; intro Hin; apply in_app_iff in Hin.
      - destruct Hin as [Hin|[Hin|Hin]]; [contradiction | discriminate|]. apply in_app_iff in Hin.
        destruct Hin as [Hin|[Hin|[]]]; [|discriminate].
        assert (r' <> RUnknown) by congruence. destruct (attr_name_word r' H) as [_ Ha]. exact (word_no_dollar _ Ha Hin).
      - destruct Hin as [Hin|[Hin|[]]]; [contradiction | discriminate]. }
    rewrite dsafe_nodollar by exact Hb. apply IH. exact Hf.
Qed.

Lemma flush_rev : forall l t, l <> [] -> flush (rev l) t = PLit l :: t.
Proof.
  intros l t H. unfold flush. destruct (rev l) as [|z l0] eqn:E.
  - apply (f_equal (@rev Z)) in E. rewrite rev_involutive in E. cbn in E. congruence.
  - rewrite <- E, rev_involutive. reflexivity.
Qed.

Lemma scan_print : forall f, wf_fmt f ->
  scan O [] (print_fmt f) = f /\
  (forall l, l <> [] -> (match f with PLit _ :: _ => False | _ => True end) -> scan O (rev l) (print_fmt f) = PLit l :: f).
Proof.
  induction f as [|p f IH]; intro H.
  - split; [reflexivity|]. intros l Hl _. cbn [print_fmt scan]. apply flush_rev. exact Hl.
  - cbn [wf_fmt] in H. destruct H as (Hp & Hadj & Hf). destruct (IH Hf) as [IH1 IH2]. cbn [print_fmt].
    destruct p as [l|nm r].
    + destruct Hp as [Hne Hnd]. split; [|intros l' _ []]. cbn [print_piece]. rewrite scan_lit by exact Hnd. rewrite app_nil_r.
      rewrite IH2; [reflexivity | exact Hne | destruct f as [|[] f']; try exact I; exact Hadj].
    + destruct Hp as [Hn Hr]. split.
      * rewrite scan_print_ref by assumption. cbn [flush]. rewrite IH1. reflexivity.
      * intros l Hl _. rewrite scan_print_ref by assumption. rewrite IH1. apply flush_rev. exact Hl.
Qed.

(* parsing what print_fmt writes gives the format back: every well-formed format (any length) *)
Theorem parse_print_roundtrip : forall f, wf_fmt f -> parse_format (print_fmt f) = f.
Proof.
  intros f H. unfold parse_format. rewrite pass1_safe by (apply dsafe_print; exact H). apply (scan_print f H).
Qed.

(* the short form $name is ${name} *)
Lemma pass1_word : forall w r, forallb is_word w = true -> starts_word r = false ->
  pass1 true (w ++ r) = w ++ 125 :: pass1 false r.
Proof.
  induction w as [|c w IH]; intros r Hw Hr; cbn [app].
  - destruct r as [|d r]; [reflexivity|]. cbn in Hr. cbn [pass1]. rewrite Hr. reflexivity.
  - cbn [forallb] in Hw. apply andb_true_iff in Hw. destruct Hw as [Hc Hw]. cbn [pass1]. rewrite Hc. cbn [andb].
    rewrite IH by assumption. reflexivity.
Qed.

Theorem dollar_short_form : forall w r, word_name w -> starts_word r = false ->
  parse_format (36 :: w ++ r) = parse_format (36 :: 123 :: w ++ 125 :: r).
Proof.
  intros w r [Hne Hw] Hr. unfold parse_format. f_equal.
  destruct w as [|c w]; [congruence|]. cbn [app]. cbn [forallb] in Hw. apply andb_true_iff in Hw. destruct Hw as [Hc Hw].
  cbn [pass1 andb app starts_word]. change (36 =? 36) with true. rewrite Hc. cbn [andb].
  change (is_word 123) with false. cbn [andb]. change (123 =? 36) with false. cbn [andb].
  assert (Hc36 : c =? 36 = false) by (destruct (word_not_special c Hc) as (H & _); apply Z.eqb_neq; exact H). rewrite Hc36. cbn [andb].
  (* left: in the word; right: literal copy of the word *)
  rewrite (pass1_word w r) by assumption.
  assert (G : forall v, forallb is_word v = true -> pass1 false (v ++ 125 :: r) = v ++ 125 :: pass1 false r).
  { induction v as [|d v IHv]; intro Hv; cbn [app].
    - cbn [pass1 andb app]. change (125 =? 36) with false. reflexivity.
    - cbn [forallb] in Hv. apply andb_true_iff in Hv. destruct Hv as [Hd Hv]. cbn [pass1 andb app].
      assert (X : d =? 36 = false) by (destruct (word_not_special d Hd) as (H & _); apply Z.eqb_neq; exact H). rewrite X. cbn [andb].
      rewrite IHv by exact Hv. reflexivity. }
  rewrite (G w Hw). reflexivity.
Qed.

(* the formats built by Context.newcounter and \newtheorem *)
Theorem default_format_parse : forall nm, word_name nm -> parse_format (default_format_string nm) = [PRef nm None].
Proof.
  intros nm H. change (default_format_string nm) with (print_fmt [PRef nm None] ++ []) || idtac.
  replace (default_format_string nm) with (print_fmt [PRef nm None]) by (cbn; rewrite app_nil_r; reflexivity).
  apply parse_print_roundtrip. cbn. repeat split; try exact H; try discriminate; try apply H.
Qed.

Theorem theorem_format_parse : forall w nm, word_name w -> word_name nm ->
  parse_format (theorem_format_string w nm) = [PRef ([116; 104; 101] ++ w) None; PLit [46]; PRef nm None].
Proof.
  intros w nm Hw Hn.
  replace (theorem_format_string w nm) with (print_fmt [PRef ([116; 104; 101] ++ w) None; PLit [46]; PRef nm None]).
  - apply parse_print_roundtrip. cbn [wf_fmt wf_piece]. repeat split; try discriminate; try apply Hn; try exact I.
    + cbn [app forallb]. apply Hw.
    + intros [H|[]]. discriminate.
  - unfold theorem_format_string. cbn [print_fmt print_piece app]. rewrite app_nil_r. repeat (rewrite <- app_assoc; cbn [app]). reflexivity.
Qed.

Lemma repr_eqb_eq : forall a b, repr_eqb a b = true -> a = b.
Proof. intros [] []; cbn; intro H; try discriminate; reflexivity. Qed.

Lemma str_eqb_true : forall a b : str, str_eqb a b = true -> a = b.
Proof.
  induction a as [|x a IH]; destruct b as [|y b]; cbn; intro H; try discriminate; [reflexivity|].
  apply andb_true_iff in H. destruct H as [H1 H2]. apply Z.eqb_eq in H1. apply IH in H2. congruence.
Qed.

Lemma piece_eqb_eq : forall p q, piece_eqb p q = true -> p = q.
Proof.
  intros [a|n [ra|]] [b|m [rb|]]; cbn; intro H; try discriminate.
  - apply str_eqb_true in H. congruence.
  - apply andb_true_iff in H. destruct H as [H1 H2]. apply str_eqb_true in H1. apply repr_eqb_eq in H2. congruence.
  - apply str_eqb_true in H. congruence.
Qed.

Lemma fmt_eqb_eq : forall f g, fmt_eqb f g = true -> f = g.
Proof.
  induction f as [|p f IH]; destruct g as [|q g]; cbn; intro H; try discriminate; [reflexivity|].
  apply andb_true_iff in H. destruct H as [H1 H2]. apply piece_eqb_eq in H1. apply IH in H2. congruence.
Qed.
