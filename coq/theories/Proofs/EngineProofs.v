(* Proofs about Model/Engine.v:
   - the if-scanner of the engine is Model/IfScan.v's scanner seen through [classify] (tie to the C03 theorems);
   - fuel monotonicity of the expansion loop, and a fuel-free step relation [exec];
   - the engine, started on the printing of a program of fragment F1 (Spec/MacroPrint.v), simulates the reference
     evaluator of Spec/MacroLang.v:  run (print p) = den p  on the visible text and the final global definitions. *)
From Coq Require Import List NArith ZArith Bool Lia ZifyBool.
Import ListNotations.
From Verif Require Import Val Tokenizer Expand IfScan MacroSpec ExpandProofs MacroLang Engine MacroPrint.
Local Open Scope N_scope.

(* ---------------------------------------------------------------------------------------------- *)
(* strings and names                                                                                *)

Lemma seqb_eq a : forall b, seqb a b = true <-> a = b.
Proof.
  induction a as [|x a IH]; intros [|y b]; cbn; split; intros H; try congruence; try discriminate.
  - apply andb_true_iff in H as [H1 H2]. apply N.eqb_eq in H1. apply IH in H2. congruence.
  - inversion H; subst. apply andb_true_iff. split; [apply N.eqb_refl | now apply IH].
Qed.
Lemma seqb_refl a : seqb a a = true. Proof. now apply seqb_eq. Qed.
Lemma seqb_neq a b : a <> b -> seqb a b = false.
Proof. intros H. destruct (seqb a b) eqn:E; [apply seqb_eq in E; contradiction | reflexivity]. Qed.

Lemma pcode_inj p : forall q, pcode p = pcode q -> p = q.
Proof. induction p as [p IH|p IH|]; intros [q|q|] H; cbn in H; try discriminate; try reflexivity; f_equal; apply IH; congruence. Qed.
Lemma zcode_inj a b : zcode a = zcode b -> a = b.
Proof. destruct a, b; cbn; intros H; try discriminate; try reflexivity; f_equal; apply pcode_inj; congruence. Qed.
Lemma mname_inj a b : mname a = mname b -> a = b.
Proof. unfold mname. intros H. apply zcode_inj. congruence. Qed.
Lemma seqb_mname a b : seqb (mname a) (mname b) = (a =? b)%Z.
Proof.
  destruct (Z.eqb_spec a b) as [->|Hn]; [apply seqb_refl|].
  apply seqb_neq. intros H. apply Hn. now apply mname_inj.
Qed.

(* ---------------------------------------------------------------------------------------------- *)
(* fuel monotonicity                                                                                *)

Definition nx_le (nx nx' : state -> outcome (option tok * state)) : Prop :=
  forall st r, nx st = Ret r -> nx' st = Ret r.

Lemma bind_ret {A B} (x : outcome A) (f : A -> outcome B) r :
  bind x f = Ret r -> exists a, x = Ret a /\ f a = Ret r.
Proof. destruct x; cbn; intros H; try discriminate. eauto. Qed.

Section Mono.
  Context (nx nx' : state -> outcome (option tok * state)) (Hle : nx_le nx nx').

  Lemma read_signs_mono g : forall g' neg st r, (g <= g')%nat ->
    read_signs nx g neg st = Ret r -> read_signs nx' g' neg st = Ret r.
  Proof.
    induction g as [|g IH]; intros g' neg st r Hg H; [discriminate|].
    destruct g' as [|g']; [lia|]. cbn [read_signs] in *.
    apply bind_ret in H as ([o st1] & H1 & H2). rewrite (Hle _ _ H1). cbn [bind].
    destruct o as [t|]; [|exact H2].
    destruct (is_elem t); [exact H2|]. destruct (text1 t) as [c|]; [|exact H2].
    destruct (c =? 43); [apply IH; [lia|exact H2]|].
    destruct (c =? 45); [apply IH; [lia|exact H2]|].
    destruct (is_space t); [apply IH; [lia|exact H2]|exact H2].
  Qed.

  Lemma read_sequence_mono g : forall g' acc st r, (g <= g')%nat ->
    read_sequence nx g acc st = Ret r -> read_sequence nx' g' acc st = Ret r.
  Proof.
    induction g as [|g IH]; intros g' acc st r Hg H; [discriminate|].
    destruct g' as [|g']; [lia|]. cbn [read_sequence] in *.
    apply bind_ret in H as ([o st1] & H1 & H2). rewrite (Hle _ _ H1). cbn [bind].
    destruct o as [t|]; [|exact H2].
    destruct (is_elem t); [exact H2|]. destruct (text1 t) as [c|]; [|exact H2].
    destruct ((48 <=? c) && (c <=? 57)); [apply IH; [lia|exact H2]|exact H2].
  Qed.

  Lemma read_integer_mono g g' st r : (g <= g')%nat ->
    read_integer nx g st = Ret r -> read_integer nx' g' st = Ret r.
  Proof.
    intros Hg H. unfold read_integer in *.
    apply bind_ret in H as ([neg st1] & H1 & H2). rewrite (read_signs_mono _ _ _ _ _ Hg H1). cbn [bind].
    apply bind_ret in H2 as ([o st2] & H3 & H4). rewrite (Hle _ _ H3). cbn [bind].
    destruct o as [t|]; [|exact H4].
    destruct (is_elem t); [exact H4|]. destruct (text1 t) as [c|]; [|exact H4].
    destruct ((48 <=? c) && (c <=? 57)); [|exact H4].
    apply bind_ret in H4 as ([cs st3] & H5 & H6). rewrite (read_sequence_mono _ _ _ _ _ Hg H5). cbn [bind].
    apply bind_ret in H6 as ([o2 st4] & H7 & H8). rewrite (Hle _ _ H7). cbn [bind]. exact H8.
  Qed.

  Lemma invoke_mono g g' nm m st r : (g <= g')%nat ->
    invoke nx g nm m st = Ret r -> invoke nx' g' nm m st = Ret r.
  Proof.
    intros Hg H. destruct m as [a b|p|]; try exact H. destruct p; try exact H.
    cbn [invoke] in *.
    apply bind_ret in H as ([a st1] & H1 & H2). rewrite (read_integer_mono _ _ _ _ Hg H1). cbn [bind].
    destruct (input (ros st1)) as [|rel rr]; [exact H2|].
    destruct (is_elem rel); [exact H2|].
    apply bind_ret in H2 as ([b st3] & H3 & H4). rewrite (read_integer_mono _ _ _ _ Hg H3). cbn [bind]. exact H4.
  Qed.

  Lemma iter_step_mono g g' st r : (g <= g')%nat ->
    iter_step nx g st = Ret r -> iter_step nx' g' st = Ret r.
  Proof.
    intros Hg H. unfold iter_step in *. destruct (input st) as [|t rr]; [exact H|].
    destruct (is_elem t); [exact H|]. destruct (macro_name t) as [nm|]; [|exact H].
    destruct (getitem nm (set_input st rr)) as [st2 m].
    apply bind_ret in H as (st3 & H1 & H2). rewrite (invoke_mono _ _ _ _ _ _ Hg H1). exact H2.
  Qed.
End Mono.

Lemma next_exp_mono g : forall g', (g <= g')%nat -> nx_le (next_exp g) (next_exp g').
Proof.
  induction g as [|g IH]; intros g' Hg st r H; [discriminate|].
  destruct g' as [|g']; [lia|]. cbn [next_exp] in *.
  apply bind_ret in H as (sr & H1 & H2).
  rewrite (iter_step_mono _ _ (IH g' ltac:(lia)) g g' st sr ltac:(lia) H1). cbn [bind].
  destruct sr as [t st'|st'|]; try exact H2. apply (IH g'); [lia|exact H2].
Qed.

Lemma step_mono g g' st r : (g <= g')%nat ->
  iter_step (next_exp g) g st = Ret r -> iter_step (next_exp g') g' st = Ret r.
Proof. intros Hg. apply iter_step_mono; [now apply next_exp_mono | exact Hg]. Qed.

(* ---------------------------------------------------------------------------------------------- *)
(* a fuel-free view of the loop: [exec st T st'] = some iterations of the loop lead from st to st', yielding T *)

Inductive exec : state -> list tok -> state -> Prop :=
| ex_refl st : exec st [] st
| ex_yield g st t st1 T st2 :
    iter_step (next_exp g) g st = Ret (SYield t st1) -> exec st1 T st2 -> exec st (t :: T) st2
| ex_cont g st st1 T st2 :
    iter_step (next_exp g) g st = Ret (SCont st1) -> exec st1 T st2 -> exec st T st2.

Lemma exec_trans a T1 b : exec a T1 b -> forall T2 c, exec b T2 c -> exec a (T1 ++ T2) c.
Proof.
  induction 1 as [st|g st t st1 T st2 H _ IH|g st st1 T st2 H _ IH]; intros T2 c H2.
  - exact H2.
  - cbn [app]. eapply ex_yield; [exact H|]. now apply IH.
  - eapply ex_cont; [exact H|]. now apply IH.
Qed.

Lemma run_mono_done fuel : forall fuel' st acc st' out, (fuel <= fuel')%nat ->
  run fuel st acc = Done st' out -> run fuel' st acc = Done st' out.
Proof.
  induction fuel as [|f IH]; intros fuel' st acc st' out Hf H; [discriminate|].
  destruct fuel' as [|f']; [lia|]. cbn [run] in *.
  destruct (iter_step (next_exp f) f st) as [sr| | |] eqn:E; try discriminate.
  rewrite (step_mono f f' st sr ltac:(lia) E).
  destruct sr as [t st1|st1|]; try exact H; apply IH; (lia || exact H).
Qed.

Lemma exec_run st T st' : exec st T st' -> input st' = [] ->
  exists fuel, forall acc, run fuel st acc = Done st' (rev acc ++ T).
Proof.
  induction 1 as [st|g st t st1 T st2 H _ IH|g st st1 T st2 H _ IH]; intros Hend.
  - exists 1%nat. intros acc. cbn [run]. unfold iter_step. rewrite Hend. now rewrite app_nil_r.
  - destruct (IH Hend) as (f & Hf). exists (S (Nat.max g f)). intros acc. cbn [run].
    rewrite (step_mono g (Nat.max g f) st _ ltac:(lia) H).
    rewrite (run_mono_done f (Nat.max g f) st1 (t :: acc) st2 (rev (t :: acc) ++ T) ltac:(lia) (Hf _)).
    cbn [rev]. now rewrite <- app_assoc.
  - destruct (IH Hend) as (f & Hf). exists (S (Nat.max g f)). intros acc. cbn [run].
    rewrite (step_mono g (Nat.max g f) st _ ltac:(lia) H).
    apply (run_mono_done f); [lia|apply Hf].
Qed.

(* ---------------------------------------------------------------------------------------------- *)
(* the engine's if-scanner is IfScan.scan_go seen through [classify]                                *)

Definition abs_scanned (sc : tscanned) : scanned :=
  {| cases := map (map classify) (tcases sc); elsecase := telse sc; rest := map classify (trest sc); terminated := tterm sc |}.

Lemma abs_final cur done els (r : list tok) b :
  Some {| cases := rev (rev (map classify cur) :: map (map classify) done); elsecase := els; rest := map classify r; terminated := b |}
  = option_map abs_scanned (Some {| tcases := rev (rev cur :: done); telse := els; trest := r; tterm := b |}).
Proof. cbn. unfold abs_scanned. cbn. rewrite map_app, !map_rev. cbn. now rewrite map_rev. Qed.

Lemma tscan_go_abstracts_len k : forall ts, (length ts <= k)%nat -> forall n cur done els,
  scan_go (map classify ts) n (map classify cur) (map (map classify) done) els
  = option_map abs_scanned (tscan_go ts n cur done els).
Proof.
  induction k as [|k IH]; intros ts Hk n cur done els.
  - destruct ts; [|cbn in Hk; lia]. apply (abs_final cur done els [] false).
  - destruct ts as [|t ts]; [apply (abs_final cur done els [] false)|].
    cbn [length] in Hk. cbn [map scan_go tscan_go].
    assert (Hd : map (map classify) (rev cur :: done) = rev (map classify cur) :: map (map classify) done)
      by (cbn; now rewrite map_rev).
    assert (IH1 : forall n cur done els, scan_go (map classify ts) n (map classify cur) (map (map classify) done) els
                   = option_map abs_scanned (tscan_go ts n cur done els)) by (apply IH; lia).
    destruct (classify t) eqn:Ec.
    + rewrite <- Ec. apply (IH1 (S n) (t :: cur)).
    + destruct n as [|n].
      * apply (abs_final cur done els ts true).
      * rewrite <- Ec. apply (IH1 n (t :: cur)).
    + destruct n as [|n].
      * rewrite <- Hd, map_length. apply (IH1 O []).
      * rewrite <- Ec. apply (IH1 (S n) (t :: cur)).
    + destruct n as [|n].
      * rewrite <- Hd. apply (IH1 O []).
      * rewrite <- Ec. apply (IH1 (S n) (t :: cur)).
    + destruct ts as [|u ts']; [reflexivity|].
      cbn [map]. rewrite <- Ec. apply (IH ts' ltac:(cbn [length] in Hk; lia) n (u :: t :: cur)).
    + rewrite <- Ec. apply (IH1 n (t :: cur)).
Qed.

(* the scan of the engine, abstracted token by token, is the scan of Model/IfScan.v: what C03_scan_render,
   C03_process_selects and C03_nested_transparent say about [scan]/[process] holds for the classes of the real tokens *)
Lemma tscan_abstracts ts : scan (map classify ts) = option_map abs_scanned (tscan ts).
Proof. apply (tscan_go_abstracts_len (length ts) ts (le_n _) O [] [] None). Qed.

Lemma tselect_abstracts w sc : map classify (tselect w sc) = select w (abs_scanned sc).
Proof.
  unfold tselect, select, abs_scanned. cbn [cases elsecase].
  destruct (telse sc) as [e|].
  - now rewrite <- (map_nth (map classify)).
  - rewrite map_length, <- (map_nth (map classify)). f_equal. now rewrite map_app.
Qed.

Lemma tprocess_abstracts w ts : process w (map classify ts) = option_map (map classify) (tprocess w ts).
Proof.
  unfold process, tprocess. rewrite tscan_abstracts. destruct (tscan ts) as [sc|]; [|reflexivity].
  cbn [option_map]. now rewrite map_app, tselect_abstracts.
Qed.

(* ---------------------------------------------------------------------------------------------- *)
(* fragment F1 as an inductive predicate (for induction); [in_F1] decides it                        *)

Inductive F1n : node -> Prop :=
| F1_word w : F1n (NWord w)
| F1_group b : F1l b -> F1n (NGroup b)
| F1_def g nm b : F1l b -> F1n (NDef g nm O None b)
| F1_call nm : F1n (NCall nm None [])
| F1_cond t th el : f1_test t = true -> F1l th -> (forall e, el = Some e -> F1l e) -> F1n (NCond t th el)
with F1l : list node -> Prop :=
| F1_nil : F1l []
| F1_cons n r : F1n n -> F1l r -> F1l (n :: r).

Scheme F1n_mut := Minimality for F1n Sort Prop
with F1l_mut := Minimality for F1l Sort Prop.
Combined Scheme F1_mutind from F1n_mut, F1l_mut.

Lemma f1_node_sound : forall n, f1_node n = true -> F1n n.
Proof.
  fix IH 1. intros n. 
  pose (go := fix go (l : list node) : forallb f1_node l = true -> F1l l :=
      match l return forallb f1_node l = true -> F1l l with
      | [] => fun _ => F1_nil
      | x :: r => fun Hl => F1_cons x r (IH x (proj1 (andb_prop _ _ Hl))) (go r (proj2 (andb_prop _ _ Hl)))
      end).
  destruct n; intros H; try discriminate H.
  - constructor.
  - constructor. exact (go body H).
  - cbn [f1_node] in H. apply andb_true_iff in H as [H Hb]. apply andb_true_iff in H as [Hn Hd].
    apply Nat.eqb_eq in Hn. subst nparams. destruct default; [discriminate|]. constructor. exact (go body Hb).
  - cbn [f1_node] in H. destruct opt; [discriminate|]. destruct args; [constructor|discriminate].
  - cbn [f1_node] in H. apply andb_true_iff in H as [H He]. apply andb_true_iff in H as [Ht Hth].
    destruct els as [e0|].
    + constructor; [exact Ht|exact (go thn Hth)|]. intros e Hel. injection Hel as <-. exact (go e0 He).
    + constructor; [exact Ht|exact (go thn Hth)|]. intros e Hel. discriminate Hel.
Qed.

Lemma in_F1_sound p : in_F1 p = true -> F1l p.
Proof.
  unfold in_F1. induction p as [|n p IH]; intros H; constructor.
  - apply f1_node_sound. cbn in H. now apply andb_true_iff in H as [H _].
  - apply IH. cbn in H. now apply andb_true_iff in H as [_ H].
Qed.
